"""Exact Python-int semantics over width-growing signed z3 bit-vectors.

A SymInt is (term, lo, hi): a signed bit-vector term of some width w together
with a sound integer interval [lo, hi] that fits in w bits.  Every operation
widens its operands so that the bit-vector operation cannot wrap; the result is
therefore the mathematical (Python) integer result.  SymBool wraps a z3 Bool.

All operations are also available through Python operators so that executable
specifications written over plain ints run unchanged on symbolic values (with
`ite`, `land`, `lor`, `lnot` instead of `if`, `and`, `or`, `not`).
"""
try:
    import z3
except ImportError:          # replay processes run without the solver
    z3 = None

MAX_SHIFT = 4096          # largest admissible upper bound of a symbolic shift count / exponent


class OutOfSubset(Exception):
    """The construct is outside the modelled Python subset (never a verdict)."""


class HostError(Exception):
    """Raised by an operation model when CPython would raise `cls` (carrying an optional condition)."""

    def __init__(self, cls, msg=''):
        Exception.__init__(self, msg)
        self.cls = cls
        self.msg = msg


# hook installed by the engine: prove(cond: z3.BoolRef) -> bool under the current path condition
PROVER = [None]
# hook installed by the engine: host_check(cond_ok: z3.BoolRef, exc_cls, msg) – obligation that cond_ok holds
HOST_CHECK = [None]


def width_for(lo, hi):
    w = max(lo.bit_length() if lo >= 0 else (~lo).bit_length(), hi.bit_length() if hi >= 0 else (~hi).bit_length()) + 1
    return w


class SymBool:
    __slots__ = ('b',)

    def __init__(self, b):
        self.b = b

    def __repr__(self):
        return 'SymBool(%s)' % (self.b,)

    def __bool__(self):
        raise OutOfSubset('python branch on a symbolic bool outside the interpreter (use ite/land/lor/lnot)')

    # int-like behaviour of bool
    def __int__(self):
        raise OutOfSubset('int() of SymBool outside interpreter')

    def __and__(self, o):
        if isinstance(o, (SymBool, bool)):
            return land(self, o)
        return band(self, o)

    __rand__ = __and__

    def __or__(self, o):
        if isinstance(o, (SymBool, bool)):
            return lor(self, o)
        return bor(self, o)

    __ror__ = __or__

    def __xor__(self, o):
        if isinstance(o, (SymBool, bool)):
            return lnot(eq(self, o))
        return bxor(self, o)

    __rxor__ = __xor__

    def __invert__(self):
        return invert(self)

    def __add__(self, o): return add(self, o)
    __radd__ = __add__
    def __sub__(self, o): return sub(self, o)
    def __rsub__(self, o): return sub(o, self)
    def __mul__(self, o): return mul(self, o)
    __rmul__ = __mul__
    def __lshift__(self, o): return shl(self, o)
    def __rlshift__(self, o): return shl(o, self)
    def __eq__(self, o): return eq(self, o)
    def __ne__(self, o): return lnot(eq(self, o))
    __hash__ = object.__hash__


class SymInt:
    __slots__ = ('t', 'lo', 'hi', 'p2')

    def __init__(self, t, lo, hi, p2=None):
        self.t = t
        self.lo = lo
        self.hi = hi
        self.p2 = p2      # if not None: self == 2 ** p2 (p2 a SymInt >= 0)

    @property
    def w(self):
        return self.t.size()

    def __repr__(self):
        return 'SymInt(w=%d,[%d,%d])' % (self.w, self.lo, self.hi)

    def __bool__(self):
        raise OutOfSubset('python branch on a symbolic int outside the interpreter (use ite)')

    def __index__(self):
        raise OutOfSubset('symbolic int used as a native index')

    def __add__(self, o): return add(self, o)
    __radd__ = __add__
    def __sub__(self, o): return sub(self, o)
    def __rsub__(self, o): return sub(o, self)
    def __mul__(self, o): return mul(self, o)
    __rmul__ = __mul__
    def __neg__(self): return neg(self)
    def __pos__(self): return self
    def __invert__(self): return invert(self)
    def __lshift__(self, o): return shl(self, o)
    def __rlshift__(self, o): return shl(o, self)
    def __rshift__(self, o): return shr(self, o)
    def __rrshift__(self, o): return shr(o, self)
    def __and__(self, o): return band(self, o)
    __rand__ = __and__
    def __or__(self, o): return bor(self, o)
    __ror__ = __or__
    def __xor__(self, o): return bxor(self, o)
    __rxor__ = __xor__
    def __mod__(self, o): return mod(self, o)
    def __rmod__(self, o): return mod(o, self)
    def __floordiv__(self, o): return floordiv(self, o)
    def __rfloordiv__(self, o): return floordiv(o, self)
    def __pow__(self, o): return pow_(self, o)
    def __rpow__(self, o): return pow_(o, self)
    def __eq__(self, o): return cmp('==', self, o)
    def __ne__(self, o): return cmp('!=', self, o)
    def __lt__(self, o): return cmp('<', self, o)
    def __le__(self, o): return cmp('<=', self, o)
    def __gt__(self, o): return cmp('>', self, o)
    def __ge__(self, o): return cmp('>=', self, o)
    __hash__ = object.__hash__


class SymFrac:
    """Result of true division a / b; only int(...) of it is modelled (truncating division)."""
    __slots__ = ('a', 'b')

    def __init__(self, a, b):
        self.a = a
        self.b = b


def is_sym(x):
    return isinstance(x, (SymInt, SymBool))


def is_intlike(x):
    return isinstance(x, (int, SymInt, SymBool))     # bool is an int


def conc(x):
    return isinstance(x, int)


def const(v):
    v = int(v)
    w = width_for(v, v)
    return SymInt(z3.BitVecVal(v, w), v, v)


def lift(x):
    if isinstance(x, SymInt):
        return x
    if isinstance(x, SymBool):
        return SymInt(z3.If(x.b, z3.BitVecVal(1, 2), z3.BitVecVal(0, 2)), 0, 1)
    if isinstance(x, int):
        return const(x)
    raise HostError(TypeError, 'unsupported operand type %s' % type(x).__name__)


def fit(x, w):
    t = x.t
    s = t.size()
    if s < w:
        return z3.SignExt(w - s, t)
    if s > w:
        return z3.Extract(w - 1, 0, t)
    return t


def norm(t, lo, hi, p2=None):
    if lo > hi:
        # empty interval: unreachable value; keep something well-formed
        hi = lo
    w = width_for(lo, hi)
    s = t.size()
    if s > w:
        t = z3.Extract(w - 1, 0, t)
    elif s < w:
        t = z3.SignExt(w - s, t)
    if lo == hi:
        return lo
    return SymInt(t, lo, hi, p2)


def fresh(name, bits, hi=None):
    """Unsigned symbol of `bits` bits (value in [0, 2**bits-1] or [0, hi]). Returns (SymInt, var, constraint)."""
    v = z3.BitVec(name, bits)
    top = (1 << bits) - 1
    if hi is None or hi >= top:
        return SymInt(z3.ZeroExt(1, v), 0, top), v, None
    return SymInt(z3.ZeroExt(1, v), 0, hi), v, z3.ULE(v, z3.BitVecVal(hi, bits))


def fresh_bool(name):
    v = z3.Bool(name)
    return SymBool(v), v


def tighten_nonneg(k, what):
    """k: SymInt. Ensure k >= 0 under the path condition, else host error obligation."""
    if k.lo >= 0:
        return k
    ok = k.t >= 0
    HOST_CHECK[0](ok, ValueError, what)
    return SymInt(k.t, 0, max(k.hi, 0), k.p2)


def tighten_upper(k, limit, what):
    """Try to bound k <= limit using the prover; raise OutOfSubset if impossible."""
    if k.hi <= limit:
        return k
    # ask for a proof of progressively larger bounds
    for b in (32, 64, 256, limit):
        if b > limit or b >= k.hi:
            continue
        if PROVER[0] is not None and PROVER[0](k.t <= z3.BitVecVal(b, k.w)):
            return SymInt(k.t, k.lo, b, k.p2)
    raise OutOfSubset('unbounded symbolic %s (interval up to %d)' % (what, k.hi))


# ---------------------------------------------------------------- arithmetic

def add(a, b):
    if conc(a) and conc(b):
        return a + b
    a, b = lift(a), lift(b)
    lo, hi = a.lo + b.lo, a.hi + b.hi
    w = width_for(lo, hi)
    return norm(fit(a, w) + fit(b, w), lo, hi)


def neg(a):
    if conc(a):
        return -a
    a = lift(a)
    lo, hi = -a.hi, -a.lo
    w = width_for(lo, hi)
    return norm(-fit(a, w), lo, hi)


def sub(a, b):
    if conc(a) and conc(b):
        return a - b
    a, b = lift(a), lift(b)
    lo, hi = a.lo - b.hi, a.hi - b.lo
    w = width_for(lo, hi)
    return norm(fit(a, w) - fit(b, w), lo, hi)


def invert(a):
    if conc(a):
        return ~a
    return sub(neg(a), 1)


MUL_W = 72
MUL_UF = [False]      # when True, symbolic*symbolic products become uninterpreted functions (sound for unsat)
_uf_cache = {}
_uf_exact = {}       # id(application) -> (application, exact term at the operands' own width)


def _uf(name, *sorts):
    key = (name,) + tuple(s.size() for s in sorts)
    if key not in _uf_cache:
        _uf_cache[key] = z3.Function('%s_%s' % (name, '_'.join(str(s.size()) for s in sorts)), *sorts)
    return _uf_cache[key]


def mul(a, b):
    if conc(a) and conc(b):
        return a * b
    if conc(a) and not isinstance(a, bool) and a == 0 or conc(b) and not isinstance(b, bool) and b == 0:
        return 0
    a, b = lift(a), lift(b)
    cs = [a.lo * b.lo, a.lo * b.hi, a.hi * b.lo, a.hi * b.hi]
    lo, hi = min(cs), max(cs)
    w = width_for(lo, hi)
    if MUL_UF[0] and a.lo != a.hi and b.lo != b.hi and a.w <= MUL_W and b.w <= MUL_W and w <= 2 * MUL_W:
        # symbolic * symbolic: one uninterpreted function over canonical (sign-extended) operands, so that the same
        # product written on the code side and on the specification side is the same term up to congruence.
        # Over-approximation: `unsat` is sound; a `sat` answer is re-examined with the exact products (Engine.refine_mul)
        xa, xb = z3.simplify(fit(a, MUL_W)), z3.simplify(fit(b, MUL_W))
        f = _uf('mulUF', xa.sort(), xb.sort(), z3.BitVecSort(2 * MUL_W))
        exact = z3.SignExt(2 * MUL_W - w, fit(a, w) * fit(b, w))
        # commutative by construction: the function is applied to (min, max) of the operands
        app1, app2 = f(xa, xb), f(xb, xa)
        for app in (app1, app2):
            if app.get_id() not in _uf_exact:
                _uf_exact[app.get_id()] = (app, exact)
        return norm(z3.If(xa <= xb, app1, app2), lo, hi)
    return norm(fit(a, w) * fit(b, w), lo, hi)


def shl(a, k):
    if conc(a) and conc(k):
        if k < 0:
            raise HostError(ValueError, 'negative shift count')
        return a << k
    a = lift(a)
    if conc(k):
        if k < 0:
            raise HostError(ValueError, 'negative shift count')
        if k > MAX_SHIFT * 4:
            raise OutOfSubset('huge shift')
        lo, hi = a.lo << k, a.hi << k
        if k == 0:
            return a
        return norm(z3.Concat(a.t, z3.BitVecVal(0, k)), lo, hi)
    k = tighten_nonneg(lift(k), 'negative shift count')
    k = tighten_upper(k, MAX_SHIFT, 'shift count')
    cand = [a.lo << k.hi, a.lo << k.lo, a.hi << k.hi, a.hi << k.lo]
    lo, hi = min(cand), max(cand)
    w = max(width_for(lo, hi), k.w + 1)
    return norm(fit(a, w) << fit(k, w), lo, hi)


def shr(a, k):
    if conc(a) and conc(k):
        if k < 0:
            raise HostError(ValueError, 'negative shift count')
        return a >> k
    a = lift(a)
    if conc(k):
        if k < 0:
            raise HostError(ValueError, 'negative shift count')
        lo, hi = a.lo >> k, a.hi >> k
        if k == 0:
            return a
        if k >= a.w:
            k = a.w - 1
        return norm(z3.Extract(a.w - 1, k, a.t), lo, hi)      # signed value of the upper bits = floor(a / 2**k)
    k = tighten_nonneg(lift(k), 'negative shift count')
    cand = [a.lo >> k.lo, a.lo >> k.hi, a.hi >> k.lo, a.hi >> k.hi]
    lo, hi = min(cand), max(cand)
    w = max(a.w, k.w + 1)
    return norm(fit(a, w) >> fit(k, w), lo, hi)      # z3 >> on signed BitVecRef is arithmetic


def pow2(k):
    if conc(k):
        if k < 0:
            raise HostError(TypeError, 'negative exponent gives float')
        return 2 ** k
    k = tighten_nonneg(lift(k), 'negative exponent (float result)')
    r = shl(1, k)
    if isinstance(r, SymInt):
        r.p2 = k
    return r


def pow_(a, k):
    if conc(a) and conc(k):
        if k < 0:
            raise HostError(TypeError, 'negative exponent gives float')
        return a ** k
    if conc(a) and a > 0 and (a & (a - 1)) == 0:
        m = a.bit_length() - 1
        if m == 0:
            return 1
        return pow2(mul(m, k))
    if conc(k) and 0 <= k <= 4:
        r = 1
        for _ in range(k):
            r = mul(r, a)
        return r
    raise OutOfSubset('general symbolic power')


def _is_p2(m):
    return m > 0 and (m & (m - 1)) == 0


def mod(a, m):
    if conc(a) and conc(m):
        if m == 0:
            raise HostError(ZeroDivisionError, 'modulo by zero')
        return a % m
    if conc(m):
        if m == 0:
            raise HostError(ZeroDivisionError, 'modulo by zero')
        a = lift(a)
        if m > 0 and a.lo >= 0 and a.hi < m:
            return a
        if _is_p2(m):
            k = m.bit_length() - 1
            if k == 0:
                return 0
            t = z3.Extract(k - 1, 0, fit(a, max(a.w, k)))
            return norm(z3.ZeroExt(1, t), 0, m - 1)
        if m > 0:
            w = max(a.w, width_for(m, m)) + 1
            return norm((fit(a, w) % z3.BitVecVal(m, w)), 0, m - 1)
        raise OutOfSubset('modulo by negative constant')
    a, m = lift(a), lift(m)
    if m.p2 is not None:
        k = m.p2
        w = max(a.w, k.hi + 2)
        mask = (z3.BitVecVal(1, w) << fit(k, w)) - 1
        return norm(fit(a, w) & mask, 0, (1 << k.hi) - 1)
    if m.lo <= 0:
        HOST_CHECK[0](m.t != 0, ZeroDivisionError, 'modulo by zero')
        if m.lo < 0:
            if PROVER[0] is None or not PROVER[0](m.t > 0):
                raise OutOfSubset('modulo by possibly negative value')
        m = SymInt(m.t, 1, m.hi, m.p2)
    w = max(a.w, m.w) + 1
    return norm((fit(a, w) % fit(m, w)), 0, m.hi - 1)


def floordiv(a, b):
    if conc(a) and conc(b):
        if b == 0:
            raise HostError(ZeroDivisionError, 'division by zero')
        return a // b
    if conc(b):
        if b == 0:
            raise HostError(ZeroDivisionError, 'division by zero')
        if _is_p2(b):
            return shr(a, b.bit_length() - 1)
    a, b = lift(a), lift(b)
    if b.lo <= 0:
        HOST_CHECK[0](b.t != 0, ZeroDivisionError, 'division by zero')
        if b.lo < 0:
            if PROVER[0] is None or not PROVER[0](b.t > 0):
                raise OutOfSubset('floor division by possibly negative value')
        b = SymInt(b.t, 1, b.hi, b.p2)
    # floor(a/b) = (a - (a mod b)) / b exactly, b > 0
    w = max(a.w, b.w) + 1
    at, bt = fit(a, w), fit(b, w)
    r = at % bt
    q = (at - r) / bt            # signed division, exact here
    cand = [a.lo // b.lo, a.lo // b.hi, a.hi // b.lo, a.hi // b.hi]
    return norm(q, min(cand), max(cand))


def truncdiv(a, b):
    """int(a / b): truncation toward zero (float argument valid for |a|,|b| < 2**53)."""
    if conc(a) and conc(b):
        if b == 0:
            raise HostError(ZeroDivisionError, 'division by zero')
        return int(a / b)
    a, b = lift(a), lift(b)
    if max(abs(a.lo), abs(a.hi), abs(b.lo), abs(b.hi)) >= 2 ** 53:
        raise OutOfSubset('true division beyond 2**53')
    if b.lo <= 0 <= b.hi:
        HOST_CHECK[0](b.t != 0, ZeroDivisionError, 'division by zero')
    w = max(a.w, b.w) + 1
    m = max(abs(a.lo), abs(a.hi))
    if MUL_UF[0] and w <= MUL_W:
        # same abstraction as for products: quotient of canonical operands as an uninterpreted function, exact on refinement
        f = _uf('divUF', z3.BitVecSort(MUL_W), z3.BitVecSort(MUL_W), z3.BitVecSort(MUL_W))
        app = f(z3.simplify(fit(a, MUL_W)), z3.simplify(fit(b, MUL_W)))
        if app.get_id() not in _uf_exact:
            _uf_exact[app.get_id()] = (app, z3.SignExt(MUL_W - w, fit(a, w) / fit(b, w)))   # bvsdiv: truncating
        return norm(app, -m, m)
    return norm(fit(a, w) / fit(b, w), -m, m)       # z3 '/' on signed BitVecRef = bvsdiv (truncating)


def _bit_bounds(a, b, w):
    if a.lo >= 0 and b.lo >= 0:
        return None
    return -(1 << (w - 1)), (1 << (w - 1)) - 1


def band(a, b):
    if conc(a) and conc(b):
        return a & b
    for x, y in ((a, b), (b, a)):
        if conc(y) and not isinstance(y, bool) and y >= 0 and (y & (y + 1)) == 0:
            return mod(x, y + 1)            # x & (2**k - 1) == x mod 2**k, also for negative x
    a, b = lift(a), lift(b)
    w = max(a.w, b.w)
    t = fit(a, w) & fit(b, w)
    if a.lo >= 0 and b.lo >= 0:
        lo, hi = 0, min(a.hi, b.hi)
    elif a.lo >= 0:
        lo, hi = 0, a.hi
    elif b.lo >= 0:
        lo, hi = 0, b.hi
    else:
        lo, hi = -(1 << (w - 1)), (1 << (w - 1)) - 1
    return norm(t, lo, hi)


def bor(a, b):
    if conc(a) and conc(b):
        return a | b
    a, b = lift(a), lift(b)
    w = max(a.w, b.w)
    t = fit(a, w) | fit(b, w)
    if a.lo >= 0 and b.lo >= 0:
        lo, hi = max(a.lo, b.lo), (1 << max(a.hi.bit_length(), b.hi.bit_length())) - 1
    else:
        lo, hi = -(1 << (w - 1)), (1 << (w - 1)) - 1
    return norm(t, lo, hi)


def bxor(a, b):
    if conc(a) and conc(b):
        return a ^ b
    a, b = lift(a), lift(b)
    w = max(a.w, b.w)
    t = fit(a, w) ^ fit(b, w)
    if a.lo >= 0 and b.lo >= 0:
        lo, hi = 0, (1 << max(a.hi.bit_length(), b.hi.bit_length())) - 1
    else:
        lo, hi = -(1 << (w - 1)), (1 << (w - 1)) - 1
    return norm(t, lo, hi)


_OPS = {
    '==': lambda x, y: x == y, '!=': lambda x, y: x != y, '<': lambda x, y: x < y,
    '<=': lambda x, y: x <= y, '>': lambda x, y: x > y, '>=': lambda x, y: x >= y,
}


def cmp(op, a, b):
    if not (is_intlike(a) and is_intlike(b)):
        if op == '==':
            return a is b or (not is_sym(a) and not is_sym(b) and a == b)
        if op == '!=':
            return not (a is b or (not is_sym(a) and not is_sym(b) and a == b))
        raise HostError(TypeError, 'ordering comparison between incompatible types')
    if conc(a) and conc(b):
        return _OPS[op](a, b)
    a, b = lift(a), lift(b)
    # interval shortcuts
    if a.hi < b.lo:
        return {'==': False, '!=': True, '<': True, '<=': True, '>': False, '>=': False}[op]
    if a.lo > b.hi:
        return {'==': False, '!=': True, '<': False, '<=': False, '>': True, '>=': True}[op]
    if a.hi <= b.lo and op in ('<=', '>'):
        return op == '<='
    if a.lo >= b.hi and op in ('>=', '<'):
        return op == '>='
    w = max(a.w, b.w)
    x, y = fit(a, w), fit(b, w)
    return SymBool(_OPS[op](x, y))


def eq(a, b):
    if isinstance(a, (SymBool, bool)) and isinstance(b, (SymBool, bool)):
        if isinstance(a, bool) and isinstance(b, bool):
            return a == b
        if isinstance(a, bool):
            return b if a else lnot(b)
        if isinstance(b, bool):
            return a if b else lnot(a)
        return SymBool(a.b == b.b)
    return cmp('==', a, b)


def truth(x):
    if isinstance(x, SymBool):
        return x
    if isinstance(x, SymInt):
        if x.lo > 0 or x.hi < 0:
            return True
        return SymBool(x.t != 0)
    return bool(x)


def lnot(x):
    x = truth(x)
    if isinstance(x, SymBool):
        return SymBool(z3.Not(x.b))
    return not x


def land(*xs):
    out = []
    for x in xs:
        x = truth(x)
        if isinstance(x, SymBool):
            out.append(x.b)
        elif not x:
            return False
    if not out:
        return True
    return SymBool(z3.And(*out)) if len(out) > 1 else SymBool(out[0])


def lor(*xs):
    out = []
    for x in xs:
        x = truth(x)
        if isinstance(x, SymBool):
            out.append(x.b)
        elif x:
            return True
    if not out:
        return False
    return SymBool(z3.Or(*out)) if len(out) > 1 else SymBool(out[0])


def implies(a, b):
    return lor(lnot(a), b)


def zb(x):
    """python/SymBool truth value -> z3 BoolRef"""
    if z3 is not None and isinstance(x, z3.BoolRef):
        return x
    x = truth(x)
    if isinstance(x, SymBool):
        return x.b
    if z3 is None:
        return bool(x)              # solver-less replay processes work on plain values
    return z3.BoolVal(bool(x))


def ite(c, a, b):
    c = truth(c)
    if not isinstance(c, SymBool):
        return a if c else b
    if a is b:
        return a
    if isinstance(a, (bool, SymBool)) and isinstance(b, (bool, SymBool)):
        return SymBool(z3.If(c.b, zb(a), zb(b)))
    if is_intlike(a) and is_intlike(b):
        if conc(a) and conc(b) and int(a) == int(b) and type(a) is type(b):
            return a
        a, b = lift(a), lift(b)
        lo, hi = min(a.lo, b.lo), max(a.hi, b.hi)
        w = width_for(lo, hi)
        return norm(z3.If(c.b, fit(a, w), fit(b, w)), lo, hi)
    raise OutOfSubset('ite over non-integer values %r / %r' % (type(a).__name__, type(b).__name__))


def sel(seq, i):
    """seq[i] for a python sequence of int-like values and possibly symbolic index i (must be in range)."""
    if conc(i):
        return seq[i]
    out = seq[len(seq) - 1]
    for j in range(len(seq) - 2, -1, -1):
        out = ite(cmp('==', i, j), seq[j], out)
    return out


def upd(seq, i, v):
    """functional update: copy of seq with seq[i] = v (symbolic i allowed)."""
    if conc(i):
        out = list(seq)
        out[i] = v
        return out
    return [ite(cmp('==', i, j), v, seq[j]) for j in range(len(seq))]


def popcount(x, nbits):
    """number of one bits of x, 0 <= x < 2**nbits"""
    if conc(x):
        return bin(x).count('1')
    x = lift(x)
    w = nbits.bit_length() + 1
    xt = fit(x, max(x.w, nbits + 1))
    tot = z3.BitVecVal(0, w)
    for i in range(nbits):
        tot = tot + z3.ZeroExt(w - 1, z3.Extract(i, i, xt))
    return norm(tot, 0, nbits)


def bit_length(x):
    if conc(x):
        return x.bit_length()
    x = lift(x)
    if x.lo < 0:
        raise OutOfSubset('bit_length of possibly negative symbolic')
    n = x.hi.bit_length()
    out = 0
    for i in range(n):
        out = ite(cmp('!=', shr(x, i), 0), i + 1, out)
    return out


def to_term(x, w):
    """value -> z3 signed BV term of width w (caller guarantees the value fits)"""
    return fit(lift(x), w)


def value_in_range(x, lo, hi):
    """SymBool/bool: lo <= x <= hi"""
    return land(cmp('>=', x, lo), cmp('<=', x, hi))


def evaluate(x, model):
    """Concrete python value of a (possibly symbolic) value under a z3 model."""
    if isinstance(x, SymInt):
        v = model.eval(x.t, model_completion=True)
        n = v.as_long()
        if n >= 1 << (x.w - 1):
            n -= 1 << x.w
        return n
    if isinstance(x, SymBool):
        return z3.is_true(model.eval(x.b, model_completion=True))
    return x


def mul_uf_definitions(terms):
    """exact definitions  mulUF(x, y) == sext(x) * sext(y)  for every application occurring in `terms`"""
    seen, apps, todo = set(), [], list(terms)
    while todo:
        t = todo.pop()
        i = t.get_id()
        if i in seen:
            continue
        seen.add(i)
        if z3.is_app(t):
            if t.decl().name().startswith('mulUF_') or t.decl().name().startswith('divUF_'):
                apps.append(t)
            todo.extend(t.children())
    out = []
    for a in apps:
        hit = _uf_exact.get(a.get_id())
        if hit is not None:
            out.append(a == hit[1])
            continue
        x, y = a.children()
        if a.decl().name().startswith('divUF_'):
            out.append(a == x / y)
        else:
            out.append(a == z3.SignExt(MUL_W, x) * z3.SignExt(MUL_W, y))
    return out
