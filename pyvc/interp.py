"""pyvc interpreter: symbolic execution of the *real* source of live Python functions.

The AST of every interpreted function is re-read from the file its live code object
points at; classes, MRO, descriptors, enum members, globals and defaults come from the
live objects.  Paths are explored by re-execution under a decision prefix; `if`
statements and selected calls are merged (ite) when all normal outcomes differ only in
integer-valued locations.
"""
import ast
import builtins
import enum
import time
import os
import sys
import types

try:
    import z3
except ImportError:
    z3 = None

from . import sym
from .sym import (SymInt, SymBool, SymFrac, OutOfSubset, HostError, is_sym, is_intlike, conc, truth, lnot, land,
                  lor, ite, cmp, zb)

HOST_ERRORS = (AttributeError, TypeError, IndexError, KeyError, AssertionError, UnboundLocalError, NameError,
               ValueError, ZeroDivisionError, RecursionError, OverflowError)


class Obj:
    """Heap record for an instance of a (repo or exception) class."""
    __slots__ = ('cls', 'attrs', 'tag')

    def __init__(self, cls, attrs=None, tag=None):
        self.cls = cls
        self.attrs = attrs if attrs is not None else {}
        self.tag = tag

    def __repr__(self):
        return '<Obj %s %s>' % (self.cls.__name__, self.tag or '')


class BoundM:
    __slots__ = ('fn', 'obj')

    def __init__(self, fn, obj):
        self.fn = fn
        self.obj = obj


class Closure:
    """value of a lambda expression: the body is evaluated in the defining environment extended by the parameters"""
    __slots__ = ('node', 'env', 'g')

    def __init__(self, node, env, g):
        self.node = node
        self.env = env
        self.g = g


class PyRaise(Exception):
    """A Python exception raised by the interpreted program (exc is an Obj of an exception class)."""

    def __init__(self, exc):
        Exception.__init__(self)
        self.exc = exc


class _Return(Exception):
    def __init__(self, v):
        self.v = v


class _Break(Exception):
    pass


class _Continue(Exception):
    pass


class PathEnd(Exception):
    """Current path is infeasible."""


class CutPoint(Exception):
    """raised by a loop hook to end the exploration of a unit at a cut point (payload for the unit's thunk)"""

    def __init__(self, payload=None, eng=None):
        Exception.__init__(self)
        self.payload = payload
        # enclosing merge regions restore the path condition while the exception propagates: keep the cut point's
        self.pc = list(eng.path.pc) if eng is not None else None
        self.unpred = eng.path.unpred if eng is not None else None

    def reinstate(self, eng):
        if self.pc is not None:
            eng.path.pc = list(self.pc)
            eng.path.unpred = self.unpred


class _Unbound:
    def __repr__(self):
        return 'UNBOUND'


UNBOUND = _Unbound()


class Maybe:
    """a local that is bound only under `cond` (merged from arms of which some did not assign it)"""
    __slots__ = ('cond', 'value')

    def __init__(self, cond, value):
        self.cond = cond          # z3 Bool: the variable is bound
        self.value = value


class BinStr:
    """bin(x) of a symbolic non-negative int; only .count('1') is modelled."""

    def __init__(self, x):
        self.x = x


# ------------------------------------------------------------------ source access

_file_cache = {}
_fn_cache = {}


def func_ast(fn):
    code = fn.__code__
    key = (code.co_filename, code.co_firstlineno, code.co_name)
    r = _fn_cache.get(key)
    if r is None:
        idx = _file_cache.get(code.co_filename)
        if idx is None:
            with open(code.co_filename) as f:
                tree = ast.parse(f.read())
            idx = {}
            for n in ast.walk(tree):
                if isinstance(n, (ast.FunctionDef, ast.Lambda)):
                    name = getattr(n, 'name', '<lambda>')
                    idx.setdefault((name, n.lineno), n)
                    for d in getattr(n, 'decorator_list', ()):
                        idx.setdefault((name, d.lineno), n)
            _file_cache[code.co_filename] = idx
        node = idx.get((code.co_name, code.co_firstlineno))
        if node is None:
            raise OutOfSubset('source of %s not found' % (key,))
        locs = set()
        for n in ast.walk(node):
            if isinstance(n, ast.Name) and isinstance(n.ctx, (ast.Store, ast.Del)):
                locs.add(n.id)
            elif isinstance(n, ast.ExceptHandler) and n.name:
                locs.add(n.name)
            elif isinstance(n, ast.arg):
                locs.add(n.arg)
        for n in ast.walk(node):
            if isinstance(n, (ast.Global, ast.Nonlocal)):
                raise OutOfSubset('global/nonlocal in %s' % code.co_name)
        r = (node, locs)
        _fn_cache[key] = r
    return r


def reset_source_cache():
    _file_cache.clear()
    _fn_cache.clear()


def qualname(f):
    return '%s.%s' % (getattr(f, '__module__', '?'), getattr(f, '__qualname__', getattr(f, '__name__', '?')))


# ------------------------------------------------------------------ results

class Obligation:
    __slots__ = ('kind', 'label', 'status', 'model', 'seconds', 'backend', 'decisions', 'detail', 'props', 'z3model')

    def __init__(self, kind, label):
        self.kind = kind
        self.label = label
        self.status = None        # 'proved' | 'failed' | 'undecided'
        self.model = None         # dict name -> int for failed
        self.seconds = 0.0
        self.backend = 'z3'
        self.decisions = None
        self.detail = ''
        self.props = None
        self.z3model = None


class PathResult:
    __slots__ = ('decisions', 'pc', 'kind', 'value', 'unpred', 'data')

    def __init__(self, decisions, pc, kind, value, unpred, data):
        self.decisions = decisions
        self.pc = pc
        self.kind = kind          # 'ok' | 'raise' | 'oos'
        self.value = value
        self.unpred = unpred
        self.data = data


class Path:
    __slots__ = ('pc', 'unpred', 'notes')

    def __init__(self, pc):
        self.pc = pc
        self.unpred = False       # bool or SymBool
        self.notes = []


# ------------------------------------------------------------------ engine

class Engine:
    def __init__(self, contracts=None, inline=None, merge_calls=None, subst=None, package='armulator',
                 query_timeout_ms=20000, max_paths=20000, loop_bound=64, logic='QF_UFBV', mul_uf=False, oneshot=True):
        self.contracts = contracts or {}
        self.inline = set(inline or ())          # functions whose contract is NOT used (unit under test)
        self.merge_calls = set(merge_calls or ())
        self.subst = subst or {}                 # id(native object) -> engine value
        self.package = package
        self.solver = z3.SolverFor(logic)
        self.logic = logic
        self.oneshot = oneshot                   # obligations the incremental solver leaves open go to a fresh one-shot solver first
        self.quick_timeout_ms = 2500             # incremental attempt of an obligation before the one-shot solver takes over
        self.solver.set('timeout', query_timeout_ms)
        self.query_timeout_ms = query_timeout_ms
        self.mul_uf = mul_uf                     # symbolic products as one uninterpreted function, refined on `sat`
        self.mul_refine_timeout_ms = 60000
        sym.MUL_UF[0] = mul_uf
        self.slow_timeout_ms = 300000          # conjunct-wise retry of an obligation the quick budget left open
        self.max_paths = max_paths
        self.loop_bound = loop_bound
        self.merge_enabled = True
        self.heap = []                           # registered mutable containers (Obj, list, dict, model objects)
        self.obligations = []
        self._ob_cache = {}
        self._sat_cache = {}
        self._asserted = []
        self._models = []
        self.inputs = {}                         # name -> z3 var (current path)
        self.all_inputs = {}                     # name -> z3 var (all paths)
        self.stats = {'paths': 0, 'solver_calls': 0, 'solver_s': 0.0, 'merges': 0, 'merge_fallbacks': 0,
                      'inlined': set(), 'contract_calls': {}, 'oos': []}
        self.depth = 0
        self.path = None
        self.prefix = []
        self.pos = 0
        self.pending = []
        self.undecided_branches = 0
        self.writes = 0
        self.no_merge_nodes = set()
        self._merge_fail = {}
        self.merge_fail_limit = 4
        self._merge_node = None
        self.loop_hooks = {}                     # (function, loop ordinal) -> hook(eng, stmt, env, globals) -> handled?
        sym.PROVER[0] = self.prove
        sym.HOST_CHECK[0] = self.host_check

    # ---------------- symbols
    def fresh_int(self, name, bits, hi=None):
        v, var, c = sym.fresh(name, bits, hi)
        self.inputs[name] = var
        self.all_inputs[name] = var
        if c is not None:
            self.path.pc.append(c)
        return v

    def fresh_bool(self, name):
        v, var = sym.fresh_bool(name)
        self.inputs[name] = var
        self.all_inputs[name] = var
        return v

    # ---------------- ownership tracking (C20): host objects that are not part of the unit's symbolic state
    def _is_foreign_mutable(self, v):
        if isinstance(v, (list, dict, set, bytearray)):
            return not any(v is h for h in self.heap)
        if isinstance(v, (int, str, bytes, tuple, frozenset, float, type(None), type, types.ModuleType, types.FunctionType,
                          types.BuiltinFunctionType, types.MethodType, enum.Enum, property, staticmethod, classmethod, range,
                          SymInt, SymBool, Obj)):
            return False
        if hasattr(v, 'snap') or hasattr(v, 'sym_class') or hasattr(v, 'sym_setattr') or callable(v):
            return False           # engine model objects, callables
        return hasattr(v, '__dict__')

    def note_read(self, how, name, v, g=None):
        if id(v) in self.subst:
            return
        if self._is_foreign_mutable(v):
            if how == 'global' and g is not None and isinstance(v, (list, dict, set)) and effectively_constant_global(g, name):
                return      # a lookup table: no code of the package can change it (every use is a read form)
            self.foreign_reads.setdefault('%s %s (%s)' % (how, name, type(v).__name__), v)

    def note_write(self, how, o):
        self.foreign_writes.append('%s on %s' % (how, o.cls.__name__ if isinstance(o, Obj) else type(o).__name__))

    def register(self, o):
        self.writes += 1
        self.heap.append(o)
        return o

    def new_obj(self, cls, attrs=None, tag=None):
        return self.register(Obj(cls, attrs, tag))

    # ---------------- solver
    def _sync(self):
        """bring the incremental solver's assertion stack in line with the current path condition
        (one push level per conjunct; re-executed prefixes yield identical terms, so they are kept)"""
        s = self.solver
        pc = self.path.pc
        asserted = self._asserted
        n = 0
        lim = min(len(pc), len(asserted))
        while n < lim and asserted[n][0] == pc[n].get_id():
            n += 1
        if n < len(asserted):
            s.pop(len(asserted) - n)
            del asserted[n:]
        for c in pc[n:]:
            s.push()
            s.add(c)
            asserted.append((c.get_id(), c))

    def _check(self, *extra):
        s = self.solver
        t0 = time.time()
        self._sync()
        if extra:
            s.push()
            try:
                s.add(*extra)
                r = s.check()
                m = s.model() if r == z3.sat else None
            finally:
                s.pop()
        else:
            r = s.check()
            m = s.model() if r == z3.sat else None
        self.stats['solver_calls'] += 1
        self.stats['solver_s'] += time.time() - t0
        if m is not None:
            self._models.append((tuple(c.get_id() for c in self.path.pc), m))
            if len(self._models) > 6:
                del self._models[0]
        return r, m

    def _check_fresh(self, timeout_ms, *extra):
        s = z3.SolverFor(self.logic)
        s.set('timeout', int(timeout_ms))
        t0 = time.time()
        s.add(*self.path.pc)
        s.add(*extra)
        r = s.check()
        m = s.model() if r == z3.sat else None
        self.stats['solver_calls'] += 1
        self.stats['solver_s'] += time.time() - t0
        return r, m

    def feasible(self, cond):
        key = tuple(c.get_id() for c in self.path.pc) + (cond.get_id(),)
        hit = self._sat_cache.get(key)
        if hit is not None:
            return hit[0]
        if self._model_says(cond):
            self._sat_cache[key] = (True, list(self.path.pc), cond)
            return True
        r, _ = self._check(cond)
        if r == z3.unknown:
            self.undecided_branches += 1
        res = r != z3.unsat
        self._sat_cache[key] = (res, list(self.path.pc), cond)     # keep the terms alive so ids stay unique
        return res

    def _model_says(self, cond):
        """cheap sat witness: a recent model of the *current* path condition that also satisfies cond"""
        pc = self.path.pc
        n = len(pc)
        for k in range(len(self._models) - 1, -1, -1):
            ids, m = self._models[k]
            npc = len(ids)
            try:
                if npc > n:
                    continue
                if any(ids[i] != pc[i].get_id() for i in range(npc)):
                    continue
                # the model was found for pc[:npc] (+ a query); it must also satisfy the later conjuncts
                ok = True
                for c in pc[npc:]:
                    if not z3.is_true(m.eval(c, model_completion=True)):
                        ok = False
                        break
                if ok and self._models_pc_ok(k) and z3.is_true(m.eval(cond, model_completion=True)):
                    return True
            except z3.Z3Exception:
                continue
        return False

    def _models_pc_ok(self, k):
        return True

    def prove(self, cond):
        cond = z3.simplify(cond)
        if z3.is_true(cond):
            return True
        if z3.is_false(cond):
            return False
        return not self.feasible(z3.Not(cond))

    def assume(self, cond):
        c = zb(cond)
        c = z3.simplify(c)
        if z3.is_false(c):
            raise PathEnd()
        if not z3.is_true(c):
            self.path.pc.append(c)

    def decide(self, cond):
        """cond: z3 Bool -> python bool for this path (forks)."""
        cond = z3.simplify(cond)
        if z3.is_true(cond):
            return True
        if z3.is_false(cond):
            return False
        if self.pos < len(self.prefix):
            d = self.prefix[self.pos]
            if d is not True and d is not False:
                raise RuntimeError('decision token mismatch: %r' % (d,))
            self.pos += 1
        else:
            t = self.feasible(cond)
            f = self.feasible(z3.Not(cond))
            if t and f:
                self.pending.append(self.prefix[:self.pos] + [False])
                d = True
            elif t:
                d = True
            elif f:
                d = False
            else:
                raise PathEnd()
            self.prefix = self.prefix[:self.pos] + [d]
            self.pos += 1
        self.path.pc.append(cond if d else z3.Not(cond))
        return d

    def host_check(self, ok_cond, cls, msg):
        """Obligation-like fork: if ok_cond can fail, that side raises cls (a host error path)."""
        if not self.decide(ok_cond):
            raise PyRaise(self.make_exc(cls, msg))

    def make_exc(self, cls, *args):
        return Obj(cls, {'args': tuple(args)})

    def mark_unpred(self):
        self.path.unpred = True

    def wrote(self):
        self.writes += 1

    # ---------------- obligations
    # ---------------- known findings (recorded genuine defects): the obligation is checked as  cond OR region
    def _kf_regions(self, kind, label, leaf=None):
        import fnmatch
        out = []
        for k in getattr(self, 'known', None) or ():
            if not fnmatch.fnmatchcase(kind, k.get('kind', '*')) or not fnmatch.fnmatchcase(label, k.get('label', '*')):
                continue
            if leaf is not None and k.get('leaves') and leaf not in k['leaves']:
                continue
            if leaf is None and k.get('leaves'):
                continue
            out.append(self._kf_eval(k))
        return out

    def _kf_eval(self, k):
        from . import sym as S
        I = {}
        for nm, var in self.inputs.items():
            if z3.is_bool(var):
                I[nm] = SymBool(var)
            else:
                I[nm] = SymInt(z3.ZeroExt(1, var), 0, (1 << var.size()) - 1)
        env = {'I': I, 'land': S.land, 'lor': S.lor, 'lnot': S.lnot, 'ite': S.ite, 'sel': S.sel, 'eq': S.eq,
               'bits': lambda x, hi, lo: (x >> lo) & ((1 << (hi - lo + 1)) - 1), 'bit': lambda x, i: (x >> i) & 1}
        for nm, v in I.items():
            if nm.isidentifier():
                env[nm] = v
        return zb(eval(k['region'], env))

    def oblige(self, kind, label, cond, detail='', timeout_ms=None, last_resort=True):
        """Prove pc => cond now; record result."""
        regs = self._kf_regions(kind, label)
        if regs:
            cond = z3.Or(zb(cond), *regs)
        ob = Obligation(kind, label)
        ob.detail = detail
        ob.decisions = list(self.prefix[:self.pos])
        c = z3.simplify(zb(cond))
        t0 = time.time()
        if z3.is_true(c):
            ob.status = 'proved'
            ob.backend = 'syntactic'
        else:
            goal = z3.And(*(self.path.pc + [z3.Not(c)])) if self.path.pc else z3.Not(c)
            key = (kind, label, goal.hash())
            hit = None
            for (g, res) in self._ob_cache.get(key, ()):
                if g.eq(goal):
                    hit = res
                    break
            if hit is not None:
                return hit
            # the incremental solver (shared with branch-feasibility queries) first, briefly; what it leaves open goes to
            # a fresh one-shot solver, whose tactic pipeline is far stronger on the big leaf-wise equalities
            budget = timeout_ms or self.query_timeout_ms
            self.solver.set('timeout', min(self.quick_timeout_ms, budget))
            try:
                r, m = self._check(z3.Not(c))
            finally:
                self.solver.set('timeout', self.query_timeout_ms)
            if r == z3.unknown and self.oneshot:
                r, m = self._check_fresh(min(budget, self.query_timeout_ms), z3.Not(c))
                ob.backend = 'z3-oneshot'
            if r == z3.unknown and budget > self.quick_timeout_ms:
                # portfolio: some goals (deep ite chains over addresses) suit the incremental core better
                self.solver.set('timeout', budget)
                try:
                    r, m = self._check(z3.Not(c))
                finally:
                    self.solver.set('timeout', self.query_timeout_ms)
                ob.backend = 'z3'
            if r == z3.unknown and last_resort and self.oneshot:
                # nothing else will look at this obligation again: one long one-shot attempt, so that a loaded machine
                # does not turn a 20 s proof into `undecided`
                r, m = self._check_fresh(self.slow_timeout_ms, z3.Not(c))
                ob.backend = 'z3-oneshot'
            extra_defs = []
            if r == z3.sat and sym.MUL_UF[0]:
                # products were abstracted by an uninterpreted function: re-examine with their exact definitions
                extra_defs = sym.mul_uf_definitions(self.path.pc + [c])
                if extra_defs:
                    if os.environ.get('VERIF_DEBUG'):
                        print('REFINE', kind, label, len(extra_defs), 'defs', flush=True)
                    r, m = self._check_fresh(self.mul_refine_timeout_ms, z3.Not(c), *extra_defs)
                    ob.backend = 'z3+exact-products'
            if r == z3.unsat:
                ob.status = 'proved'
            elif r == z3.sat:
                ob.status = 'failed'
                hints = getattr(self, 'small_model_hints', None)
                if hints and extra_defs:
                    hints = list(hints) + extra_defs
                if hints:
                    r2, m2 = self._check_fresh(self.query_timeout_ms, z3.Not(c), *hints)      # prefer a counterexample that can be replayed natively
                    if r2 == z3.sat:
                        m = m2
                ob.model = self.model_inputs(m)
                ob.z3model = m
            else:
                ob.status = 'undecided'
                ob.detail += ' solver: %s' % self.solver.reason_unknown()
            self._ob_cache.setdefault(key, []).append((goal, ob))
        ob.seconds = time.time() - t0
        if os.environ.get('VERIF_DUMP') and ob.seconds > float(os.environ['VERIF_DUMP']) and not z3.is_true(c):
            n = len(os.listdir('/tmp/smt')) if os.path.isdir('/tmp/smt') else 0
            os.makedirs('/tmp/smt', exist_ok=True)
            s2 = z3.Solver()
            s2.add(*self.path.pc)
            s2.add(z3.Not(c))
            open('/tmp/smt/q%03d.smt2' % n, 'w').write('; %s %s %.1fs %s\n(set-logic QF_UFBV)\n' % (kind, label, ob.seconds, ob.status) + s2.to_smt2())
        if os.environ.get('VERIF_DEBUG') and ob.seconds > 1:
            print('OBLIGE %.1fs %s %s %s %s' % (ob.seconds, kind, label[:50], ob.status, ob.detail[:60]), flush=True)
        self.obligations.append(ob)
        return ob

    def oblige_all(self, kind, label, named, detail=''):
        """conjunction of named conditions; on failure the detail lists the conjuncts false in the model"""
        conds = []
        for n, c in named:
            c = zb(c)
            regs = self._kf_regions(kind, label, leaf=n)
            if regs:
                c = z3.Or(c, *regs)
            c = z3.simplify(c)
            if not z3.is_true(c):
                conds.append((n, c))
        ob = self.oblige(kind, label, z3.And(*[c for _, c in conds]) if conds else z3.BoolVal(True), detail, last_resort=len(conds) <= 1)
        if ob.status == 'undecided' and len(conds) > 1:
            # split: decide every conjunct on its own
            if ob in self.obligations:
                self.obligations.remove(ob)
            worst = None
            for n, c in conds:
                o2 = self.oblige(kind, label, c, detail, timeout_ms=self.slow_timeout_ms)
                if o2.status == 'proved':
                    if o2 in self.obligations:
                        self.obligations.remove(o2)
                    continue
                if o2.status == 'failed':
                    o2.detail = 'violated: ' + n
                else:
                    o2.detail = 'undecided conjunct: %s %s' % (n, o2.detail)
                worst = o2
            if worst is None:
                ob.status = 'proved'
                ob.detail = 'proved conjunct-wise'
                self.obligations.append(ob)
                return ob
            return worst
        if ob.status == 'failed' and ob.z3model is not None and not ob.detail.startswith('violated:'):
            bad = []
            for n, c in conds:
                try:
                    if z3.is_false(ob.z3model.eval(c, model_completion=True)):
                        bad.append(n)
                except z3.Z3Exception:
                    pass
            ob.detail = 'violated: ' + ' '.join(bad[:12]) + (' ' + ob.detail if ob.detail else '')
        return ob

    def cover(self, label):
        """vacuity guard: the current path condition must be satisfiable"""
        ob = Obligation('cover', label)
        ob.decisions = list(self.prefix[:self.pos])
        t0 = time.time()
        r, _ = self._check()
        ob.status = 'proved' if r == z3.sat else ('failed' if r == z3.unsat else 'undecided')
        ob.detail = 'satisfiable' if r == z3.sat else 'VACUOUS: precondition unsatisfiable'
        ob.seconds = time.time() - t0
        self.obligations.append(ob)
        return ob

    def obligations_failed(self):
        return any(o.status == 'failed' for o in self.obligations)

    def model_inputs(self, m):
        out = {}
        for name, var in self.inputs.items():
            v = m.eval(var, model_completion=True)
            if z3.is_bool(v):
                out[name] = bool(z3.is_true(v))
            else:
                out[name] = v.as_long()
        hook = getattr(self, 'model_hook', None)
        if hook is not None:
            try:
                out.update(hook(m))
            except Exception as e:      # noqa
                out['__hook_error__'] = repr(e)
        return out

    # ---------------- exploration
    def explore(self, thunk, prefix=None):
        """Run thunk(engine) on every feasible path. thunk returns arbitrary data (postconditions are
        checked inside the thunk via oblige)."""
        results = []
        stack = [list(prefix or [])]
        while stack:
            if self.stats['paths'] >= self.max_paths:
                raise OutOfSubset('path budget exceeded (%d)' % self.max_paths)
            pre = stack.pop()
            self.prefix = pre
            self.pos = 0
            self.path = Path([])
            self.pending = []
            self.heap = []
            self.inputs = {}
            self._models = []
            self.model_hook = None
            self.small_model_hints = None
            self.depth = 0
            self.foreign_reads = {}        # mutable host objects outside the unit's state that the code read: description -> object
            self.foreign_writes = []       # ... that the code wrote (ownership / frame violations)
            self.foreign_store = {}
            try:
                data = thunk(self)
                res = PathResult(list(self.prefix[:self.pos]), list(self.path.pc), 'ok', None, self.path.unpred, data)
            except PyRaise as r:
                res = PathResult(list(self.prefix[:self.pos]), list(self.path.pc), 'raise', r.exc, self.path.unpred, None)
            except PathEnd:
                stack.extend(self.pending)
                continue
            self.stats['paths'] += 1
            results.append(res)
            stack.extend(self.pending)
        return results

    # ---------------- snapshots / merging
    def snapshot(self, env):
        snap = []
        for o in self.heap:
            if isinstance(o, Obj):
                snap.append(dict(o.attrs))
            elif isinstance(o, list):
                snap.append(list(o))
            elif isinstance(o, dict):
                snap.append(dict(o))
            else:
                snap.append(o.snap())
        return (dict(env) if env is not None else None, len(self.heap), snap, self.path.unpred)

    def restore(self, snap, env):
        e, n, contents, unpred = snap
        if env is not None:
            env.clear()
            env.update(e)
        del self.heap[n:]
        for o, c in zip(self.heap, contents):
            if isinstance(o, Obj):
                o.attrs = dict(c)
            elif isinstance(o, list):
                o[:] = c
            elif isinstance(o, dict):
                o.clear()
                o.update(c)
            else:
                o.restore(c)
        self.path.unpred = unpred

    def merge_region(self, arms, env, run_plain):
        """arms: list of (z3 cond, thunk()) where thunk executes the arm and returns a value.
        run_plain(): executes the region with ordinary forking (fallback).
        Returns the merged value. Exceptional outcomes become replayable tokens."""
        tok = self.prefix[self.pos] if self.pos < len(self.prefix) else None
        if tok is True or tok is False or tok == 'P':
            if tok == 'P':
                self.pos += 1
            return run_plain()
        if isinstance(tok, tuple) and tok[0] == 'X':
            self.pos += 1
            arm, inner = tok[1], list(tok[2])
            cond, thunk = arms[arm]
            self.assume(cond)
            saved = (self.prefix, self.pos, self.pending)
            self.prefix, self.pos, self.pending = inner, 0, []
            try:
                thunk()
            finally:
                self.prefix, self.pos, self.pending = saved
            raise RuntimeError('replay of exceptional outcome did not raise')
        # nested exploration of all arms
        snap = self.snapshot(env)
        pc0 = list(self.path.pc)
        outer = (self.prefix, self.pos, self.pending)
        normals = []
        excs = []
        try:
            for ai, (cond, thunk) in enumerate(arms):
                cond = z3.simplify(cond)
                if z3.is_false(cond):
                    continue
                stack = [[]]
                while stack:
                    inner = stack.pop()
                    self.restore(snap, env)
                    self.path.pc = pc0 + ([] if z3.is_true(cond) else [cond])
                    self.prefix, self.pos, self.pending = inner, 0, []
                    try:
                        v = thunk()
                        extra = self.path.pc[len(pc0):]
                        normals.append(((z3.And(*extra) if len(extra) > 1 else extra[0]) if extra else z3.BoolVal(True), self.snapshot(env), v))
                    except PyRaise:
                        if self.feasible(z3.BoolVal(True)):
                            excs.append((ai, tuple(self.prefix[:self.pos])))
                    except PathEnd:
                        pass
                    stack.extend(self.pending)
                    if len(normals) + len(excs) > 512:
                        raise OutOfSubset('merge region with more than 512 outcomes')
        finally:
            self.prefix, self.pos, self.pending = outer
            self.path.pc = pc0
        if tok is None:
            for (ai, inner) in excs:
                self.pending.append(self.prefix[:self.pos] + [('X', ai, inner)])
        if not normals:
            if tok is None:
                if not excs:
                    raise PathEnd()
                alt = self.pending.pop()
                self.prefix = alt
                self.restore(snap, env)
                return self.merge_region(arms, env, run_plain)
            raise PathEnd()
        mergeable = self._mergeable(snap, normals)
        if not mergeable and tok == 'N':
            # the prefix was recorded when this region merged; meanwhile an inner statement was excluded from merging
            # (no_merge_nodes grows during a unit) and the arms no longer merge.  The rest of the recorded prefix is
            # meaningless then: explore everything below this point afresh (a superset of the path that was asked for;
            # paths already seen through sibling prefixes are explored twice, none is lost).
            self.stats['merge_restarts'] = self.stats.get('merge_restarts', 0) + 1
            self.prefix = self.prefix[:self.pos]
            tok = None
            for (ai, inner) in excs:
                self.pending.append(self.prefix[:self.pos] + [('X', ai, inner)])
        if not mergeable:
            self.stats['merge_fallbacks'] += 1
            if tok is None and getattr(self, '_merge_node', None) is not None:
                # heuristic: stop retrying a statement whose arms repeatedly fail to merge (a single failure can be
                # contextual, e.g. one iteration of a loop)
                n_fail = self._merge_fail.get(self._merge_node, 0) + 1
                self._merge_fail[self._merge_node] = n_fail
                if n_fail >= self.merge_fail_limit:
                    self.no_merge_nodes.add(self._merge_node)
            if tok is None:
                self.pending = [p for p in self.pending
                                if not (len(p) > self.pos and isinstance(p[self.pos], tuple) and p[self.pos][0] == 'X'
                                        and p[:self.pos] == self.prefix[:self.pos])]
                self.prefix = self.prefix[:self.pos] + ['P']
            self.pos += 1
            self.restore(snap, env)
            return run_plain()
        if tok is None:
            self.prefix = self.prefix[:self.pos] + ['N']
        self.pos += 1
        self.stats['merges'] += 1
        self.restore(snap, env)
        return self._do_merge(snap, normals, env)

    @staticmethod
    def _vals_ok(vs):
        v0 = vs[0]
        if all(v is v0 for v in vs):
            return True
        if any(v is UNBOUND or isinstance(v, Maybe) for v in vs):
            # bound in some outcomes only: mergeable into a Maybe when the bound values are integers
            return all(v is UNBOUND or is_intlike(v) or (isinstance(v, Maybe) and is_intlike(v.value)) for v in vs)
        if all(is_intlike(v) for v in vs):
            return True
        if all(isinstance(v, tuple) for v in vs) and len(set(len(v) for v in vs)) == 1:
            return all(Engine._vals_ok([v[i] for v in vs]) for i in range(len(v0)))
        if all(not is_sym(v) and not isinstance(v, (Obj, list, dict)) for v in vs):
            try:
                return all(type(v) is type(v0) and v == v0 for v in vs)
            except Exception:
                return False
        return False

    def _mergeable(self, snap, normals):
        e0, n0, contents0, _ = snap
        for _, st, v in normals:
            if st[1] != n0:
                # objects allocated inside an arm: only fine if nothing refers to them; be conservative
                return False
        if not self._vals_ok([v for _, _, v in normals]):
            return False
        if e0 is not None:
            keys = set()
            for _, st, _ in normals:
                keys.update(st[0].keys())
            for k in keys:
                if not self._vals_ok([st[0].get(k, UNBOUND) for _, st, _ in normals]):
                    return False
        for i in range(n0):
            cs = [st[2][i] for _, st, _ in normals]
            o = self.heap[i]
            if isinstance(o, Obj) or isinstance(o, dict):
                keys = set()
                for c in cs:
                    keys.update(c.keys())
                for k in keys:
                    if not self._vals_ok([c.get(k, UNBOUND) for c in cs]):
                        return False
            elif isinstance(o, list):
                if len(set(len(c) for c in cs)) != 1:
                    return False
                for j in range(len(cs[0])):
                    if not self._vals_ok([c[j] for c in cs]):
                        return False
            else:
                if not o.mergeable(cs, self._vals_ok):
                    return False
        return True

    def _mergevals(self, conds, vs):
        v0 = vs[0]
        if all(v is v0 for v in vs):
            return v0
        if any(v is UNBOUND or isinstance(v, Maybe) for v in vs):
            bound = []
            val = None
            for c, v in zip(conds, vs):
                if v is UNBOUND:
                    continue
                if isinstance(v, Maybe):
                    bc, bv = z3.And(c, v.cond), v.value
                else:
                    bc, bv = c, v
                bound.append(bc)
                val = bv if val is None else ite(SymBool(bc), bv, val)
            return Maybe(z3.simplify(z3.Or(*bound)), val)
        if isinstance(v0, tuple):
            return tuple(self._mergevals(conds, [v[i] for v in vs]) for i in range(len(v0)))
        if not all(is_intlike(v) for v in vs):
            return v0          # equal non-int natives (checked by _vals_ok)
        out = vs[-1]
        for c, v in zip(reversed(conds[:-1]), reversed(vs[:-1])):
            out = ite(SymBool(c), v, out)
        return out

    def _do_merge(self, snap, normals, env):
        conds = [c for c, _, _ in normals]
        disj = z3.simplify(z3.Or(*conds)) if len(conds) > 1 else conds[0]
        if not z3.is_true(disj):
            self.path.pc.append(disj)
        if env is not None:
            keys = set()
            for _, st, _ in normals:
                keys.update(st[0].keys())
            for k in keys:
                env[k] = self._mergevals(conds, [st[0].get(k, UNBOUND) for _, st, _ in normals])
        n0 = snap[1]
        for i in range(n0):
            cs = [st[2][i] for _, st, _ in normals]
            o = self.heap[i]
            if isinstance(o, Obj):
                keys = set()
                for c in cs:
                    keys.update(c.keys())
                for k in keys:
                    o.attrs[k] = self._mergevals(conds, [c[k] for c in cs])
            elif isinstance(o, dict):
                keys = set()
                for c in cs:
                    keys.update(c.keys())
                for k in keys:
                    o[k] = self._mergevals(conds, [c[k] for c in cs])
            elif isinstance(o, list):
                o[:] = [self._mergevals(conds, [c[j] for c in cs]) for j in range(len(cs[0]))]
            else:
                o.merge(conds, cs, self._mergevals)
        # unpred flag
        ups = [st[3] for _, st, _ in normals]
        if all(u is ups[0] for u in ups):
            self.path.unpred = ups[0]
        else:
            self.path.unpred = self._mergevals(conds, [truth(u) for u in ups])
        return self._mergevals(conds, [v for _, _, v in normals])

    # ---------------- calls
    def call(self, f, args, kwargs=None):
        kwargs = kwargs or {}
        if isinstance(f, BoundM):
            return self.call(f.fn, [f.obj] + list(args), kwargs)
        if isinstance(f, Closure):
            names = [x.arg for x in f.node.args.args]
            if kwargs or len(args) != len(names):
                raise PyRaise(self.make_exc(TypeError, '<lambda>() takes %d positional arguments but %d were given' % (len(names), len(args))))
            env = dict(f.env)
            env.update(zip(names, args))
            return self.ev(f.node.body, env, f.g)
        if isinstance(f, types.MethodType):
            fn = f.__func__
            if isinstance(fn, types.FunctionType) and (fn.__module__ or '').startswith(self.package):
                return self.call(fn, [f.__self__] + list(args), kwargs)
            return self.call_native(f, args, kwargs)
        if isinstance(f, (staticmethod, classmethod)):
            return self.call(f.__func__, args, kwargs)
        if type(f).__name__ == '_lru_cache_wrapper' and hasattr(f, '__wrapped__'):
            # a memo table is hidden state shared by all callers (and all instances): recorded as an ownership violation,
            # the wrapped function is interpreted
            self.note_write('lru_cache memo of %s' % getattr(f, '__name__', '?'), f)
            return self.call(f.__wrapped__, args, kwargs)
        if isinstance(f, types.FunctionType):
            c = self.contracts.get(f)
            if c is not None and f not in self.inline:
                qn = qualname(f)
                self.stats['contract_calls'][qn] = self.stats['contract_calls'].get(qn, 0) + 1
                return c(self, *args, **kwargs)
            if not (f.__module__ or '').startswith(self.package):
                return self.call_native(f, args, kwargs)
            if f in self.merge_calls and self.merge_enabled:
                args = list(args)
                return self.merge_region([(z3.BoolVal(True), lambda: self.run_function(f, args, kwargs))], None,
                                         lambda: self.run_function(f, args, kwargs))
            return self.run_function(f, args, kwargs)
        if isinstance(f, type):
            return self.instantiate(f, args, kwargs)
        return self.call_native(f, args, kwargs)

    def instantiate(self, cls, args, kwargs):
        c = self.contracts.get(cls)
        if c is not None:
            return c(self, *args, **kwargs)
        nm = NATIVE_MODELS.get(cls)
        if nm is not None:
            return nm(self, *args, **kwargs)
        if cls is int:
            return self.builtin_int(*args)
        if cls is bool:
            return truth(args[0]) if args else False
        if cls is range:
            return self.make_range(*args)
        if cls is reversed:
            return list(reversed(list(self.iterate(args[0]))))
        if cls in (tuple, list):
            v = list(self.iterate(args[0])) if args else []
            return tuple(v) if cls is tuple else self.register(v)
        if cls is slice:
            return slice(*args)
        if cls is str:
            return str(*args)
        if issubclass(cls, enum.Enum):
            v = args[0]
            if not is_sym(v):
                try:
                    return cls(v)
                except ValueError as e:
                    raise PyRaise(self.make_exc(ValueError, str(e)))
            for mbr in cls:
                if is_intlike(mbr.value) and self.istrue(cmp('==', v, mbr.value)):
                    return mbr
            raise PyRaise(self.make_exc(ValueError, 'not a valid %s' % cls.__name__))
        if issubclass(cls, BaseException):
            o = Obj(cls, {'args': tuple(args)})
            init = self._find_init(cls)
            if init is not None:
                self.run_function(init, [o] + list(args), kwargs)
            return o
        if (cls.__module__ or '').startswith(self.package):
            o = self.new_obj(cls)
            init = self._find_init(cls)
            if init is not None:
                ci = self.contracts.get(init)
                if ci is not None and init not in self.inline:
                    ci(self, o, *args, **kwargs)
                elif getattr(getattr(init, '__code__', None), 'co_filename', '').startswith('<'):
                    self.generated_init(cls, o, args, kwargs)
                else:
                    self.run_function(init, [o] + list(args), kwargs)
            return o
        raise OutOfSubset('instantiation of %s' % cls)

    def generated_init(self, cls, o, args, kwargs):
        """__init__ generated by @dataclass (no source to interpret): fields in order from the arguments, their default or their
        default factory.  A mutable default *object* is one object shared by every instance: reading it is reading class-level state."""
        import dataclasses
        if not dataclasses.is_dataclass(cls):
            raise OutOfSubset('generated __init__ of %s (no source)' % cls.__name__)
        flds = [f for f in dataclasses.fields(cls) if f.init]
        if len(args) > len(flds):
            raise PyRaise(self.make_exc(TypeError, '__init__() takes %d positional arguments but %d were given' % (len(flds) + 1, len(args) + 1)))
        for i, f in enumerate(flds):
            if i < len(args):
                v = args[i]
            elif f.name in kwargs:
                v = kwargs[f.name]
            elif f.default is not dataclasses.MISSING:
                v = f.default
                self.note_read('class attribute', '%s.%s (dataclass default)' % (cls.__name__, f.name), v)
            elif f.default_factory is not dataclasses.MISSING:
                v = self.call(f.default_factory, [], {})
            else:
                raise PyRaise(self.make_exc(TypeError, "__init__() missing required argument '%s'" % f.name))
            o.attrs[f.name] = v
        self.wrote()

    def _find_init(self, cls):
        for k in cls.__mro__:
            d = k.__dict__.get('__init__')
            if isinstance(d, types.FunctionType):
                if (d.__module__ or '').startswith(self.package):
                    return d
                return None
            if d is not None:
                return None
        return None

    def builtin_int(self, *args):
        if not args:
            return 0
        x = args[0]
        if isinstance(x, SymFrac):
            return sym.truncdiv(x.a, x.b)
        if isinstance(x, SymBool):
            return sym.lift(x)
        if isinstance(x, SymInt):
            return x
        if isinstance(x, (int, float)) and len(args) == 1:
            return int(x)
        if isinstance(x, str):
            try:
                return int(*args)
            except ValueError as e:
                raise PyRaise(self.make_exc(ValueError, str(e)))
        raise PyRaise(self.make_exc(TypeError, 'int() argument'))

    def concretize(self, v):
        """a symbolic integer that the path condition pins to one value -> that python int (else v itself)"""
        if conc(v) or not is_intlike(v):
            return v
        x = sym.lift(v)
        lo, hi = getattr(x, 'lo', None), getattr(x, 'hi', None)
        if lo is None or hi is None or hi - lo > 64:
            return v
        for c in range(lo, hi + 1):
            if self.feasible(sym.zb(cmp('==', x, c))):
                return c if self.prove(sym.zb(cmp('==', x, c))) else v
        return v

    def fork_small(self, v):
        """symbolic integer with a small static interval (e.g. `2 if aligned else 1`): one path per value -> python int"""
        st = sym.lift(v)
        lo, hi = getattr(st, 'lo', None), getattr(st, 'hi', None)
        if lo is None or hi is None or not (0 <= hi - lo <= 8):
            return None
        for c in range(lo, hi + 1):
            if self.decide(sym.zb(cmp('==', st, c))):
                return c
        raise PathEnd()

    def make_range(self, *args):
        if len(args) == 3 and not conc(args[2]) and is_intlike(args[2]):
            c = self.fork_small(args[2])
            if c is not None:
                args = (args[0], args[1], c)
        if all(conc(a) for a in args):
            return range(*args)
        return SymRange(*args)

    def call_native(self, f, args, kwargs):
        try:
            c = self.contracts.get(f)
        except TypeError:
            c = None
        if c is not None:
            return c(self, *args, **kwargs)
        m = NATIVE_MODELS.get(f)
        if m is not None:
            return m(self, *args, **kwargs)
        if (getattr(f, '__module__', None) == 'math' or f in (round, abs, divmod, pow)) and not kwargs and \
                all(isinstance(a, (int, float)) and not isinstance(a, bool) for a in args):
            # pure function of concrete numbers
            try:
                return f(*args)
            except HOST_ERRORS as e:
                raise PyRaise(self.make_exc(type(e), str(e)))
        if isinstance(f, (types.BuiltinFunctionType, types.BuiltinMethodType, types.MethodType,
                          types.MethodWrapperType)) or type(f).__name__ in ('method_descriptor', 'builtin_function_or_method'):
            slf = getattr(f, '__self__', None)
            name = getattr(f, '__name__', '')
            if isinstance(slf, BinStr) or isinstance(f, BinCount):
                pass
            if isinstance(slf, (int, float, frozenset)) and not isinstance(slf, bool) and not any(is_sym(a) for a in args) and not kwargs \
                    and name in ('bit_length', 'bit_count', 'to_bytes', 'conjugate', 'is_integer', '__index__', 'union', 'intersection'):
                # pure method of an immutable concrete value
                try:
                    return f(*args)
                except HOST_ERRORS as e:
                    raise PyRaise(self.make_exc(type(e), str(e)))
            if isinstance(slf, (list, dict, tuple, str, bytes)) or slf is None or isinstance(slf, types.ModuleType):
                if any(is_sym(a) for a in args) and isinstance(slf, dict) and name in ('get', '__getitem__'):
                    return self.dict_lookup(slf, args[0], args[1] if len(args) > 1 else None, name == 'get')
                if isinstance(slf, list) and name in ('sort', 'reverse'):
                    if self._is_foreign_mutable(slf):
                        self.note_write('%s()' % name, slf)
                    self.wrote()
                    if name == 'reverse':
                        slf.reverse()
                        return None
                    return self.list_sort(slf, kwargs.get('key'), kwargs.get('reverse', False), args)
                if isinstance(slf, (list, dict, tuple, str, bytes)) and name in (
                        'append', 'get', 'count', 'index', 'items', 'keys', 'values', 'pop', 'extend', 'format',
                        'startswith', 'join', 'copy', 'insert'):
                    if name in ('append', 'pop', 'extend', 'insert') and self._is_foreign_mutable(slf):
                        self.note_write('%s()' % name, slf)
                    try:
                        return f(*args, **kwargs)
                    except HOST_ERRORS as e:
                        raise PyRaise(self.make_exc(type(e), str(e)))
        if isinstance(f, BinCount):
            return f(self, *args)
        raise OutOfSubset('call of native %r' % (f,))

    def list_sort(self, lst, key, reverse, args):
        """list.sort(key=..., reverse=...): stable insertion sort; every comparison of (possibly symbolic) integer keys is a
        decision of the path"""
        if args:
            raise PyRaise(self.make_exc(TypeError, 'sort() takes no positional arguments'))
        if not conc(reverse):
            raise OutOfSubset('symbolic reverse flag of sort()')
        items = list(lst)
        if len(items) > 8:
            raise OutOfSubset('sort of a list longer than 8')
        keys = [self.call(key, [x]) if key is not None else x for x in items]
        if not all(is_intlike(k) for k in keys):
            raise OutOfSubset('sort keys that are not integers')
        out = []
        for x, k in zip(items, keys):
            pos = len(out)
            while pos > 0:
                pk = out[pos - 1][1]
                before = cmp('>', k, pk) if reverse else cmp('<', k, pk)
                if not self.istrue(before):
                    break
                pos -= 1
            out.insert(pos, (x, k))
        lst[:] = [x for x, _ in out]
        return None

    def dict_lookup(self, d, key, default, is_get):
        for k, v in d.items():
            if self.istrue(self.values_equal(k, key)):
                return v
        if is_get:
            return default
        raise PyRaise(self.make_exc(KeyError, 'key'))

    def values_equal(self, a, b):
        if isinstance(a, tuple) and isinstance(b, tuple):
            if len(a) != len(b):
                return False
            return land(*[self.values_equal(x, y) for x, y in zip(a, b)])
        if is_intlike(a) and is_intlike(b):
            return cmp('==', a, b)
        if is_sym(a) or is_sym(b):
            return False
        if isinstance(a, Obj) or isinstance(b, Obj):
            return a is b
        return a == b

    def run_function(self, f, args, kwargs):
        node, locs = func_ast(f)
        self.stats['inlined'].add(qualname(f))
        self.depth += 1
        if self.depth > 60:
            self.depth -= 1
            raise PyRaise(self.make_exc(RecursionError, 'call depth'))
        try:
            env = self.bind_args(f, node, args, kwargs)
            env['__func__'] = f
            env['__locals__'] = locs
            if isinstance(node, ast.Lambda):
                return self.ev(node.body, env, f.__globals__)
            try:
                self.block(node.body, env, f.__globals__)
            except _Return as r:
                return r.v
            return None
        finally:
            self.depth -= 1

    def bind_args(self, f, node, args, kwargs):
        a = node.args
        env = {}
        names = [x.arg for x in a.posonlyargs + a.args]
        defaults = f.__defaults__ or ()
        for n, d in zip(names[len(names) - len(defaults):], defaults):
            env[n] = d
        used_default = names[max(len(args), len(names) - len(defaults)):]
        for n in used_default:
            if n not in kwargs and n in env:
                self.note_read('default argument', '%s(%s=...)' % (f.__name__, n), env[n])      # a mutable default is shared state
        if len(args) > len(names):
            if a.vararg is None:
                raise PyRaise(self.make_exc(TypeError, '%s() takes %d positional arguments but %d were given' % (
                    f.__name__, len(names), len(args))))
            env[a.vararg.arg] = tuple(args[len(names):])
        elif a.vararg is not None:
            env[a.vararg.arg] = ()
        for n, v in zip(names, args):
            env[n] = v
        kwonly = [x.arg for x in a.kwonlyargs]
        if f.__kwdefaults__:
            env.update(f.__kwdefaults__)
        extra = {}
        for k, v in kwargs.items():
            if k in names or k in kwonly:
                env[k] = v
            elif a.kwarg is not None:
                extra[k] = v
            else:
                raise PyRaise(self.make_exc(TypeError, "%s() got an unexpected keyword argument '%s'" % (f.__name__, k)))
        if a.kwarg is not None:
            env[a.kwarg.arg] = extra
        for n in names + kwonly:
            if n not in env:
                raise PyRaise(self.make_exc(TypeError, "%s() missing required argument '%s'" % (f.__name__, n)))
        return env

    # ---------------- statements
    def block(self, stmts, env, g):
        for s in stmts:
            self.stmt(s, env, g)

    def stmt(self, s, env, g):
        t = type(s)
        if t is ast.Expr:
            self.ev(s.value, env, g)
        elif t is ast.Assign:
            v = self.ev(s.value, env, g)
            for tg in s.targets:
                self.assign(tg, v, env, g)
        elif t is ast.AnnAssign:
            if s.value is not None:
                self.assign(s.target, self.ev(s.value, env, g), env, g)
        elif t is ast.AugAssign:
            cur = self.ev(_as_load(s.target), env, g)
            v = self.binop(s.op, cur, self.ev(s.value, env, g))
            self.assign(s.target, v, env, g)
        elif t is ast.Return:
            raise _Return(self.ev(s.value, env, g) if s.value is not None else None)
        elif t is ast.If:
            self.if_stmt(s, env, g)
        elif t is ast.Assert:
            if not self.istrue(self.ev(s.test, env, g)):
                raise PyRaise(self.make_exc(AssertionError, ast.unparse(s.test)))
        elif t is ast.Raise:
            if s.exc is None:
                raise OutOfSubset('bare raise')
            e = self.ev(s.exc, env, g)
            if isinstance(e, type):
                e = self.instantiate(e, [], {})
            raise PyRaise(e)
        elif t is ast.Pass:
            pass
        elif t is ast.For:
            self.for_stmt(s, env, g)
        elif t is ast.While:
            self.while_stmt(s, env, g)
        elif t is ast.Break:
            raise _Break()
        elif t is ast.Continue:
            raise _Continue()
        elif t is ast.Try:
            self.try_stmt(s, env, g)
        elif t is ast.With:
            # context managers only as resource brackets (file objects of the modelled `open`): the body runs once,
            # __enter__ returns the object itself, __exit__ does not swallow exceptions
            for it in s.items:
                cm = self.ev(it.context_expr, env, g)
                if not getattr(cm, 'is_resource_model', False):
                    raise OutOfSubset('with-statement over %s' % type(cm).__name__)
                if it.optional_vars is not None:
                    self.assign(it.optional_vars, cm, env, g)
            self.block(s.body, env, g)
        elif t in (ast.Import, ast.ImportFrom):
            raise OutOfSubset('import inside function')
        else:
            raise OutOfSubset('statement %s' % t.__name__)

    def if_stmt(self, s, env, g):
        c = truth(self.ev(s.test, env, g))
        if not isinstance(c, SymBool):
            return self.block(s.body if c else s.orelse, env, g)
        cb = z3.simplify(c.b)
        if z3.is_true(cb):
            return self.block(s.body, env, g)
        if z3.is_false(cb):
            return self.block(s.orelse, env, g)

        def plain():
            return self.block(s.body if self.decide(cb) else s.orelse, env, g)
        if not self.merge_enabled or _has_jump(s):
            return plain()
        if id(s) in self.no_merge_nodes:
            tok = self.prefix[self.pos] if self.pos < len(self.prefix) else None
            if tok is None or tok is True or tok is False:
                return plain()
            if tok == 'P':
                self.pos += 1
                return plain()
        arms = [(cb, lambda: self.block(s.body, env, g)), (z3.Not(cb), lambda: self.block(s.orelse, env, g))]
        self._merge_node = id(s)
        return self.merge_region(arms, env, plain)

    def loop_ordinal(self, fn, s):
        """index of the loop statement `s` among the for/while statements of fn's body (source order)"""
        node, _ = func_ast(fn)
        k = 0
        for n in ast.walk(node):
            if isinstance(n, (ast.For, ast.While)):
                if n is s:
                    return k
                k += 1
        return None

    def for_stmt(self, s, env, g):
        if self.loop_hooks:
            fn = env.get('__func__')
            hook = self.loop_hooks.get((fn, self.loop_ordinal(fn, s))) if fn is not None else None
            if hook is not None:
                try:
                    if hook(self, s, env, g):
                        return
                except _Break:
                    # the body of a loop that a unit cuts at an arbitrary iteration leaves the loop: the iterations after it
                    # are not executed, so the inductive argument (every iteration is one step of the specified loop) is gone
                    self.oblige('inv.step', 'the loop body does not leave the loop early (every iteration of the specified loop is performed)', False)
                    raise PathEnd()
                except _Continue:
                    raise OutOfSubset('continue in the body of a loop cut by a unit')
        it = self.ev(s.iter, env, g)
        broke = False
        for x in self.iterate(it):
            self.assign(s.target, x, env, g)
            try:
                self.block(s.body, env, g)
            except _Break:
                broke = True
                break
            except _Continue:
                continue
        if not broke and s.orelse:
            self.block(s.orelse, env, g)

    def iterate(self, it):
        if isinstance(it, SymRange):
            return it.iterate(self)
        if isinstance(it, (range, list, tuple, dict)) or isinstance(it, enum.EnumMeta):
            return list(it)
        if isinstance(it, types.GeneratorType):
            return it
        if hasattr(it, 'sym_iter'):
            return it.sym_iter(self)
        raise OutOfSubset('iteration over %s' % type(it).__name__)

    def while_stmt(self, s, env, g):
        n = 0
        while True:
            if not self.istrue(self.ev(s.test, env, g)):
                if s.orelse:
                    self.block(s.orelse, env, g)
                return
            n += 1
            if n > self.loop_bound:
                err = OutOfSubset('while loop exceeds unwinding bound %d' % self.loop_bound)
                err.pc = list(self.path.pc)          # enclosing merge regions restore the path condition while this propagates
                raise err
            try:
                self.block(s.body, env, g)
            except _Break:
                return
            except _Continue:
                continue

    def try_stmt(self, s, env, g):
        try:
            try:
                self.block(s.body, env, g)
            except PyRaise as r:
                for h in s.handlers:
                    if h.type is None:
                        match = True
                    else:
                        ht = self.ev(h.type, env, g)
                        match = self.exc_matches(r.exc, ht)
                    if match:
                        if h.name:
                            env[h.name] = r.exc
                        self.block(h.body, env, g)
                        break
                else:
                    raise
            else:
                self.block(s.orelse, env, g)
        finally:
            if s.finalbody:
                self.block(s.finalbody, env, g)

    @staticmethod
    def exc_matches(exc, ht):
        cls = exc.cls if isinstance(exc, Obj) else type(exc)
        if isinstance(ht, tuple):
            return any(issubclass(cls, h) for h in ht)
        return issubclass(cls, ht)

    def assign(self, t, v, env, g):
        tt = type(t)
        if tt is ast.Name:
            env[t.id] = v
        elif tt in (ast.Tuple, ast.List):
            vs = self.unpack(v, len(t.elts))
            for e, x in zip(t.elts, vs):
                self.assign(e, x, env, g)
        elif tt is ast.Attribute:
            self.setattr(self.ev(t.value, env, g), t.attr, v)
        elif tt is ast.Subscript:
            o = self.ev(t.value, env, g)
            k = self.ev(t.slice, env, g)
            self.setitem(o, k, v)
        else:
            raise OutOfSubset('assignment target %s' % tt.__name__)

    def unpack(self, v, n):
        if isinstance(v, (tuple, list)):
            if len(v) != n:
                raise PyRaise(self.make_exc(ValueError, 'unpack: expected %d values, got %d' % (n, len(v))))
            return list(v)
        if is_intlike(v) or v is None:
            raise PyRaise(self.make_exc(TypeError, 'cannot unpack non-iterable'))
        raise OutOfSubset('unpack of %s' % type(v).__name__)

    # ---------------- attribute / item access
    def getattr(self, o, name):
        if not isinstance(o, Obj) and getattr(self, 'foreign_store', None) and (id(o), name) in self.foreign_store:
            return self.foreign_store[(id(o), name)]
        if isinstance(o, Obj):
            if name in ('__class__',):
                return o.cls
            for k in o.cls.__mro__:
                if name in k.__dict__:
                    d = k.__dict__[name]
                    if isinstance(d, property):
                        return self.call(d.fget, [o], {})
                    if name in o.attrs:
                        return o.attrs[name]
                    if isinstance(d, staticmethod):
                        return d.__func__
                    if isinstance(d, classmethod):
                        return BoundM(d.__func__, o.cls)
                    if isinstance(d, types.FunctionType):
                        return BoundM(d, o)
                    if type(d).__name__ in ('member_descriptor', 'getset_descriptor', 'wrapper_descriptor',
                                            'method_descriptor'):
                        break
                    self.note_read('class attribute', '%s.%s' % (k.__name__, name), d)      # class-level state is shared by all instances
                    return d
            if name in o.attrs:
                return o.attrs[name]
            ga = None
            for k in o.cls.__mro__:
                if '__getattr__' in k.__dict__:
                    ga = k.__dict__['__getattr__']
                    break
            if ga is not None:
                return self.call(ga, [o, name], {})
            raise PyRaise(self.make_exc(AttributeError, "'%s' object has no attribute '%s'" % (o.cls.__name__, name)))
        if hasattr(o, 'sym_getattr'):
            return o.sym_getattr(self, name)
        if isinstance(o, (SymInt, SymBool)):
            if name == 'bit_length':
                return _Native(lambda eng: sym.bit_length(sym.lift(o)))
            raise PyRaise(self.make_exc(AttributeError, "'int' object has no attribute '%s'" % name))
        if isinstance(o, BinStr) and name == 'count':
            return BinCount(o)
        if isinstance(o, type):
            d = None
            for k in o.__mro__:
                if name in k.__dict__:
                    d = k.__dict__[name]
                    break
            if isinstance(d, staticmethod):
                return d.__func__
            if isinstance(d, classmethod):
                return BoundM(d.__func__, o)
        if (id(o), name) in getattr(self, 'foreign_store', {}):
            return self.foreign_store[(id(o), name)]
        try:
            v = getattr(o, name)
        except AttributeError as e:
            raise PyRaise(self.make_exc(AttributeError, str(e)))
        self.note_read('attribute', '%s.%s' % (getattr(o, '__name__', type(o).__name__), name), v)
        return self.subst.get(id(v), v)

    def hasattr(self, o, name):
        if isinstance(o, Obj):
            if name in o.attrs:
                return True
            return any(name in k.__dict__ for k in o.cls.__mro__)
        if is_sym(o):
            return hasattr(0, name)
        return hasattr(o, name)

    def setattr(self, o, name, v):
        if isinstance(o, Obj):
            for k in o.cls.__mro__:
                d = k.__dict__.get(name)
                if isinstance(d, property):
                    if d.fset is None:
                        raise PyRaise(self.make_exc(AttributeError, "can't set attribute '%s'" % name))
                    return self.call(d.fset, [o, v], {})
            if id(o) in getattr(self, 'foreign_objs', ()):
                self.note_write('attribute store .%s' % name, o)        # an engine object standing for state the unit does not own
            o.attrs[name] = v
            self.writes += 1
            return
        if hasattr(o, 'sym_setattr'):
            return o.sym_setattr(self, name, v)
        if o is None or is_intlike(o) or isinstance(o, (tuple, str)):
            raise PyRaise(self.make_exc(AttributeError, "'%s' object has no attribute '%s'" % (type(o).__name__, name)))
        if isinstance(o, (types.FunctionType, type, types.ModuleType)):
            # state kept on a function, class or module object is shared by every instance: an ownership violation (C20); the
            # value is kept in a shadow map so that the exploration can go on
            self.note_write('attribute store .%s on %s %s' % (name, type(o).__name__, getattr(o, '__name__', '')), o)
            self.foreign_store[(id(o), name)] = v
            self.writes += 1
            return
        if (getattr(self, 'shadow_foreign_stores', False) or (type(o).__module__ or '').startswith(self.package)) and self._is_foreign_mutable(o):
            # frame units: the store is recorded as an ownership violation and kept in a shadow map
            self.note_write('attribute store .%s' % name, o)
            self.foreign_store[(id(o), name)] = v
            self.writes += 1
            return
        raise OutOfSubset('attribute store on native %s' % type(o).__name__)

    def getitem(self, o, k):
        if isinstance(o, Obj):
            gi = self._lookup_special(o.cls, '__getitem__')
            if gi is None:
                raise PyRaise(self.make_exc(TypeError, "'%s' object is not subscriptable" % o.cls.__name__))
            return self.call(gi, [o, k], {})
        if hasattr(o, 'sym_getitem'):
            return o.sym_getitem(self, k)
        if isinstance(o, (list, tuple)):
            if isinstance(k, slice):
                if all(x is None or conc(x) for x in (k.start, k.stop, k.step)):
                    r = o[k]
                    return self.register(r) if isinstance(r, list) else r
                raise OutOfSubset('symbolic slice of a list')
            if isinstance(k, SymBool):
                k = sym.lift(k)
            if isinstance(k, SymInt):
                n = len(o)
                self.host_check(zb(land(cmp('>=', k, -n), cmp('<', k, n))), IndexError, 'list index out of range')
                if k.lo < 0:
                    k = ite(cmp('<', k, 0), sym.add(k, n), k)
                if all(is_intlike(x) for x in o):
                    return sym.sel([o[j] for j in range(n)], k)
                for j in range(n):
                    if self.istrue(cmp('==', k, j)):
                        return o[j]
                raise PathEnd()
            if not conc(k):
                raise PyRaise(self.make_exc(TypeError, 'list indices must be integers'))
            try:
                return o[k]
            except IndexError as e:
                raise PyRaise(self.make_exc(IndexError, str(e)))
        if isinstance(o, dict):
            if _has_sym(k):
                return self.dict_lookup(o, k, None, False)
            try:
                return o[k]
            except (KeyError, TypeError) as e:
                raise PyRaise(self.make_exc(type(e), str(e)))
        if is_intlike(o) or o is None:
            raise PyRaise(self.make_exc(TypeError, "'%s' object is not subscriptable" % (
                'NoneType' if o is None else 'int')))
        if isinstance(o, (str, bytes, range)) and not _has_sym(k):
            try:
                return o[k]
            except HOST_ERRORS as e:
                raise PyRaise(self.make_exc(type(e), str(e)))
        if isinstance(o, enum.EnumMeta) and not _has_sym(k):
            try:
                return o[k]
            except KeyError as e:
                raise PyRaise(self.make_exc(KeyError, str(e)))
        raise OutOfSubset('subscript of %s' % type(o).__name__)

    def setitem(self, o, k, v):
        self.writes += 1
        if isinstance(o, (list, dict, bytearray)) and self._is_foreign_mutable(o):
            # state outside the unit: the write is an ownership violation; the host object itself is left alone
            self.note_write('item store', o)
            return
        if isinstance(o, Obj):
            si = self._lookup_special(o.cls, '__setitem__')
            if si is None:
                raise PyRaise(self.make_exc(TypeError, "'%s' object does not support item assignment" % o.cls.__name__))
            return self.call(si, [o, k, v], {})
        if hasattr(o, 'sym_setitem'):
            return o.sym_setitem(self, k, v)
        if isinstance(o, list):
            if isinstance(k, SymBool):
                k = sym.lift(k)
            if isinstance(k, SymInt):
                n = len(o)
                self.host_check(zb(land(cmp('>=', k, -n), cmp('<', k, n))), IndexError, 'list assignment index out of range')
                if k.lo < 0:
                    k = ite(cmp('<', k, 0), sym.add(k, n), k)
                if all(is_intlike(x) for x in o) and is_intlike(v):
                    o[:] = sym.upd(o, k, v)
                    return
                for j in range(n):
                    if self.istrue(cmp('==', k, j)):
                        o[j] = v
                        return
                raise PathEnd()
            if isinstance(k, slice):
                raise OutOfSubset('list slice assignment')
            try:
                o[k] = v
            except (IndexError, TypeError) as e:
                raise PyRaise(self.make_exc(type(e), str(e)))
            return
        if isinstance(o, dict):
            if _has_sym(k):
                for kk in o:
                    if self.istrue(self.values_equal(kk, k)):
                        o[kk] = v
                        return
                raise OutOfSubset('dict insert with symbolic key')
            o[k] = v
            return
        if is_intlike(o) or o is None or isinstance(o, (tuple, str)):
            raise PyRaise(self.make_exc(TypeError, 'object does not support item assignment'))
        raise OutOfSubset('item store on %s' % type(o).__name__)

    @staticmethod
    def _lookup_special(cls, name):
        for k in cls.__mro__:
            d = k.__dict__.get(name)
            if isinstance(d, types.FunctionType):
                return d
        return None

    # ---------------- expressions
    def binop(self, op, a, b):
        t = type(op)
        if is_intlike(a) and is_intlike(b):
            try:
                if t is ast.Add:
                    return sym.add(a, b)
                if t is ast.Sub:
                    return sym.sub(a, b)
                if t is ast.Mult:
                    return sym.mul(a, b)
                if t is ast.LShift:
                    return sym.shl(a, b)
                if t is ast.RShift:
                    return sym.shr(a, b)
                if t is ast.BitAnd:
                    if isinstance(a, (bool, SymBool)) and isinstance(b, (bool, SymBool)):
                        return land(a, b)
                    return sym.band(a, b)
                if t is ast.BitOr:
                    if isinstance(a, (bool, SymBool)) and isinstance(b, (bool, SymBool)):
                        return lor(a, b)
                    return sym.bor(a, b)
                if t is ast.BitXor:
                    if isinstance(a, (bool, SymBool)) and isinstance(b, (bool, SymBool)):
                        return lnot(sym.eq(a, b))
                    return sym.bxor(a, b)
                if t is ast.Mod:
                    return sym.mod(a, b)
                if t is ast.FloorDiv:
                    return sym.floordiv(a, b)
                if t is ast.Pow:
                    return sym.pow_(a, b)
                if t is ast.Div:
                    if conc(a) and conc(b):
                        if b == 0:
                            raise HostError(ZeroDivisionError, 'division by zero')
                        return a / b
                    return SymFrac(a, b)
            except HostError as e:
                raise PyRaise(self.make_exc(e.cls, e.msg))
            raise OutOfSubset('operator %s' % t.__name__)
        if is_sym(a) or is_sym(b) or isinstance(a, Obj) or isinstance(b, Obj) or a is None or b is None:
            if t is ast.Mult and isinstance(a, list) and is_intlike(b) and conc(b):
                return self.register(a * b)
            if t is ast.Mod and isinstance(a, str):
                return a
            raise PyRaise(self.make_exc(TypeError, 'unsupported operand type(s) for %s: %s and %s' % (
                t.__name__, _tname(a), _tname(b))))
        # plain natives (str, list, tuple, float ...)
        try:
            r = _NATIVE_BINOPS[t](a, b)
        except HOST_ERRORS as e:
            raise PyRaise(self.make_exc(type(e), str(e)))
        except KeyError:
            raise OutOfSubset('operator %s' % t.__name__)
        if isinstance(r, list):
            self.register(r)
        return r

    def compare(self, op, l, r):
        t = type(op)
        if t in (ast.In, ast.NotIn):
            hit = self.contains(r, l)
            return hit if t is ast.In else lnot(hit)
        if t in (ast.Is, ast.IsNot):
            if is_sym(l) or is_sym(r):
                same = False if (l is None or r is None) else None
                if same is None:
                    raise OutOfSubset("'is' on symbolic value")
            else:
                same = l is r
            return same if t is ast.Is else not same
        ops = {ast.Eq: '==', ast.NotEq: '!=', ast.Lt: '<', ast.LtE: '<=', ast.Gt: '>', ast.GtE: '>='}[t]
        if is_intlike(l) and is_intlike(r):
            return cmp(ops, l, r)
        if ops in ('==', '!='):
            e = self.values_equal(l, r)
            return e if ops == '==' else lnot(e)
        if is_sym(l) or is_sym(r) or l is None or r is None or isinstance(l, Obj) or isinstance(r, Obj):
            raise PyRaise(self.make_exc(TypeError, "'%s' not supported between instances of '%s' and '%s'" % (
                ops, _tname(l), _tname(r))))
        try:
            return _cmp_native(ops, l, r)
        except TypeError as e:
            raise PyRaise(self.make_exc(TypeError, str(e)))

    def contains(self, container, x):
        if isinstance(container, (tuple, list)):
            return lor(*[self.values_equal(y, x) for y in container])
        if isinstance(container, dict):
            return lor(*[self.values_equal(y, x) for y in container.keys()])
        if isinstance(container, range) and conc(x):
            return x in container
        if isinstance(container, range):
            return lor(*[cmp('==', x, y) for y in container])
        if isinstance(container, str) and isinstance(x, str):
            return x in container
        if is_intlike(container) or container is None:
            raise PyRaise(self.make_exc(TypeError, "argument of type '%s' is not iterable" % _tname(container)))
        raise OutOfSubset("'in' on %s" % type(container).__name__)

    def ev(self, e, env, g):
        t = type(e)
        if t is ast.Constant:
            return e.value
        if t is ast.Name:
            v = env.get(e.id, UNBOUND)
            if isinstance(v, Maybe):
                self.host_check(v.cond, UnboundLocalError, "local variable '%s' referenced before assignment" % e.id)
                env[e.id] = v.value
                return v.value
            if v is not UNBOUND:
                return v
            if e.id in env.get('__locals__', ()):
                raise PyRaise(self.make_exc(UnboundLocalError, "local variable '%s' referenced before assignment" % e.id))
            if e.id in g:
                v = g[e.id]
                self.note_read('global', e.id, v, g)
                return self.subst.get(id(v), v)
            try:
                return getattr(builtins, e.id)
            except AttributeError:
                raise PyRaise(self.make_exc(NameError, "name '%s' is not defined" % e.id))
        if t is ast.Attribute:
            return self.getattr(self.ev(e.value, env, g), e.attr)
        if t is ast.Call:
            return self.ev_call(e, env, g)
        if t is ast.BinOp:
            return self.binop(e.op, self.ev(e.left, env, g), self.ev(e.right, env, g))
        if t is ast.UnaryOp:
            v = self.ev(e.operand, env, g)
            ot = type(e.op)
            if ot is ast.Not:
                if not (is_intlike(v) or v is None or isinstance(v, (str, tuple, list, dict, Obj))) and not callable(v):
                    raise OutOfSubset('not on %s' % type(v).__name__)
                if isinstance(v, Obj):
                    return False if not self._obj_falsy(v) else True
                if isinstance(v, (str, tuple, list, dict)) or v is None or callable(v):
                    return not v
                return lnot(v)
            if not is_intlike(v):
                raise PyRaise(self.make_exc(TypeError, 'bad operand type for unary op: %s' % _tname(v)))
            if ot is ast.USub:
                return sym.neg(v)
            if ot is ast.UAdd:
                return sym.lift(v) if is_sym(v) else +v
            if ot is ast.Invert:
                return sym.invert(v)
        if t is ast.BoolOp:
            is_and = isinstance(e.op, ast.And)
            vals = []
            for i, x in enumerate(e.values):
                v = self.ev(x, env, g)
                if i == len(e.values) - 1:
                    vals.append(v)
                    break
                tv = self._truth_any(v)
                if isinstance(tv, SymBool):
                    # pure boolean merge if the remaining operands are side-effect free and boolean-ish
                    rest = e.values[i + 1:]
                    if is_intlike(v) and all(_is_pure(r) for r in rest):
                        rest_e = ast.BoolOp(op=e.op, values=rest) if len(rest) > 1 else rest[0]
                        has_call = any(_has_call(r) for r in rest)
                        snap = self.snapshot(None) if has_call else None
                        w0 = self.writes
                        rv = self._ev_guarded(rest_e, env, g, tv.b if is_and else z3.Not(tv.b))
                        if self.writes != w0:
                            if snap is not None:
                                self.restore(snap, None)
                        elif rv is not _FAILED and is_intlike(rv):
                            # python returns an operand
                            return ite(tv, rv, v) if is_and else ite(tv, v, rv)
                        elif snap is not None:
                            self.restore(snap, None)
                    tv = self.istrue(tv)
                if is_and and not tv:
                    return v
                if not is_and and tv:
                    return v
            return vals[-1]
        if t is ast.Compare:
            l = self.ev(e.left, env, g)
            if len(e.ops) == 1:
                return self.compare(e.ops[0], l, self.ev(e.comparators[0], env, g))
            acc = True
            for op, c in zip(e.ops, e.comparators):
                r = self.ev(c, env, g)
                v = self.compare(op, l, r)
                acc = land(acc, v)
                if acc is False:
                    return False
                l = r
            return acc
        if t is ast.IfExp:
            c = truth(self.ev(e.test, env, g))
            if isinstance(c, SymBool):
                if _is_pure(e.body) and _is_pure(e.orelse):
                    has_call = _has_call(e.body) or _has_call(e.orelse)
                    snap = self.snapshot(None) if has_call else None
                    w0 = self.writes
                    a = self._ev_guarded(e.body, env, g, c.b)
                    b = self._ev_guarded(e.orelse, env, g, z3.Not(c.b)) if a is not _FAILED else _FAILED
                    if self.writes != w0:
                        if snap is not None:
                            self.restore(snap, None)
                    elif a is not _FAILED and b is not _FAILED and ((is_intlike(a) and is_intlike(b)) or a is b):
                        return ite(c, a, b)
                    elif snap is not None:
                        self.restore(snap, None)
                c = self.decide(c.b)
            return self.ev(e.body if c else e.orelse, env, g)
        if t is ast.Tuple:
            return tuple(self.ev(x, env, g) for x in e.elts)
        if t is ast.List:
            return self.register([self.ev(x, env, g) for x in e.elts])
        if t is ast.Dict:
            d = {}
            for k, v in zip(e.keys, e.values):
                d[self.ev(k, env, g)] = self.ev(v, env, g)
            return self.register(d)
        if t is ast.Subscript:
            o = self.ev(e.value, env, g)
            k = self.ev(e.slice, env, g)
            return self.getitem(o, k)
        if t is ast.Slice:
            return slice(self.ev(e.lower, env, g) if e.lower else None, self.ev(e.upper, env, g) if e.upper else None,
                         self.ev(e.step, env, g) if e.step else None)
        if t is ast.JoinedStr:
            return '<fstring>'
        if t in (ast.ListComp, ast.GeneratorExp):
            return self.comprehension(e, env, g)
        if t is ast.Lambda:
            a = e.args
            if a.vararg or a.kwarg or a.kwonlyargs or a.defaults or a.posonlyargs:
                raise OutOfSubset('lambda with defaults / star parameters')
            return Closure(e, env, g)
        if t is ast.Starred:
            raise OutOfSubset('starred')
        raise OutOfSubset('expression %s' % t.__name__)

    def _ev_guarded(self, e, env, g, cond):
        """evaluate a pure expression under an extra assumption; host errors make it not mergeable"""
        n = len(self.path.pc)
        self.path.pc.append(cond)
        saved = (self.prefix, self.pos, self.pending)
        up0 = self.path.unpred
        try:
            self.prefix, self.pos, self.pending = [], 0, []
            v = self.ev(e, env, g)
            if self.pos != 0 or self.pending:
                return _FAILED        # evaluation needed a fork
            if self.path.unpred is not up0:
                self.path.unpred = lor(up0, land(SymBool(cond), self.path.unpred))
            return v
        except (PyRaise, PathEnd):
            self.path.unpred = up0
            return _FAILED
        finally:
            self.prefix, self.pos, self.pending = saved
            del self.path.pc[n:]

    def _truth_any(self, v):
        if is_intlike(v):
            return truth(v)
        if isinstance(v, Obj):
            return not self._obj_falsy(v)
        if v is None or isinstance(v, (str, tuple, list, dict, bytes)):
            return bool(v)
        if hasattr(v, 'sym_truth'):
            return v.sym_truth(self)
        return True

    def _obj_falsy(self, o):
        if self._lookup_special(o.cls, '__bool__') or self._lookup_special(o.cls, '__len__'):
            raise OutOfSubset('__bool__/__len__ on repo object')
        return False

    def truthy(self, v):
        tv = self._truth_any(v)
        if isinstance(tv, SymBool):
            return self.decide(tv.b)
        return tv

    istrue = truthy

    def comprehension(self, e, env, g):
        if len(e.generators) != 1:
            raise OutOfSubset('nested comprehension')
        gen = e.generators[0]
        out = []
        sub = dict(env)
        for x in self.iterate(self.ev(gen.iter, env, g)):
            self.assign(gen.target, x, sub, g)
            if all(self.truthy(self.ev(c, sub, g)) for c in gen.ifs):
                out.append(self.ev(e.elt, sub, g))
        return self.register(out)

    def ev_call(self, e, env, g):
        fe = e.func
        # super().method(...)
        if (isinstance(fe, ast.Attribute) and isinstance(fe.value, ast.Call) and isinstance(fe.value.func, ast.Name)
                and fe.value.func.id == 'super'):
            fn = env['__func__']
            node, _ = func_ast(fn)
            selfo = env[node.args.args[0].arg]
            cls = selfo.cls if isinstance(selfo, Obj) else selfo
            owner = None
            for k in cls.__mro__:
                if k.__dict__.get(fn.__name__) is fn:
                    owner = k
                    break
            if owner is None:
                raise OutOfSubset('super(): owner class not found')
            mro = cls.__mro__
            tgt = None
            for k in mro[mro.index(owner) + 1:]:
                if fe.attr in k.__dict__:
                    tgt = k.__dict__[fe.attr]
                    break
            args, kwargs = self.ev_args(e, env, g)
            if tgt is None or not isinstance(tgt, types.FunctionType):
                if fe.attr == '__init__':
                    return None
                raise OutOfSubset('super().%s resolves to a native' % fe.attr)
            return self.call(tgt, [selfo] + args, kwargs)
        # int(a / b) etc. handled via SymFrac
        f = self.ev(fe, env, g)
        args, kwargs = self.ev_args(e, env, g)
        if f is range and len(args) == 3 and not conc(args[2]) and is_intlike(args[2]):
            # range() with a symbolic step: fork on its value and let the local names bound to it see the concrete number
            c_ = self.fork_small(args[2])
            if c_ is not None:
                for k_, v_ in list(env.items()):
                    if v_ is args[2]:
                        env[k_] = c_
                args[2] = c_
        if f is None or is_intlike(f) or isinstance(f, (str, tuple)) or (isinstance(f, Obj) and not self._lookup_special(f.cls, '__call__')):
            raise PyRaise(self.make_exc(TypeError, "'%s' object is not callable" % _tname(f)))
        if isinstance(f, _Native):
            return f.fn(self, *args)
        return self.call(f, args, kwargs)

    def ev_args(self, e, env, g):
        args = []
        for a in e.args:
            if isinstance(a, ast.Starred):
                args.extend(self.iterate(self.ev(a.value, env, g)))
            else:
                args.append(self.ev(a, env, g))
        kwargs = {}
        for k in e.keywords:
            if k.arg is None:
                d = self.ev(k.value, env, g)
                if not isinstance(d, dict):
                    raise OutOfSubset('** of non-dict')
                kwargs.update(d)
            else:
                kwargs[k.arg] = self.ev(k.value, env, g)
        return args, kwargs


_CONST_GLOBALS = {}
_READ_METHODS = {'get', 'items', 'keys', 'values', 'index', 'count', 'copy'}


def effectively_constant_global(g, name):
    """a module-level container bound once at module level and used, in every module of its top-level package, only in
    read forms (G[k] loads, `k in G`, iteration, len(G), G.get/items/keys/values(...)): no code of the package can change
    it, so reading it is reading a program constant.  Any other mention of the identifier (a store through it, a mutator
    call, passing it on, aliasing it, rebinding it) makes it state."""
    modname = g.get('__name__')
    key = (modname, name)
    if key in _CONST_GLOBALS:
        return _CONST_GLOBALS[key]
    ok = False
    try:
        mod = sys.modules[modname]
        root = os.path.dirname(os.path.abspath(mod.__file__))
        top = modname.split('.')[0]
        while os.path.basename(root) != top and os.path.dirname(root) != root:
            root = os.path.dirname(root)
        ok = os.path.basename(root) == top
        binds = 0
        for dp, dn, fn in os.walk(root):
            if not ok:
                break
            for f in fn:
                if not f.endswith('.py'):
                    continue
                path = os.path.join(dp, f)
                tree = ast.parse(open(path).read())
                home = os.path.abspath(path) == os.path.abspath(mod.__file__)
                parents = {}
                for n in ast.walk(tree):
                    for c in ast.iter_child_nodes(n):
                        parents[c] = n
                for n in ast.walk(tree):
                    if isinstance(n, ast.alias) and (n.name == name or n.name.endswith('.' + name)) and n.asname not in (None, name):
                        ok = False
                    if isinstance(n, (ast.Global, ast.Nonlocal)) and name in n.names:
                        ok = False
                    ident = (isinstance(n, ast.Name) and n.id == name) or (isinstance(n, ast.Attribute) and n.attr == name)
                    if not ident:
                        continue
                    par = parents.get(n)
                    if isinstance(n.ctx, (ast.Store, ast.Del)):
                        # the one module-level binding (in the defining module; other modules import the name)
                        if isinstance(n, ast.Name) and isinstance(par, (ast.Assign, ast.AnnAssign)) and parents.get(par) is tree:
                            binds += 1
                            continue
                        ok = False
                        continue
                    if isinstance(par, ast.Subscript) and par.value is n and isinstance(par.ctx, ast.Load):
                        continue
                    if isinstance(par, ast.Compare) and n in par.comparators and all(isinstance(o, (ast.In, ast.NotIn)) for o in par.ops):
                        continue
                    if isinstance(par, (ast.For, ast.comprehension)) and par.iter is n:
                        continue
                    if isinstance(par, ast.Call) and isinstance(par.func, ast.Name) and par.func.id in ('len', 'sorted', 'min', 'max', 'sum', 'any', 'all') and n in par.args:
                        continue
                    if isinstance(par, ast.Attribute) and par.value is n and par.attr in _READ_METHODS and isinstance(parents.get(par), ast.Call) and parents[par].func is par:
                        continue
                    ok = False
        ok = ok and binds == 1
    except Exception:       # noqa
        ok = False
    _CONST_GLOBALS[key] = ok
    return ok


class _Native:
    def __init__(self, fn):
        self.fn = fn


class BinCount:
    def __init__(self, bs):
        self.bs = bs

    def __call__(self, eng, what):
        if what != '1':
            raise OutOfSubset("bin().count of %r" % (what,))
        x = sym.lift(self.bs.x)
        if x.lo < 0:
            if not eng.prove(x.t >= 0):
                raise OutOfSubset('bin() of possibly negative symbolic')
        return sym.popcount(x, max(x.hi.bit_length(), 1))


class SymRange:
    def __init__(self, *args):
        if len(args) == 1:
            self.start, self.stop, self.step = 0, args[0], 1
        elif len(args) == 2:
            self.start, self.stop, self.step = args[0], args[1], 1
        else:
            self.start, self.stop, self.step = args
        if not conc(self.step) or self.step == 0:
            raise OutOfSubset('symbolic range step')

    def iterate(self, eng):
        i = self.start
        n = 0
        while True:
            c = cmp('<', i, self.stop) if self.step > 0 else cmp('>', i, self.stop)
            if not eng.istrue(c):
                return
            n += 1
            if n > eng.loop_bound:
                raise OutOfSubset('symbolic range exceeds unwinding bound')
            yield i
            i = sym.add(i, self.step)


_FAILED = object()

_NATIVE_BINOPS = {
    ast.Add: lambda a, b: a + b, ast.Sub: lambda a, b: a - b, ast.Mult: lambda a, b: a * b,
    ast.Mod: lambda a, b: a % b, ast.Div: lambda a, b: a / b, ast.FloorDiv: lambda a, b: a // b,
    ast.BitAnd: lambda a, b: a & b, ast.BitOr: lambda a, b: a | b, ast.BitXor: lambda a, b: a ^ b,
    ast.LShift: lambda a, b: a << b, ast.RShift: lambda a, b: a >> b, ast.Pow: lambda a, b: a ** b,
}


def _cmp_native(op, l, r):
    return {'<': lambda: l < r, '<=': lambda: l <= r, '>': lambda: l > r, '>=': lambda: l >= r}[op]()


def _tname(v):
    if isinstance(v, Obj):
        return v.cls.__name__
    if isinstance(v, SymInt):
        return 'int'
    if isinstance(v, SymBool):
        return 'bool'
    return type(v).__name__


def _has_sym(k):
    if is_sym(k):
        return True
    if isinstance(k, tuple):
        return any(_has_sym(x) for x in k)
    return False


def _as_load(t):
    import copy
    t2 = copy.copy(t)
    t2.ctx = ast.Load()
    return t2


def _has_jump(s):
    for n in ast.walk(s):
        if isinstance(n, (ast.Return, ast.Break, ast.Continue)):
            return True
    return False


_PURE_NODES = (ast.Constant, ast.Name, ast.Load, ast.BinOp, ast.UnaryOp, ast.Compare, ast.BoolOp, ast.IfExp,
               ast.Attribute, ast.Subscript, ast.Tuple, ast.operator, ast.unaryop, ast.cmpop, ast.boolop,
               ast.Call, ast.Slice, ast.keyword)


def _has_call(e):
    return any(isinstance(n, ast.Call) for n in ast.walk(e))


def _is_pure(e):
    """Syntactically mergeable expression. Calls are allowed: the guarded evaluation detects heap writes and
    forks dynamically and then falls back to an ordinary fork."""
    for n in ast.walk(e):
        if not isinstance(n, _PURE_NODES):
            return False
    return True


# ------------------------------------------------------------------ native models

def _m_len(eng, x):
    if isinstance(x, (list, tuple, dict, str, bytes, range)):
        return len(x)
    if hasattr(x, 'sym_len'):
        return x.sym_len(eng)
    if is_intlike(x) or x is None:
        raise PyRaise(eng.make_exc(TypeError, "object of type '%s' has no len()" % _tname(x)))
    raise OutOfSubset('len of %s' % type(x).__name__)


def _m_isinstance(eng, o, k):
    ks = k if isinstance(k, tuple) else (k,)
    for kk in ks:
        if kk is int:
            if isinstance(o, (int, SymInt, SymBool)):
                return True
        elif kk is bool:
            if isinstance(o, (bool, SymBool)):
                return True
        elif isinstance(o, Obj):
            if issubclass(o.cls, kk):
                return True
        elif is_sym(o):
            continue
        elif hasattr(o, 'sym_class'):
            if issubclass(o.sym_class, kk):
                return True
        elif isinstance(o, kk):
            return True
    return False


def _m_print(eng, *args, **kw):
    if args and args[0] == 'unpredictable':
        eng.mark_unpred()
    return None


def _m_abs(eng, x):
    if conc(x):
        return abs(x)
    return ite(cmp('<', x, 0), sym.neg(x), x)


def _m_minmax(is_min):
    def f(eng, *args):
        vals = list(args[0]) if len(args) == 1 else list(args)
        out = vals[0]
        for v in vals[1:]:
            out = ite(cmp('<', v, out) if is_min else cmp('>', v, out), v, out)
        return out
    return f


def _m_bin(eng, x):
    if conc(x):
        return bin(x)
    return BinStr(x)


def _m_hasattr(eng, o, name):
    return eng.hasattr(o, name)


def _m_getattr(eng, o, name, *default):
    try:
        return eng.getattr(o, name)
    except PyRaise as r:
        if default and isinstance(r.exc, Obj) and issubclass(r.exc.cls, AttributeError):
            return default[0]
        raise


def _m_repr(eng, x):
    return '<repr>'


NATIVE_MODELS = {
    len: _m_len, isinstance: _m_isinstance, print: _m_print, abs: _m_abs, min: _m_minmax(True), max: _m_minmax(False),
    bin: _m_bin, hasattr: _m_hasattr, getattr: _m_getattr, repr: _m_repr,
}
