"""Engine models of bytearray / bytes and of struct.pack/unpack for the formats the hub uses, including
CPython's slice clamping, the length-changing slice assignment and struct.error conditions."""
import struct

try:
    import z3
except ImportError:
    z3 = None

from . import sym
from .sym import SymInt, SymBool, OutOfSubset, ite, cmp, land, lor, lnot
from .interp import PyRaise, NATIVE_MODELS

AW = 41                      # index width of the byte arrays
FMT = {'B': 1, '<H': 2, '<I': 4, '<Q': 8}


class BytesVal:
    """immutable byte string of concrete length with (possibly symbolic) byte values"""

    def __init__(self, bs):
        self.bs = list(bs)

    def sym_len(self, eng):
        return len(self.bs)


def _idx(v):
    if isinstance(v, int):
        return z3.BitVecVal(v, AW)
    return sym.fit(sym.lift(v), AW)


def _byte(t):
    return SymInt(z3.ZeroExt(1, t), 0, 255)


class ByteArr:
    """bytearray with symbolic length and contents"""

    def __init__(self, eng, name, length, arr=None, zero=False):
        self.length = length
        if arr is not None:
            self.arr = arr
        elif zero:
            self.arr = z3.K(z3.BitVecSort(AW), z3.BitVecVal(0, 8))
        else:
            self.arr = z3.Array(name, z3.BitVecSort(AW), z3.BitVecSort(8))
        self.init_arr = self.arr
        self.init_length = length
        eng.register(self)

    def snap(self):
        return (self.length, self.arr)

    def restore(self, s):
        self.length, self.arr = s

    def mergeable(self, snaps, vals_ok):
        return vals_ok([s[0] for s in snaps])

    def merge(self, conds, snaps, mergevals):
        self.length = mergevals(conds, [s[0] for s in snaps])
        a = snaps[-1][1]
        for c, s in zip(reversed(conds[:-1]), reversed(snaps[:-1])):
            if not s[1].eq(a):
                a = z3.If(c, s[1], a)
        self.arr = a

    def sym_len(self, eng):
        return self.length

    def _clamp(self, eng, v, what):
        """CPython slice index adjustment"""
        if v is None:
            return None
        if not sym.is_intlike(v):
            raise PyRaise(eng.make_exc(TypeError, 'slice indices must be integers'))
        if isinstance(v, SymBool):
            v = sym.lift(v)
        pos = ite(cmp('>', v, self.length), self.length, v)
        if (isinstance(v, int) and v >= 0) or eng.prove(sym.zb(cmp('>=', v, 0))):
            return pos
        # negative index: counted from the end, clamped at 0  (PySlice_AdjustIndices)
        back = sym.add(v, self.length)
        return ite(cmp('<', v, 0), ite(cmp('<', back, 0), 0, back), pos)

    def _bounds(self, eng, k):
        if k.step is not None:
            raise OutOfSubset('bytearray slice step')
        s = self._clamp(eng, k.start if k.start is not None else 0, 'start')
        e = self._clamp(eng, k.stop if k.stop is not None else self.length, 'stop')
        n = ite(cmp('>', e, s), sym.sub(e, s), 0)
        return s, e, n

    def sym_getitem(self, eng, k):
        if isinstance(k, slice):
            s, e, n = self._bounds(eng, k)
            if isinstance(n, int):
                cnt = n
            else:
                cnt = None
                for c in range(min(n.hi, 64), -1, -1):
                    if eng.istrue(cmp('==', n, c)):
                        cnt = c
                        break
                if cnt is None:
                    raise OutOfSubset('bytearray slice longer than 64')
            return BytesVal([_byte(z3.Select(self.arr, _idx(sym.add(s, i)))) for i in range(cnt)])
        if not sym.is_intlike(k):
            raise PyRaise(eng.make_exc(TypeError, 'bytearray indices must be integers or slices'))
        eng.host_check(sym.zb(land(cmp('>=', k, 0), cmp('<', k, self.length))), IndexError, 'bytearray index out of range')
        return _byte(z3.Select(self.arr, _idx(k)))

    def sym_setitem(self, eng, k, v):
        eng.wrote()
        if isinstance(k, slice):
            if isinstance(v, (bytes, bytearray)):
                v = BytesVal(list(v))
            if not isinstance(v, BytesVal):
                raise PyRaise(eng.make_exc(TypeError, 'can assign only bytes, buffers, or iterables of ints in range(0, 256)'))
            s, e, n = self._bounds(eng, k)
            m = len(v.bs)
            a = self.arr
            for i, b in enumerate(v.bs):
                a = z3.Store(a, _idx(sym.add(s, i)), sym.fit(sym.lift(b), 9) if False else z3.Extract(7, 0, sym.fit(sym.lift(b), 9)))
            if eng.istrue(cmp('==', n, m)):
                self.arr = a                       # in place
                return
            # the slice was clamped: with non-negative indices it then reaches the end of the array, so the new
            # contents are old[0:s] + value and the length becomes s + m  (CPython resizes the bytearray)
            if not eng.prove(sym.zb(cmp('==', e, self.length))):
                raise OutOfSubset('length-changing slice assignment in the middle of a bytearray')
            self.arr = a
            self.length = sym.add(s, m)
            return
        eng.host_check(sym.zb(land(cmp('>=', k, 0), cmp('<', k, self.length))), IndexError, 'bytearray index out of range')
        eng.host_check(sym.zb(land(cmp('>=', v, 0), cmp('<=', v, 255))), ValueError, 'byte must be in range(0, 256)')
        self.arr = z3.Store(self.arr, _idx(k), z3.Extract(7, 0, sym.fit(sym.lift(v), 9)))


class StructError(Exception):
    pass


def _m_unpack(eng, fmt, data):
    if fmt not in FMT:
        raise OutOfSubset('struct format %r' % (fmt,))
    if isinstance(data, (bytes, bytearray)):
        data = BytesVal(list(data))
    if not isinstance(data, BytesVal):
        raise PyRaise(eng.make_exc(TypeError, "a bytes-like object is required"))
    n = FMT[fmt]
    if len(data.bs) != n:
        raise PyRaise(eng.make_exc(struct.error, 'unpack requires a buffer of %d bytes' % n))
    v = 0
    for i, b in enumerate(data.bs):
        v = sym.bor(v, sym.shl(b, 8 * i))
    return (v,)


def _m_pack(eng, fmt, v):
    if fmt not in FMT:
        raise OutOfSubset('struct format %r' % (fmt,))
    n = FMT[fmt]
    if not sym.is_intlike(v):
        raise PyRaise(eng.make_exc(struct.error, 'required argument is not an integer'))
    if isinstance(v, SymBool):
        v = sym.lift(v)
    eng.host_check(sym.zb(land(cmp('>=', v, 0), cmp('<', v, 1 << (8 * n)))), struct.error, 'argument out of range')
    return BytesVal([sym.band(sym.shr(v, 8 * i), 0xFF) for i in range(n)])


def _m_bytearray(eng, *args):
    if not args:
        return ByteArr(eng, 'ba', 0, zero=True)
    n = args[0]
    if sym.is_intlike(n):
        eng.host_check(sym.zb(cmp('>=', n, 0)), ValueError, 'negative count')
        return ByteArr(eng, 'ba', n, zero=True)
    raise OutOfSubset('bytearray(%s)' % type(n).__name__)


def _m_bytes(eng, *args):
    """bytes(n): n zero bytes; bytes(b): copy of a byte string; bytes(iterable of ints)"""
    if not args:
        return BytesVal([])
    v = args[0]
    if isinstance(v, BytesVal):
        return BytesVal(list(v.bs))
    if isinstance(v, (bytes, bytearray)):
        return BytesVal(list(v))
    if isinstance(v, int) and not isinstance(v, bool):
        if v < 0:
            raise PyRaise(eng.make_exc(ValueError, 'negative count'))
        if v > 64:
            raise OutOfSubset('bytes(%d)' % v)
        return BytesVal([0] * v)
    if sym.is_intlike(v):
        for c in range(0, 65):
            if eng.istrue(cmp('==', v, c)):
                return BytesVal([0] * c)
        eng.host_check(sym.zb(cmp('>=', v, 0)), ValueError, 'negative count')
        raise OutOfSubset('bytes(n) with n > 64')
    if isinstance(v, (list, tuple)):
        for b in v:
            eng.host_check(sym.zb(land(cmp('>=', b, 0), cmp('<=', b, 255))), ValueError, 'bytes must be in range(0, 256)')
        return BytesVal(list(v))
    raise OutOfSubset('bytes(%s)' % type(v).__name__)


def install():
    NATIVE_MODELS[struct.unpack] = _m_unpack
    NATIVE_MODELS[struct.pack] = _m_pack
    NATIVE_MODELS[bytearray] = _m_bytearray
    NATIVE_MODELS[bytes] = _m_bytes
