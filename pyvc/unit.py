"""Units, contracts, input domains and the parallel runner."""
import inspect
import os
import sys
import time
import traceback

from . import sym
from .sym import SymInt, SymBool, is_intlike, cmp, land, lor, lnot, OutOfSubset


# ------------------------------------------------------------------ input domains

class Dom:
    def fresh(self, eng, name):
        raise NotImplementedError

    def concrete(self, inputs, name):
        return inputs[name]


class U(Dom):
    """unsigned integer of `bits` bits (optionally <= hi)"""

    def __init__(self, bits, hi=None):
        self.bits = bits
        self.hi = hi

    def fresh(self, eng, name):
        return eng.fresh_int(name, self.bits, self.hi)


class S(Dom):
    """signed integer in [-2**(bits-1), 2**(bits-1))"""

    def __init__(self, bits):
        self.bits = bits

    def fresh(self, eng, name):
        return sym.sub(eng.fresh_int(name, self.bits), 1 << (self.bits - 1))

    def concrete(self, inputs, name):
        return inputs[name] - (1 << (self.bits - 1))


class R(Dom):
    """integer in [lo, hi]"""

    def __init__(self, lo, hi):
        self.lo = lo
        self.hi = hi

    def fresh(self, eng, name):
        n = (self.hi - self.lo).bit_length()
        return sym.add(eng.fresh_int(name, max(n, 1), self.hi - self.lo), self.lo)

    def concrete(self, inputs, name):
        return inputs[name] + self.lo


class K(Dom):
    """concrete constant"""

    def __init__(self, v):
        self.v = v

    def fresh(self, eng, name):
        return self.v

    def concrete(self, inputs, name):
        return self.v


class Flag(Dom):
    """python bool"""

    def fresh(self, eng, name):
        return eng.fresh_bool(name)

    def concrete(self, inputs, name):
        return bool(inputs[name])


# ------------------------------------------------------------------ helpers

def values_eq(a, b):
    """SymBool/bool: a == b in Python's sense for ints/bools/tuples/None/enum members."""
    if isinstance(a, (tuple, list)) and isinstance(b, (tuple, list)):
        if len(a) != len(b):
            return False
        return land(*[values_eq(x, y) for x, y in zip(a, b)])
    if is_intlike(a) and is_intlike(b):
        return cmp('==', a, b)
    if sym.is_sym(a) or sym.is_sym(b):
        return False
    return a is b or a == b


def bind(fn, args, kwargs):
    """full positional argument list of fn for a call (defaults applied)"""
    sig = inspect.signature(fn)
    ba = sig.bind(*args, **kwargs)
    ba.apply_defaults()
    return list(ba.arguments.values())


class Contract:
    """Sidecar contract of a repo function.

    requires(*args) -> truth value (may be symbolic); spec(*args) -> result value.
    If `engine` is True the spec receives the engine as first argument (it may fork,
    read/write the engine heap: that is how frame conditions are expressed).
    """

    def __init__(self, fn, spec, requires=None, engine=False, note='', assumed=False, raises=None):
        self.raises = raises or []       # [(cond(*args) -> truth, exception class)]: host-level exceptions of the body
        self.fn = fn
        self.spec = spec
        self.requires = requires
        self.engine = engine
        self.note = note
        self.assumed = assumed           # True: no unit verifies the body against this contract
        self.qn = '%s.%s' % (fn.__module__, fn.__qualname__)

    def pre(self, eng, args):
        if self.requires is None:
            return True
        return self.requires(eng, *args) if self.engine else self.requires(*args)

    def __call__(self, eng, *args, **kwargs):
        args = bind(self.fn, args, kwargs)
        for cond, cls in self.raises:
            c = cond(*args)
            if c is not False:
                eng.host_check(sym.zb(sym.lnot(c)), cls, '%s: %s' % (self.qn, cls.__name__))
        if self.requires is not None:
            ok = self.pre(eng, args)
            eng.oblige('pre@callsite', self.qn, ok)
            if ok is not True:
                eng.assume(ok)
        if self.engine:
            return self.spec(eng, *args)
        return self.spec(*args)


class Unit:
    """One verification unit: a thunk explored on all paths plus a native replay."""

    def __init__(self, uid, props, symbolic, replay=None, options=None, meta=None, xcheck=None):
        self.xcheck = xcheck                # xcheck(inputs) -> native result comparable with the thunk's return value
        self.uid = uid
        self.props = list(props)
        self.symbolic = symbolic            # thunk(engine)
        self.replay = replay                # replay(inputs: dict, obligation: dict) -> (reproduced: bool, text)
        self.options = options or {}        # engine construction options
        self.meta = meta or {}


# ------------------------------------------------------------------ runner

UNITS = {}          # uid -> Unit, filled by the check before forking workers
KNOWN = []          # known findings: list of dicts


def run_unit(uid):
    """Worker: explore one unit, return a picklable result."""
    from .interp import Engine, PyRaise, reset_source_cache
    u = UNITS[uid]
    t0 = time.time()
    res = {'uid': uid, 'props': u.props, 'paths': 0, 'obligations': [], 'error': None, 'oos': None,
           'solver_calls': 0, 'solver_s': 0.0, 'inlined': [], 'contract_calls': {}, 'merges': 0,
           'undecided_branches': 0, 'unpred_paths': 0, 'xcheck': None}
    try:
        opts = dict(u.options)
        builder = opts.pop('engine', None)
        eng = builder(opts) if builder else Engine(**opts)
        eng.known = [k for k in KNOWN if _kf_matches_unit(k, uid)]
        eng.unit = u
        try:
            paths = eng.explore(u.symbolic)
            res['paths'] = len(paths)
            for p in paths:
                if p.kind == 'raise':
                    # an exception escaping the thunk: the unit must handle expected exceptions itself
                    ex = p.value
                    res['obligations'].append({
                        'kind': 'safe.escape', 'label': 'exception %s escaped the unit' % ex.cls.__name__,
                        'status': 'failed', 'model': None, 'seconds': 0, 'backend': 'engine',
                        'decisions': _ser(p.decisions), 'detail': str(ex.attrs.get('args')),
                        'props': u.props + [ap for ap in (u.meta.get('also') or {}) if ap not in u.props]})
            if u.xcheck is not None and not eng.obligations_failed():
                res['xcheck'] = cross_check(eng, u, paths)
        except OutOfSubset as e:
            res['oos'] = str(e)
        agg = {}
        for ob in eng.obligations:
            props = list(getattr(ob, 'props', None) or u.props)
            # obligations of some kinds also carry claims that use this unit's function by contract
            # (meta['also'] = {property: [kind prefixes]}, e.g. host-error freedom of the memory path under C18)
            for ap, kinds in (u.meta.get('also') or {}).items():
                if ap not in props and ob.kind in kinds:
                    props.append(ap)
            if ob.status == 'proved':
                key = (ob.kind, ob.label, ob.backend, tuple(props))
                a = agg.get(key)
                if a is None:
                    agg[key] = a = {'kind': ob.kind, 'label': ob.label, 'status': 'proved', 'model': None, 'seconds': 0.0,
                                    'backend': ob.backend, 'decisions': None, 'detail': '', 'props': list(props), 'count': 0}
                    res['obligations'].append(a)
                a['count'] += 1
                a['seconds'] = round(a['seconds'] + ob.seconds, 4)
                continue
            res['obligations'].append({
                'kind': ob.kind, 'label': ob.label, 'status': ob.status, 'model': ob.model,
                'seconds': round(ob.seconds, 4), 'backend': ob.backend, 'decisions': _ser(ob.decisions),
                'detail': ob.detail, 'props': props, 'count': 1})
        st = eng.stats
        res.update(solver_calls=st['solver_calls'], solver_s=round(st['solver_s'], 3), inlined=sorted(st['inlined']),
                   contract_calls=st['contract_calls'], merges=st['merges'], undecided_branches=eng.undecided_branches)
    except Exception:
        res['error'] = traceback.format_exc()
    res['wall'] = round(time.time() - t0, 3)
    return res


def cross_check(eng, u, paths):
    """CPython differential validation of the engine: on seeded random concrete inputs the path summaries
    (path condition + result term) must agree with a native run of the real code."""
    import random
    import z3
    seed = int(os.environ.get('VERIF_SEED', '0'))
    rnd = random.Random((hash(u.uid) & 0xFFFFFF) ^ seed)
    n = int(os.environ.get('VERIF_XCHECK_N', '12'))
    names = sorted(eng.all_inputs)
    done = mismatches = 0
    notes = []
    for _ in range(n * 4):
        if done >= n:
            break
        assign = {}
        subs = []
        for nm in names:
            var = eng.all_inputs[nm]
            if z3.is_bool(var):
                v = rnd.random() < 0.5
                subs.append((var, z3.BoolVal(v)))
            else:
                bits = var.size()
                v = rnd.choice([0, 1, (1 << bits) - 1, 1 << (bits - 1), rnd.getrandbits(bits), rnd.getrandbits(bits) & 0xFF])
                v &= (1 << bits) - 1
                subs.append((var, z3.BitVecVal(v, bits)))
            assign[nm] = v
        hit = None
        for p in paths:
            ok = True
            for c in p.pc:
                if not z3.is_true(z3.simplify(z3.substitute(c, *subs))):
                    ok = False
                    break
            if ok:
                hit = p
                break
        if hit is None:
            continue             # input violates the unit's precondition
        try:
            native = u.xcheck(assign)
        except Exception as e:     # noqa
            native = ('raises', type(e).__name__)
        done += 1
        if hit.kind != 'ok' or hit.data is None:
            continue
        symv = hit.data
        got = _eval_conc(symv, subs)
        if not _same(native, got):
            mismatches += 1
            notes.append('inputs %r: native %r engine %r' % (assign, native, got))
    return {'samples': done, 'mismatches': mismatches, 'notes': notes[:3]}


def _eval_conc(v, subs):
    import z3
    if isinstance(v, tuple):
        return tuple(_eval_conc(x, subs) for x in v)
    if isinstance(v, SymInt):
        t = z3.simplify(z3.substitute(v.t, *subs))
        n = t.as_long()
        if n >= 1 << (t.size() - 1):
            n -= 1 << t.size()
        return n
    if isinstance(v, SymBool):
        return z3.is_true(z3.simplify(z3.substitute(v.b, *subs)))
    return v


def _same(a, b):
    if isinstance(a, (tuple, list)) and isinstance(b, (tuple, list)):
        return len(a) == len(b) and all(_same(x, y) for x, y in zip(a, b))
    try:
        return a == b
    except Exception:    # noqa
        return False


def _ser(d):
    return repr(d) if d is not None else None


def _kf_matches_unit(k, uid):
    import fnmatch
    return fnmatch.fnmatchcase(uid, k.get('unit', '*'))


def run_units(uids, jobs=None):
    """Run units in a fork pool; yields results as they complete."""
    import multiprocessing as mp
    jobs = jobs or int(os.environ.get('VERIF_JOBS', '16'))
    if jobs <= 1 or len(uids) <= 1:
        for uid in uids:
            yield run_unit(uid)
        return
    ctx = mp.get_context('fork')
    with ctx.Pool(min(jobs, len(uids)), maxtasksperchild=8) as pool:
        for r in pool.imap_unordered(run_unit, uids, chunksize=1):
            yield r
