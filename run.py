#!/usr/bin/env python3
"""Entry point of the verification machinery.

  python3-vt run.py check <PROP> [--tier quick|thorough] [--jobs N] [--only <uid glob>]
  <python> run.py replay <replay.json>

Exit codes of `check`: 0 held, 1 violation (VIOLATION line printed), 2 undecided, 3 machinery fault.
"""
import fnmatch
import importlib
import json
import os
import re
import subprocess
import sys
import time

HERE = os.path.dirname(os.path.abspath(__file__))
sys.path.insert(0, HERE)
sys.dont_write_bytecode = True

# property -> props modules that contribute units
_DEP = ['props.c17', 'props.c10']       # callee contracts (L1, register views, L2) are discharged as part of every dependent claim
_MEM = ['props.c13', 'props.c14', 'props.c15', 'props.c16']    # the memory path below the accessor contracts (meta['also'] of its units)
PROP_MODULES = {
    'C01': ['props.step'] + _DEP, 'C02': ['props.step', 'props.c13', 'props.c16', 'props.c03'] + _DEP, 'C03': ['props.c03', 'props.c13', 'props.c16'] + _DEP, 'C04': ['props.step'] + _DEP,
    'C05': ['props.c05'] + _DEP, 'C06': ['props.step', 'props.tablecheck'] + _DEP, 'C07': ['props.step', 'props.tablecheck'] + _DEP, 'C08': ['props.c08', 'props.c05', 'props.c11'] + _DEP,
    'C09': ['props.step'] + _DEP, 'C10': ['props.c10', 'props.c17', 'props.c03'], 'C11': ['props.c11', 'props.step'] + _DEP, 'C12': ['props.c12', 'props.c11', 'props.c03'] + _DEP,
    'C13': ['props.c13', 'props.c16', 'props.step'] + _DEP, 'C15': ['props.c15', 'props.c13'], 'C20': ['props.c20'] + _MEM + _DEP, 'C14': ['props.c14', 'props.c13', 'props.c03', 'props.step'] + _DEP, 'C16': ['props.c16'], 'C17': ['props.c17'], 'C18': ['props.step'] + _MEM + _DEP, 'C19': ['props.step', 'props.c12'] + _MEM + _DEP,
}

REPLAY_PY = os.environ.get('VERIF_REPLAY_PYTHON', '/venv/bin/python')


def repo_path():
    return os.environ.get('VERIF_REPO', '/repo')


def load_known():
    p = os.path.join(HERE, 'known_findings.json')
    if not os.path.exists(p):
        return {'findings': [], 'fixed': []}
    return json.load(open(p))


def load_baseline():
    p = os.path.join(HERE, 'baseline_obligations.json')
    if not os.path.exists(p):
        return {}
    return json.load(open(p))


def collect_units(prop, tier):
    units = []
    seen = set()
    for mn in PROP_MODULES.get(prop, []):
        mod = importlib.import_module(mn)
        for u in mod.units(tier):
            if (prop in u.props or prop in (u.meta.get('also') or {})) and u.uid not in seen:
                seen.add(u.uid)
                u.module = mn
                units.append(u)
    return units


def tree_digest(tier):
    """digest of everything a unit result depends on: the repo sources, the machinery, tier, seed, known findings"""
    import hashlib
    h = hashlib.sha256()
    roots = [os.path.join(repo_path(), 'armulator')] + [os.path.join(HERE, d) for d in ('pyvc', 'spec', 'contracts', 'props')]
    for root in roots:
        for dp, dn, fn in sorted(os.walk(root)):
            dn.sort()
            if '__pycache__' in dp:
                continue
            for f in sorted(fn):
                if f.endswith(('.py', '.json')):
                    p = os.path.join(dp, f)
                    h.update(p.encode())
                    h.update(open(p, 'rb').read())
    kf = os.path.join(HERE, 'known_findings.json')
    if os.path.exists(kf):
        h.update(open(kf, 'rb').read())
    h.update(('%s|%s|%s' % (tier, os.environ.get('VERIF_SEED', '0'), os.environ.get('VERIF_XCHECK_N', ''))).encode())
    return h.hexdigest()[:24]


def cached_run(units, tier, jobs):
    """run units, reusing results computed earlier from byte-identical sources (repo + machinery)"""
    import hashlib
    from pyvc import unit as U
    use = os.environ.get('VERIF_NO_CACHE', '') == ''
    d = os.path.join(HERE, '.cache', tree_digest(tier))
    results, todo = [], []
    for u in units:
        p = os.path.join(d, hashlib.sha1(u.uid.encode()).hexdigest() + '.json')
        if use and os.path.exists(p):
            try:
                r = json.load(open(p))
                r['from_cache'] = True
                results.append(r)
                continue
            except Exception:     # noqa
                pass
        todo.append(u.uid)
    if todo:
        os.makedirs(d, exist_ok=True)
        # drop caches of other tree states (disk space)
        base = os.path.join(HERE, '.cache')
        # (concurrent checks of other trees - seeded-change evaluations - keep their own directory: only stale ones go)
        import shutil
        others = sorted((o for o in os.listdir(base) if o != os.path.basename(d)),
                        key=lambda o: os.path.getmtime(os.path.join(base, o)), reverse=True)
        now = time.time()
        for k, other in enumerate(others):
            if k >= 6 or now - os.path.getmtime(os.path.join(base, other)) > 3 * 3600:
                shutil.rmtree(os.path.join(base, other), ignore_errors=True)
        for r in U.run_units(todo, jobs):
            results.append(r)
            if use and r.get('error') is None:
                p = os.path.join(d, hashlib.sha1(r['uid'].encode()).hexdigest() + '.json')
                try:
                    os.makedirs(d, exist_ok=True)
                    with open(p + '.tmp', 'w') as f:
                        json.dump(r, f)
                    os.replace(p + '.tmp', p)
                except OSError:
                    pass
    return results, len(units) - len(todo)


def safe_name(s):
    return re.sub(r'[^A-Za-z0-9_.=,\[\]-]+', '_', s)[:180]


def write_replay(prop, unit, ob, extra=None):
    d = os.path.join(HERE, 'replays', prop)
    os.makedirs(d, exist_ok=True)
    import hashlib
    hx = hashlib.sha1(json.dumps(ob.get('model'), sort_keys=True, default=str).encode()).hexdigest()[:8]
    name = safe_name('%s__%s__%s' % (unit.uid.split('/', 1)[-1], ob['kind'], ob['label']))[:150] + '__' + hx
    path = os.path.join(d, name + '.json')
    rec = {'property': prop, 'module': unit.module, 'unit': unit.uid, 'obligation': '%s/%s:%s' % (unit.uid, ob['kind'], ob['label']),
           'kind': ob['kind'], 'label': ob['label'], 'inputs': ob.get('model'), 'detail': ob.get('detail', ''),
           'decisions': ob.get('decisions'), 'tier': os.environ.get('VERIF_TIER_EFFECTIVE', 'quick')}
    if extra:
        rec.update(extra)
    with open(path, 'w') as f:
        json.dump(rec, f, indent=1, sort_keys=True)
    return path


def run_replay(path):
    """returns (reproduced: bool|None, output)"""
    env = dict(os.environ)
    env['PYTHONPATH'] = repo_path()
    env['PYTHONDONTWRITEBYTECODE'] = '1'
    py = REPLAY_PY if os.path.exists(REPLAY_PY) else sys.executable
    try:
        p = subprocess.run([py, os.path.join(HERE, 'run.py'), 'replay', path], capture_output=True, text=True,
                           env=env, timeout=600)
    except subprocess.TimeoutExpired:
        return None, 'replay timed out'
    out = p.stdout + p.stderr
    if p.returncode == 10 and 'RESULT: REPRODUCED' in out:
        return True, out
    if p.returncode == 0:
        return False, out
    return None, out


def cmd_replay(path):
    rec = json.load(open(path))
    mod = importlib.import_module(rec['module'])
    tier = rec.get('tier', 'quick')
    unit = None
    for t in (tier, 'thorough', 'quick'):
        for u in mod.units(t):
            if u.uid == rec['unit']:
                unit = u
                break
        if unit:
            break
    if unit is None:
        print('replay: unit %s not found' % rec['unit'])
        return 2
    print('REPLAY property=%s obligation=%s' % (rec['property'], rec['obligation']))
    if rec.get('inputs') is None:
        print('no concrete input available for this obligation (see detail)')
        print(rec.get('detail', ''))
        return 0
    bad, text = unit.replay(rec['inputs'], rec)
    print(text)
    print('RESULT: %s' % ('REPRODUCED (real code violates the obligation on this input)' if bad else 'not reproduced'))
    return 10 if bad else 0


def kf_match(k, prop, uid, ob):
    return (k.get('property') == prop and fnmatch.fnmatchcase(uid, k.get('unit', '*'))
            and fnmatch.fnmatchcase(ob['kind'], k.get('kind', '*')) and fnmatch.fnmatchcase(ob['label'], k.get('label', '*')))


def cmd_check(prop, tier, jobs, only=None):
    t_start = time.time()
    seed = int(os.environ.get('VERIF_SEED', '0'))
    os.environ['VERIF_TIER_EFFECTIVE'] = tier
    from pyvc import unit as U
    known = load_known()
    baseline = load_baseline().get(prop, {})
    units = collect_units(prop, tier)
    if only:
        units = [u for u in units if any(fnmatch.fnmatchcase(u.uid, pat) for pat in only.split(','))]
    if not units:
        print('UNDECIDED property=%s no units' % prop)
        return 2
    U.UNITS.clear()
    for u in units:
        U.UNITS[u.uid] = u
    U.KNOWN[:] = list(known.get('findings', []))      # regions apply by unit/kind/label whatever property is asked
    by_uid = {u.uid: u for u in units}
    results, n_cached = cached_run(units, tier, jobs)
    results.sort(key=lambda r: r['uid'])

    n_ob = n_proved = 0
    violations = []          # (unit, ob, replay path, note)
    known_hits = {}
    faults = []
    undecided = []
    backends = {}
    solver_s = 0.0
    samples = []
    inlined = set()
    contract_calls = {}
    fn_under_contract = set()
    per_unit = {}
    xcheck_tot = [0]
    xfaults = []
    nofail = []
    for r in results:
        u = by_uid[r['uid']]
        solver_s += r.get('solver_s', 0)
        inlined.update(r.get('inlined', []))
        for k, v in r.get('contract_calls', {}).items():
            contract_calls[k] = contract_calls.get(k, 0) + v
        if u.meta.get('function'):
            fn_under_contract.add(u.meta['function'])
        if r['error']:
            faults.append((r['uid'], r['error']))
            continue
        xc = r.get('xcheck')
        if xc:
            xcheck_tot[0] += xc['samples']
            if xc['mismatches']:
                xfaults.append((r['uid'], 'ENGINE-XCHECK: engine path summary (callees by contract) disagrees with CPython (real callees): %s' % xc['notes']))
        if r['oos']:
            undecided.append((r['uid'], 'out-of-subset: ' + r['oos']))
        cnt = set()
        for ob in r['obligations']:
            if prop not in (ob.get('props') or [prop]):
                continue
            k = ob.get('count', 1)
            n_ob += k
            if ob['status'] == 'proved':
                cnt.add(ob['kind'])
            if ob['status'] == 'proved':
                n_proved += k
                backends[ob['backend']] = backends.get(ob['backend'], 0) + k
                if len(samples) < 6 and ob['kind'] != 'cover':
                    samples.append({'obligation': '%s/%s:%s' % (r['uid'], ob['kind'], ob['label']), 'status': 'proved',
                                    'backend': ob['backend'], 'seconds': ob['seconds']})
            elif ob['status'] == 'failed':
                kf = [k for k in known.get('findings', []) if kf_match(k, prop, r['uid'], ob)]
                path = write_replay(prop, u, ob)
                if ob.get('model') is None:
                    faults.append((r['uid'], 'failed obligation without model: %s %s %s' % (ob['kind'], ob['label'], ob['detail'])))
                    continue
                rep, out = run_replay(path)
                if rep is True and ob['kind'].startswith('contract.'):
                    faults.append((r['uid'], 'CONTRACT-MISMATCH (sidecar contract disagrees with the body; the contract must be corrected): %s\n%s' % (ob['label'], out)))
                elif rep is True:
                    violations.append((u, ob, path, out))
                elif rep is False and (u.meta.get('inductive') or ob['kind'] in ('frame.own',)):
                    # counter-model of an inductive obligation: an arbitrary loop state, not necessarily one a whole
                    # execution reaches; the obligation itself is what failed
                    nofail.append((r['uid'], 'obligation %s/%s fails (%s)\n%s' % (
                        ob['kind'], ob['label'], 'a frame/ownership condition: no single run exhibits it' if ob['kind'] == 'frame.own' else
                        'inductive: the solver counter-model is an intermediate loop state; the whole-instruction replay of it did not misbehave',
                        out[-1500:]), path))
                elif rep is False:
                    faults.append((r['uid'], 'ENGINE-MISMATCH: solver model for %s/%s does not reproduce natively\n%s' % (
                        ob['kind'], ob['label'], out)))
                else:
                    faults.append((r['uid'], 'replay failed to run: %s' % out))
            else:
                undecided.append((r['uid'], '%s/%s: %s' % (ob['kind'], ob['label'], ob['detail'])))
        per_unit[r['uid']] = cnt

    # a caller's summary uses callee *contracts*: when a callee violates its contract (reported as a VIOLATION of that
    # callee's obligation) the differential check of its callers legitimately disagrees; only without any violation
    # is a disagreement a fault of the engine
    if xfaults and not violations:
        faults.extend(xfaults)
    elif xfaults:
        print('NOTE: %d caller cross-checks disagree with CPython, consistent with the violated callee contract(s) below' % len(xfaults))

    # known findings: confirm witnesses still reproduce
    kf_lines = []
    for k in known.get('findings', []):
        if k.get('property') != prop:
            continue
        us = [u for u in units if fnmatch.fnmatchcase(u.uid, k.get('unit', '*'))]
        if not us:
            continue
        u = us[0]
        if k.get('witness_unit'):
            us2 = [x for x in units if x.uid == k['witness_unit']]
            u = us2[0] if us2 else u
        ob = {'kind': k.get('kind', 'post'), 'label': k.get('label', ''), 'model': k['witness'], 'detail': 'known finding witness'}
        path = write_replay(prop, u, ob, {'known_finding': k.get('id')})
        rep, out = run_replay(path)
        if rep is True:
            kf_lines.append('KNOWN-FINDING: property=%s %s [%s] witness=%s' % (prop, k['what'], k.get('id', ''), json.dumps(k['witness'], sort_keys=True)))
        elif rep is False:
            print('NOTE: known finding %s no longer reproduces on this tree (treated as absent)' % k.get('id'))
        else:
            faults.append((u.uid, 'known-finding witness replay failed to run: %s' % out))

    # baseline comparison (vacuity / disappearing obligations)
    missing = []
    if not only:
        for uid, kinds in baseline.get('units', {}).items():
            if uid not in per_unit:
                missing.append('%s (unit missing)' % uid)
            else:
                gone = sorted(set(kinds) - per_unit[uid])
                if gone:
                    missing.append('%s (no discharged obligation of kind %s any more; the baseline tree had them)' % (uid, ','.join(gone)))

    # undecided obligations that were proved in the baseline -> violation without input
    base_units = baseline.get('units', {})
    still_undecided = []
    for uid, why in undecided:
        if uid in base_units and not why.startswith('out-of-subset'):
            ob = {'kind': 'undecided', 'label': why[:80], 'model': None, 'detail': why}
            path = write_replay(prop, by_uid[uid], ob, {'solver_output': why})
            nofail.append((uid, why, path))
        else:
            still_undecided.append((uid, why))

    wall = time.time() - t_start
    level = 'proof'
    assumptions = [
        "pyvc's encoding of CPython semantics for the subset listed in DESIGN.md section 3.2 (ints exact via width-growing bit-vectors)",
        'correctness of z3 %s' % _z3_version(),
        'specifications in /verif/spec transcribed from the ARM ARM (DDI 0406C) by hand',
    ]
    mod_assump = []
    for mn in PROP_MODULES.get(prop, []):
        mod = importlib.import_module(mn)
        mod_assump += getattr(mod, 'ASSUMPTIONS', [])
    cov = {
        'obligations': n_ob, 'discharged': n_proved,
        'checker_cmd': 'python3-vt run.py check %s --tier %s' % (prop, tier),
        'trusted_base': ['z3-solver 4.x/5.x python API', 'pyvc AST->VC generator (/verif/pyvc)', 'spec/*.py oracle'],
        'units': len(units), 'paths': sum(r.get('paths', 0) for r in results),
        'unit_cpu_seconds_when_computed': round(sum(r.get('wall', 0) for r in results), 1),
        'functions_under_contract': sorted(fn_under_contract),
        'functions_inlined_not_modular': sorted(inlined - fn_under_contract),
        'contract_uses_at_call_sites': contract_calls,
        'discharged_by_backend': backends, 'solver_seconds': round(solver_s, 2),
        'undecided': ['%s: %s' % x for x in still_undecided][:50],
        'violations_replayed': len(violations), 'known_findings_confirmed': len(kf_lines),
        'bounded_standins': [], 'unit_results_reused_from_identical_tree_cache': n_cached, 'engine_crosscheck_samples_vs_cpython': xcheck_tot[0],
        'samples': samples or [{'note': 'no proved obligation'}],
        'explanation': 'each unit = real function body interpreted from /repo source on all paths; every obligation pc => post discharged by z3',
    }
    ev = {'property_id': prop, 'tier': tier, 'seed': seed, 'level': level, 'coverage': cov,
          'assumptions': assumptions + mod_assump, 'wall_s': round(wall, 2), 'violations': len(violations) + len(nofail)}
    os.makedirs(os.path.join(HERE, 'evidence'), exist_ok=True)
    if not only:
        with open(os.path.join(HERE, 'evidence', '%s.json' % prop), 'w') as f:
            json.dump(ev, f, indent=1, sort_keys=True)

    print('property %s tier %s: %d units, %d obligations, %d discharged, %d violations, %d undecided, %d faults, %.1fs' % (
        prop, tier, len(units), n_ob, n_proved, len(violations) + len(nofail), len(still_undecided), len(faults), wall))
    for line in kf_lines:
        print(line)
    rc = 0
    if faults:
        for uid, why in faults[:20]:
            print('MACHINERY-FAULT unit=%s\n%s' % (uid, why))
        rc = 3
    shown = {}
    for u, ob, path, out in violations:
        print('VIOLATION property=%s replay=%s' % (prop, path))
        key = (ob['kind'], ob['label'])
        shown[key] = shown.get(key, 0) + 1
        if shown[key] <= 2:
            print('  obligation %s/%s:%s' % (u.uid, ob['kind'], ob['label']))
            for ln in out.strip().splitlines()[:12]:
                print('  | ' + ln[:400])
        rc = max(rc, 1) if rc != 3 else 3
    for uid, why, path in nofail:
        print('VIOLATION property=%s replay=%s no-failing-input-found' % (prop, path))
        print('  obligation of %s was discharged on the baseline tree and is now undecided: %s' % (uid, why))
        rc = max(rc, 1) if rc != 3 else 3
    if rc == 0 and (still_undecided or missing):
        for uid, why in still_undecided[:20]:
            print('UNDECIDED unit=%s %s' % (uid, why))
        for m in missing[:20]:
            print('UNDECIDED %s' % m)
        rc = 2
    if n_ob == 0:
        print('UNDECIDED zero obligations generated')
        rc = max(rc, 2)
    if violations and rc == 3:
        rc = 3
    elif violations or nofail:
        rc = 1 if not faults else 3
    return rc


def _z3_version():
    try:
        import z3
        return z3.get_version_string()
    except Exception:
        return '?'


def cmd_baseline(props, tier):
    """(maintenance) record per-unit obligation counts of the current tree into baseline_obligations.json"""
    from pyvc import unit as U
    base = load_baseline()
    for prop in props:
        units = collect_units(prop, tier)
        U.UNITS.clear()
        for u in units:
            U.UNITS[u.uid] = u
        U.KNOWN[:] = list(load_known().get('findings', []))
        cnts = {}
        results, _ = cached_run(units, tier, None)
        for r in results:
            mine = [ob for ob in r['obligations'] if prop in (ob.get('props') or [prop])]
            if r['error'] is None and r['oos'] is None and mine and all(ob['status'] == 'proved' for ob in mine):
                # obligation *kinds* (not counts: path counts vary with solver models) that the unit discharges
                cnts[r['uid']] = sorted(set(ob['kind'] for ob in mine if ob['kind'] not in ('pre@callsite',)))
        base.setdefault(prop, {}).setdefault('units', {})
        if tier == 'quick':
            base[prop]['units'] = cnts
        base[prop]['recorded_tier'] = tier
        print(prop, len(cnts), 'units in baseline')
    with open(os.path.join(HERE, 'baseline_obligations.json'), 'w') as f:
        json.dump(base, f, indent=0, sort_keys=True)


def main(argv):
    if len(argv) >= 2 and argv[0] == 'replay':
        return cmd_replay(argv[1])
    if len(argv) >= 2 and argv[0] == 'check':
        prop = argv[1]
        tier = os.environ.get('VERIF_TIER', 'quick')
        jobs = None
        only = None
        i = 2
        while i < len(argv):
            if argv[i] == '--tier':
                tier = argv[i + 1]
                i += 2
            elif argv[i] == '--jobs':
                jobs = int(argv[i + 1])
                i += 2
            elif argv[i] == '--only':
                only = argv[i + 1]
                i += 2
            else:
                i += 1
        return cmd_check(prop, tier, jobs, only)
    if len(argv) >= 2 and argv[0] == 'baseline':
        cmd_baseline([a for a in argv[1:] if a in PROP_MODULES], 'quick')
        return 0
    print(__doc__)
    return 3


if __name__ == '__main__':
    sys.exit(main(sys.argv[1:]))
