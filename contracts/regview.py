"""Contracts of AbstractRegister item access (bit / bit-slice views of `value`)."""
from pyvc.unit import Contract
from pyvc.interp import Obj
from pyvc import sym
from pyvc.sym import land, ite
from spec.rt import uint
from .l1 import c2i, in_range


def _is_intlike(x):
    return isinstance(x, (int, sym.SymInt, sym.SymBool))


def get_bits(v, msb, lsb):
    return uint(v, msb + 1) >> lsb


def set_bits(v, msb, lsb, x):
    if isinstance(msb, int) and isinstance(lsb, int) and msb >= lsb >= 0:
        # mask form keeps the static interval tight (callers' range obligations then need no solver)
        top = v >> (msb + 1)
        low = uint(v, lsb)
        return (top << (msb + 1)) | (c2i(x) << lsb) | low
    return v - (get_bits(v, msb, lsb) << lsb) + (c2i(x) << lsb)


def build(mods):
    AR = mods.abstract_register.AbstractRegister
    C = {}

    def getitem_req(eng, self, item):
        if isinstance(item, slice):
            return land(item.start >= -1, item.stop >= 0)
        if not _is_intlike(item):
            return False
        return item >= 0

    def getitem_spec(eng, self, item):
        v = self.attrs['value']
        if isinstance(item, slice):
            return get_bits(v, item.start, item.stop)
        return (v >> c2i(item)) & 1

    def setitem_req(eng, self, item, value):
        v = self.attrs['value']
        if not _is_intlike(value):
            return False
        if isinstance(item, slice):
            m, l = item.start, item.stop
            return land(l >= 0, m >= l, m < 256, in_range(v, 256), c2i(value) >= 0,
                        c2i(value) < (1 << ite(m >= l, m - l + 1, 0)))
        if not _is_intlike(item):
            return False
        return land(item >= 0, item < 256, in_range(v, 256), c2i(value) >= 0, c2i(value) <= 1)

    def setitem_spec(eng, self, item, value):
        v = self.attrs['value']
        if isinstance(item, slice):
            self.attrs['value'] = set_bits(v, item.start, item.stop, value)
        else:
            item = c2i(item)
            self.attrs['value'] = set_bits(v, item, item, value)
        eng.wrote()
        return None

    C[AR.__getitem__] = Contract(AR.__getitem__, getitem_spec, getitem_req, engine=True)
    C[AR.__setitem__] = Contract(AR.__setitem__, setitem_spec, setitem_req, engine=True)
    C[AR._at] = Contract(AR._at, lambda eng, self, i: (self.attrs['value'] >> i) & 1, lambda eng, self, i: i >= 0, engine=True)

    def set_at_spec(eng, self, i, value):
        self.attrs['value'] = set_bits(self.attrs['value'], i, i, value)
        eng.wrote()
    C[AR._set_at] = Contract(AR._set_at, set_at_spec,
                             lambda eng, self, i, value: land(i >= 0, i < 256, in_range(self.attrs['value'], 256),
                                                              c2i(value) >= 0, c2i(value) <= 1), engine=True)
    return C
