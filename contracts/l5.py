"""L5 contracts: the memory accessors of ArmV6 as abstract (uninterpreted) operations, instruction fetch,
and the mock hooks.  Used when verifying opcodes and the step function."""
from pyvc.unit import Contract
from pyvc.interp import Obj, PyRaise
from pyvc import sym
from pyvc.sym import land, lor, lnot, ite
from spec import state as ST
from spec.rt import bits, bit
from . import absmem as AM
from .l1 import c2i
from .l2 import mode_of, cpsr_value

ABORT_HAVOC = ['dfsr', 'dfar', 'hsr', 'hdfar', 'hpfar']


def u32(v):
    return land(v >= 0, v <= 0xFFFFFFFF) if sym.is_intlike(v) else False


def build(mods):
    A = mods.arm_v6.ArmV6
    EX = mods.arm_exceptions
    C = {}

    def raise_abort(eng, cpu, k):
        """the abstract abort path: fault bookkeeping registers receive unspecified (fresh) values"""
        regs = cpu.attrs['registers']
        mem = cpu.attrs['mem']
        n = len(mem.accesses)
        info = {'is_align': eng.fresh_bool('abort%d.is_alignment' % n), 'second': eng.fresh_bool('abort%d.second_stage' % n)}
        for nm in ABORT_HAVOC:
            v = eng.fresh_int('abort%d.%s' % (n, nm), 32)
            tgt = regs.attrs[nm]
            if isinstance(tgt, Obj):
                tgt.attrs['value'] = v
            else:
                regs.attrs[nm] = v
            info[nm] = v
        mem.fault_info = info
        eng.wrote()
        exc = Obj(EX.DataAbortException, {'args': (), 'abort_type': None, 'is_second_stage': info['second'], '_info': info})
        raise PyRaise(exc)

    C[EX.DataAbortException.is_alignment_fault] = Contract(
        EX.DataAbortException.is_alignment_fault, lambda eng, self: self.attrs['_info']['is_align'], engine=True)

    def priv_of(cpu):
        return mode_of(cpu.attrs['registers']) != ST.USR

    def rd(kind, priv_fn):
        def spec(eng, cpu, address, size, *rest):
            mem = cpu.attrs['mem']
            priv = priv_fn(cpu, rest)
            if not isinstance(size, int):
                raise sym.OutOfSubset('symbolic access size')
            if eng.istrue(AM.mem_fault(mem.term, kind, priv, address, size, False)):
                mem.accesses.append((kind, 'Rfault', address, size, None))
                raise_abort(eng, cpu, kind)
            v = AM.mem_read(mem.term, kind, priv, address, size)
            mem.accesses.append((kind, 'R', address, size, v))
            return v
        return spec

    def wr(kind, priv_fn):
        def spec(eng, cpu, address, size, *rest):
            mem = cpu.attrs['mem']
            value = rest[-1]
            priv = priv_fn(cpu, rest[:-1])
            if not isinstance(size, int):
                raise sym.OutOfSubset('symbolic access size')
            if eng.istrue(AM.mem_fault(mem.term, kind, priv, address, size, True)):
                mem.accesses.append((kind, 'Wfault', address, size, None))
                raise_abort(eng, cpu, kind)
            mem.term = AM.mem_write(mem.term, kind, priv, address, size, c2i(value))
            mem.accesses.append((kind, 'W', address, size, value))
            eng.wrote()
            return None
        return spec

    cur = lambda cpu, rest: priv_of(cpu)
    unp = lambda cpu, rest: False
    given = lambda cpu, rest: sym.truth(rest[0])
    areq = lambda eng, cpu, address, size, *rest: land(u32(address), lor(size == 1, size == 2, size == 4, size == 8))

    def wreq(eng, cpu, address, size, *rest):
        v = rest[-1]
        if not sym.is_intlike(v):
            return False
        v = c2i(v)
        return land(u32(address), lor(size == 1, size == 2, size == 4, size == 8), v >= 0, v < (1 << (8 * size)))

    C[A.mem_a_get] = Contract(A.mem_a_get, rd(AM.KIND_A, cur), areq, engine=True)
    C[A.mem_u_get] = Contract(A.mem_u_get, rd(AM.KIND_U, cur), areq, engine=True)
    C[A.mem_u_unpriv_get] = Contract(A.mem_u_unpriv_get, rd(AM.KIND_U, unp), areq, engine=True)
    C[A.mem_a_set] = Contract(A.mem_a_set, wr(AM.KIND_A, cur), wreq, engine=True)
    C[A.mem_u_set] = Contract(A.mem_u_set, wr(AM.KIND_U, cur), wreq, engine=True)
    C[A.mem_u_unpriv_set] = Contract(A.mem_u_unpriv_set, wr(AM.KIND_U, unp), wreq, engine=True)

    def translate_spec(eng, cpu, va, ispriv, iswrite, size, wasaligned):
        mem = cpu.attrs['mem']
        if eng.istrue(AM.mem_fault(mem.term, AM.KIND_X, sym.truth(ispriv), va, 1, sym.truth(iswrite))):
            mem.accesses.append((AM.KIND_X, 'Xfault', va, size, None))
            raise_abort(eng, cpu, AM.KIND_X)
        n = len(mem.accesses)
        mem.accesses.append((AM.KIND_X, 'X', va, size, None))
        ma = eng.new_obj(mods.memory_attributes.MemoryAttributes, {
            'type': mods.memory_attributes.MemType.NORMAL, 'innerattrs': 0, 'outerattrs': 0, 'innerhints': 0,
            'outerhints': 0, 'innertransient': False, 'outertransient': False,
            'shareable': eng.fresh_bool('xlat%d.shareable' % n), 'outershareable': eng.fresh_bool('xlat%d.outershareable' % n)})
        fa = eng.new_obj(mods.full_address.FullAddress, {'physicaladdress': eng.fresh_int('xlat%d.pa' % n, 40), 'ns': 0})
        return eng.new_obj(mods.address_descriptor.AddressDescriptor, {'memattrs': ma, 'paddress': fa})
    C[A.translate_address] = Contract(A.translate_address, translate_spec,
                                      lambda eng, cpu, va, *r: u32(va), engine=True)

    def alignment_fault_spec(eng, cpu, address, iswrite):
        cpu.attrs['mem'].accesses.append((AM.KIND_X, 'alignfault', address, 0, None))
        raise_abort(eng, cpu, AM.KIND_X)
    C[A.alignment_fault] = Contract(A.alignment_fault, alignment_fault_spec, engine=True)
    return C, raise_abort
