"""Loads the live repository modules (from VERIF_REPO or /repo) and assembles the contract registry."""
import importlib
import os
import sys
import types

_cache = {}


def repo_path():
    return os.environ.get('VERIF_REPO', '/repo')


def mods():
    """namespace of live repo modules"""
    if 'mods' in _cache:
        return _cache['mods']
    sys.dont_write_bytecode = True
    p = repo_path()
    if p not in sys.path:
        sys.path.insert(0, p)
    ns = types.SimpleNamespace()
    base = 'armulator.armv6'
    for name in ('bits_ops', 'shift', 'registers', 'arm_v6', 'configurations', 'enums', 'arm_exceptions',
                 'memory_controller_hub', 'memory_types', 'memory_attributes', 'address_descriptor', 'full_address',
                 'permissions', 'tlb_record'):
        setattr(ns, name, importlib.import_module('%s.%s' % (base, name)))
    ns.abstract_register = importlib.import_module(base + '.all_registers.abstract_register')
    ns.cpsr = importlib.import_module(base + '.all_registers.cpsr')
    ns.decode_instruction = importlib.import_module(base + '.opcodes.decode_instruction')
    f = ns.bits_ops.__file__
    if not os.path.abspath(f).startswith(os.path.abspath(p)):
        raise RuntimeError('armulator imported from %s, expected under %s' % (f, p))
    _cache['mods'] = ns
    return ns


def l1():
    if 'l1' not in _cache:
        from . import l1 as m
        _cache['l1'] = m.build(mods())
    return _cache['l1'][0]


def srtype_codes():
    l1()
    return _cache['l1'][1]


def regview():
    if 'regview' not in _cache:
        from . import regview as m
        _cache['regview'] = m.build(mods())
    return _cache['regview']


def register_classes():
    """live AbstractRegister subclasses by name"""
    if 'regclasses' not in _cache:
        import pkgutil
        import inspect
        pkg = importlib.import_module('armulator.armv6.all_registers')
        AR = mods().abstract_register.AbstractRegister
        out = {}
        for mi in pkgutil.iter_modules(pkg.__path__):
            m = importlib.import_module('armulator.armv6.all_registers.' + mi.name)
            for n, c in vars(m).items():
                if inspect.isclass(c) and issubclass(c, AR) and c is not AR and c.__module__ == m.__name__:
                    out[n] = c
        _cache['regclasses'] = out
    return _cache['regclasses']


def l2():
    if 'l2' not in _cache:
        from . import l2 as m
        _cache['l2'] = m.build(mods())
    return _cache['l2']


def l5():
    if 'l5' not in _cache:
        from . import l5 as m
        _cache['l5'] = m.build(mods())
    return _cache['l5'][0]


def l5_raise_abort():
    l5()
    return _cache['l5'][1]
