"""L2 contracts: Registers accessors (banking, SPSR selection, mode predicates).

They operate directly on the engine heap record of the Registers object and share the banking
table of spec/state.py, so that a symbolic register number or mode never forks.
Host-level asserts of the bodies are modelled as exceptional outcomes (AssertionError paths),
value-range requirements as pre@callsite obligations.
"""
from pyvc.unit import Contract
from pyvc import sym
from pyvc.sym import land, lor, lnot, ite
from spec import state as ST
from spec.rt import bits, bit
from .l1 import c2i


def _R(self):
    return {k.name: v for k, v in self.attrs['_R'].items()}


def _store_R(self, new):
    d = self.attrs['_R']
    for k in list(d.keys()):
        d[k] = new[k.name]


def cfg(eng, key):
    return eng.cfg[key]


def cpsr_value(self):
    return self.attrs['cpsr'].attrs['value']


def mode_of(self):
    return bits(cpsr_value(self), 4, 0)


def u32(v):
    return land(v >= 0, v <= 0xFFFFFFFF)


def build(mods):
    Rg = mods.registers.Registers
    InstrSet = mods.enums.InstrSet
    C = {}

    def is_secure_spec(eng, self):
        return lor(lnot(cfg(eng, 'have_security_ext')), bit(self.attrs['scr'].attrs['value'], 0) == 0,
                   mode_of(self) == ST.MON)

    def bad_mode_spec(eng, self, mode):
        return ST.bad_mode(mode, cfg(eng, 'have_security_ext'), cfg(eng, 'have_virt_ext'))

    def unpred_if(eng, c):
        eng.path.unpred = lor(eng.path.unpred, c)

    def cur_mode_pred(fn_mode):
        def spec(eng, self):
            m = mode_of(self)
            unpred_if(eng, bad_mode_spec(eng, self, m))
            return fn_mode(m)
        return spec

    C[Rg.is_secure] = Contract(Rg.is_secure, is_secure_spec, engine=True)
    C[Rg.bad_mode] = Contract(Rg.bad_mode, bad_mode_spec, engine=True)
    C[Rg.current_mode_is_not_user] = Contract(Rg.current_mode_is_not_user, cur_mode_pred(lambda m: m != ST.USR), engine=True)
    C[Rg.current_mode_is_hyp] = Contract(Rg.current_mode_is_hyp, cur_mode_pred(lambda m: m == ST.HYP), engine=True)
    C[Rg.current_mode_is_user_or_system] = Contract(Rg.current_mode_is_user_or_system,
                                                    cur_mode_pred(lambda m: lor(m == ST.USR, m == ST.SYS)), engine=True)

    def n_check(eng, n, hi):
        eng.host_check(sym.zb(land(n >= 0, n <= hi)), AssertionError, '0 <= n <= %d' % hi)

    def rmode_unpred(eng, self, mode, n):
        ns = lnot(is_secure_spec(eng, self))
        unpred_if(eng, land(ns, mode == ST.MON))
        unpred_if(eng, land(ns, mode == ST.FIQ, bit(self.attrs['nsacr'].attrs['value'], 19) == 1))
        unpred_if(eng, land(n >= 8, bad_mode_spec(eng, self, mode)))      # the bank is consulted for R8..R14 only

    def get_rmode_spec(eng, self, n, mode):
        n_check(eng, n, 14)
        rmode_unpred(eng, self, mode, n)
        return ST.rget(_R(self), n, mode)

    def set_rmode_spec(eng, self, n, mode, value):
        n_check(eng, n, 14)
        rmode_unpred(eng, self, mode, n)
        value = c2i(value)
        unpred_if(eng, land(n == 13, bits(value, 1, 0) != 0, ST.iset(cpsr_value(self)) != ST.ISET_ARM))
        _store_R(self, ST.rset(_R(self), n, mode, value))
        eng.wrote()

    def value_req(eng, self, n, mode, value):
        return u32(c2i(value)) if sym.is_intlike(value) else False

    C[Rg.get_rmode] = Contract(Rg.get_rmode, get_rmode_spec, engine=True)
    C[Rg.set_rmode] = Contract(Rg.set_rmode, set_rmode_spec, value_req, engine=True)

    def get_spec(eng, self, n):
        n_check(eng, n, 15)
        R = _R(self)
        if isinstance(n, int) and n == 15:
            return ST.pc_read({'R.PC': R['PC'], 'cpsr': cpsr_value(self)})
        if isinstance(n, int):
            rmode_unpred(eng, self, mode_of(self), n)
            return ST.rget(R, n, mode_of(self))
        pcv = ST.pc_read({'R.PC': R['PC'], 'cpsr': cpsr_value(self)})
        is15 = n == 15
        # the UNPREDICTABLE checks of get_rmode apply only when n != 15
        ns = lnot(is_secure_spec(eng, self))
        m = mode_of(self)
        unpred_if(eng, land(lnot(is15), lor(land(ns, m == ST.MON),
                                             land(ns, m == ST.FIQ, bit(self.attrs['nsacr'].attrs['value'], 19) == 1),
                                             land(n >= 8, bad_mode_spec(eng, self, m)))))
        return ite(is15, pcv, ST.rget(R, ite(is15, 0, n), m))

    def set_spec(eng, self, n, value):
        n_check(eng, n, 14)
        ch = self.attrs['changed_registers']
        if isinstance(n, int):
            ch[n] = True
        else:
            ch[:] = [ite(n == i, True, ch[i]) for i in range(16)]
        set_rmode_spec(eng, self, n, mode_of(self), value)

    C[Rg.get] = Contract(Rg.get, get_spec, engine=True)
    C[Rg.set] = Contract(Rg.set, set_spec, lambda eng, self, n, value: u32(c2i(value)) if sym.is_intlike(value) else False,
                         engine=True)

    def branch_to_spec(eng, self, address):
        self.attrs['changed_registers'][15] = True
        d = self.attrs['_R']
        for k in d:
            if k.name == 'PC':
                d[k] = address
        eng.wrote()
    C[Rg.branch_to] = Contract(Rg.branch_to, branch_to_spec,
                               lambda eng, self, address: u32(address) if sym.is_intlike(address) else False, engine=True)

    def get_spsr_spec(eng, self):
        m = mode_of(self)
        st = {'spsr_' + nm: self.attrs['spsr_' + nm] for nm in ST.SPSRS}
        unpred_if(eng, lor(bad_mode_spec(eng, self, m), m == ST.USR, m == ST.SYS))
        return ite(bad_mode_spec(eng, self, m), 0, ST.spsr_get(st, m))

    def set_spsr_spec(eng, self, value):
        m = mode_of(self)
        bad = bad_mode_spec(eng, self, m)
        unpred_if(eng, lor(bad, m == ST.USR, m == ST.SYS))
        for nm in ST.SPSRS:
            self.attrs['spsr_' + nm] = ite(land(lnot(bad), m == ST.SPSR_MODE[nm]), value, self.attrs['spsr_' + nm])
        eng.wrote()
    C[Rg.get_spsr] = Contract(Rg.get_spsr, get_spsr_spec, engine=True)
    C[Rg.set_spsr] = Contract(Rg.set_spsr, set_spsr_spec,
                              lambda eng, self, value: u32(value) if sym.is_intlike(value) else False, engine=True)

    def current_instr_set_spec(eng, self):
        s = ST.iset(cpsr_value(self))
        if isinstance(s, int):
            return InstrSet(s)
        for mbr in (InstrSet.ARM, InstrSet.THUMB, InstrSet.JAZELLE):
            if eng.istrue(s == mbr.value):
                return mbr
        return InstrSet.THUMB_EE
    C[Rg.current_instr_set] = Contract(Rg.current_instr_set, current_instr_set_spec, engine=True)
    # configuration accessor that builds a dict literal on every call (an allocation inside merged arms)
    CF = mods.configurations
    C[CF.memory_system_architecture] = Contract(
        CF.memory_system_architecture,
        lambda eng: {'PMSA': mods.enums.MemArch.PMSA, 'VMSA': mods.enums.MemArch.VMSA}[eng.cfg['memory_system_architecture']], engine=True)
    return C
