"""L1 contracts: bits_ops.* and shift.* bound to the ARM pseudocode specs of spec/prims.py.

Each entry: function -> (requires, spec).  `requires` is the weakest precondition under
which the body meets the spec (derived from the bodies and their call sites); at call
sites above L1 it becomes a `pre@callsite` obligation and the call is replaced by `spec`.
"""
from pyvc.unit import Contract
from pyvc import sym
from pyvc.sym import land, lor, lnot, ite, cmp
from spec import prims as P
from spec.rt import bits, bit, sint, uint, b2i


def in_range(x, n):
    """0 <= x < 2**n (n may be symbolic)"""
    return land(x >= 0, x < (1 << n))


def is01(c):
    if isinstance(c, (bool, sym.SymBool)):
        return True
    return land(c >= 0, c <= 1)


def c2i(c):
    """bool/0-1 int -> int"""
    if isinstance(c, bool):
        return int(c)
    if isinstance(c, sym.SymBool):
        return sym.lift(c)
    return c


def popcount_any(x):
    if isinstance(x, int):
        return bin(x).count('1')
    x = sym.lift(x)
    return sym.popcount(x, max(x.hi.bit_length(), 1))


def build(mods):
    """mods: namespace with live modules bits_ops, shift. Returns {function: Contract}."""
    bo, sh = mods.bits_ops, mods.shift
    SR = sh.SRType
    code_of = {SR.LSL: P.LSL, SR.LSR: P.LSR, SR.ASR: P.ASR, SR.ROR: P.ROR, SR.RRX: P.RRX}
    member_of = {v: k for k, v in code_of.items()}
    C = {}

    def reg(fn, spec, requires=None, engine=False, note='', raises=None):
        C[fn] = Contract(fn, spec, requires, engine=engine, note=note, raises=raises)

    # ---- bits_ops
    reg(bo.add, lambda a, b, n: uint(a + b, n), lambda a, b, n: n >= 0)
    reg(bo.sub, lambda a, b, n: uint(a - b, n), lambda a, b, n: n >= 0)
    reg(bo.to_unsigned, lambda b, n: uint(b, n), lambda b, n: n >= 0)
    reg(bo.lower_chunk, lambda b, n: uint(b, n), lambda b, n: n >= 0)
    reg(bo.to_signed, lambda b, n: sint(b, n), lambda b, n: land(n >= 1, in_range(b, n)))
    reg(bo.sign_extend, lambda x, s, d: uint(sint(x, s), d), lambda x, s, d: land(s >= 1, d >= 0, in_range(x, s)))
    reg(bo.add_with_carry, lambda x, y, c, size=32: P.AddWithCarry(x, y, c2i(c), size),
        lambda x, y, c, size=32: land(size >= 1, in_range(x, size), in_range(y, size), is01(c)))
    reg(bo.signed_sat_q, lambda i, n: P.SignedSatQ(i, n), lambda i, n: n >= 1)
    reg(bo.unsigned_sat_q, lambda i, n: P.UnsignedSatQ(i, n), lambda i, n: n >= 0)
    reg(bo.signed_sat, lambda i, n: P.SignedSatQ(i, n)[0], lambda i, n: n >= 1)
    reg(bo.unsigned_sat, lambda i, n: P.UnsignedSatQ(i, n)[0], lambda i, n: n >= 0)

    def sat_q_spec(i, n, unsigned):
        u, s = P.UnsignedSatQ(i, n), P.SignedSatQ(i, ite(n >= 1, n, 1) if sym.is_sym(n) else max(n, 1))
        return ite(unsigned, u[0], s[0]), ite(unsigned, u[1], s[1])
    reg(bo.sat_q, sat_q_spec, lambda i, n, unsigned: ite(unsigned, n >= 0, n >= 1))
    reg(bo.sat, lambda i, n, unsigned: sat_q_spec(i, n, unsigned)[0], lambda i, n, unsigned: ite(unsigned, n >= 0, n >= 1))
    reg(bo.align, lambda x, y: P.Align(x, y), lambda x, y: y > 0)
    reg(bo.lowest_set_bit_ref, lambda x, length=32: P.LowestSetBit(x, length),
        lambda x, length=32: land(length >= 0, in_range(x, length)))
    reg(bo.substring, lambda b, m, l: uint(b, m + 1) >> l, lambda b, m, l: land(m >= -1, l >= 0))
    reg(bo.bit_at, lambda b, i: (b >> i) & 1, lambda b, i: i >= 0)
    reg(bo.bit_not, lambda b, n: ((1 << n) - 1) - b, lambda b, n: land(n >= 0, in_range(b, n)))

    def set_substring_spec(b, m, l, v):
        v = c2i(v)
        if isinstance(m, int) and isinstance(l, int) and m >= l >= 0:
            return ((b >> (m + 1)) << (m + 1)) | (v << l) | uint(b, l)
        return b - (bits_sym(b, m, l) << l) + (v << l)

    def bits_sym(b, m, l):
        return uint(b, m + 1) >> l
    reg(bo.set_substring, set_substring_spec,
        lambda b, m, l, v: land(l >= 0, m >= l, m < 256, in_range(b, 256), c2i(v) >= 0, c2i(v) < (1 << ite(m >= l, m - l + 1, 0))))
    reg(bo.set_bit_at, lambda b, i, v: set_substring_spec(b, i, i, v),
        lambda b, i, v: land(i >= 0, i < 256, in_range(b, 256), is01(v)))
    reg(bo.chain, lambda h, l, n: (h << n) + l, lambda h, l, n: n >= 0)
    reg(bo.bit_count, lambda b, bt, n: ite(bt, popcount_any(b), n - popcount_any(b)), lambda b, bt, n: b >= 0)
    reg(bo.big_endian_reverse, lambda v, n: P.BigEndianReverse(v, n), lambda v, n: in_range(v, 8 * n),
        raises=[(lambda v, n: lnot(lor(n == 1, n == 2, n == 4, n == 8)), AssertionError)])
    reg(bo.is_ones, lambda b, n: popcount_any(b) == n, lambda b, n: b >= 0)

    # ---- shift
    def decode_imm_shift_spec(eng, t, imm5):
        st, n = P.DecodeImmShift(t, imm5)
        if isinstance(st, int):
            return member_of[st], n
        # fork over the (at most five) shift types so that callers see a concrete enum member
        for code in (P.LSL, P.LSR, P.ASR, P.ROR):
            if eng.istrue(st == code):
                return member_of[code], n
        return member_of[P.RRX], n
    reg(sh.decode_imm_shift, decode_imm_shift_spec, lambda eng, t, i: land(i >= 0, i <= 31), engine=True,
        raises=[(lambda t, i: lnot(land(t >= 0, t <= 3)), UnboundLocalError)])

    def decode_reg_shift_spec(eng, t):
        if isinstance(t, int):
            return member_of[t]
        for code in (P.LSL, P.LSR, P.ASR):
            if eng.istrue(t == code):
                return member_of[code]
        return member_of[P.ROR]
    reg(sh.decode_reg_shift, decode_reg_shift_spec, engine=True,
        raises=[(lambda t: lnot(land(t >= 0, t <= 3)), UnboundLocalError)])

    rng = lambda x, N: land(N >= 1, in_range(x, N))
    reg(sh.lsl_c, lambda x, N, s: P.LSL_C(x, N, s), lambda x, N, s: rng(x, N), raises=[(lambda x, N, s: lnot(s > 0), AssertionError)])
    reg(sh.lsr_c, lambda x, N, s: P.LSR_C(x, N, s), lambda x, N, s: rng(x, N), raises=[(lambda x, N, s: lnot(s > 0), AssertionError)])
    reg(sh.asr_c, lambda x, N, s: P.ASR_C(x, N, s), lambda x, N, s: rng(x, N), raises=[(lambda x, N, s: lnot(s > 0), AssertionError)])
    reg(sh.ror_c, lambda x, N, s: P.ROR_C(x, N, s), lambda x, N, s: rng(x, N), raises=[(lambda x, N, s: s == 0, AssertionError)])
    reg(sh.rrx_c, lambda x, N, c: P.RRX_C(x, N, c2i(c)), lambda x, N, c: land(rng(x, N), is01(c)))
    reg(sh.lsl, lambda x, N, s: ite(s == 0, x, P.LSL_C(x, N, ite(s == 0, 1, s))[0]), lambda x, N, s: land(s >= 0, rng(x, N)))
    reg(sh.lsr, lambda x, N, s: ite(s == 0, x, P.LSR_C(x, N, ite(s == 0, 1, s))[0]), lambda x, N, s: land(s >= 0, rng(x, N)))
    reg(sh.asr, lambda x, N, s: ite(s == 0, x, P.ASR_C(x, N, ite(s == 0, 1, s))[0]), lambda x, N, s: land(s >= 0, rng(x, N)))
    reg(sh.ror, lambda x, N, s: ite(s == 0, x, P.ROR_C(x, N, ite(s == 0, 1, s))[0]), lambda x, N, s: rng(x, N))
    reg(sh.rrx, lambda x, N, c: P.RRX_C(x, N, c2i(c))[0], lambda x, N, c: land(rng(x, N), is01(c)))

    def shift_c_req(v, N, t, a, c):
        if t not in code_of:
            return False
        return land(a >= 0, rng(v, N), is01(c))

    shift_c_raises = [(lambda v, N, t, a, c: (a != 1) if t is SR.RRX else False, AssertionError)]

    def shift_c_spec(v, N, t, a, c):
        return P.Shift_C(v, N, code_of[t], a, c2i(c))
    reg(sh.shift_c, shift_c_spec, shift_c_req, raises=shift_c_raises)
    reg(sh.shift, lambda v, N, t, a, c: shift_c_spec(v, N, t, a, c)[0], shift_c_req, raises=shift_c_raises)
    reg(sh.arm_expand_imm_c, lambda i, c: P.ARMExpandImm_C(i, c2i(c)), lambda i, c: land(i >= 0, is01(c)))
    reg(sh.arm_expand_imm, lambda i: P.ARMExpandImm(i), lambda i: i >= 0)

    def thumb_expand_imm_c_spec(eng, i, c):
        v, co, unp = P.ThumbExpandImm_C(i, c2i(c))
        eng.path.unpred = lor(eng.path.unpred, unp)
        return v, co
    reg(sh.thumb_expand_imm_c, thumb_expand_imm_c_spec, lambda eng, i, c: land(i >= 0, i < 4096, is01(c)), engine=True)
    reg(sh.thumb_expand_imm, lambda eng, i: thumb_expand_imm_c_spec(eng, i, 0)[0], lambda eng, i: land(i >= 0, i < 4096),
        engine=True)
    return C, code_of
