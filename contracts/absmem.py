"""Abstract memory system used above L4 (opcode and step level).

MemRead/MemWrite/Fault are *uninterpreted* functions of an abstract memory-system token, the access kind
(aligned MemA / unaligned-capable MemU / address-translation only), the privilege of the access, the 32-bit
address and the size.  An opcode proof therefore holds for every translation regime, endianness setting and
fault pattern; what the functions really are is proved at L4 (C13-C16).
"""
try:
    import z3
except ImportError:
    z3 = None

from pyvc import sym
from pyvc.sym import SymInt, SymBool

MemSort = z3.DeclareSort('MemSys') if z3 is not None else None
KIND_A, KIND_U, KIND_X = 0, 1, 2       # MemA, MemU, translation-only (exclusive monitors)
_fn = {}


def F(name, *sorts):
    if name not in _fn:
        _fn[name] = z3.Function(name, *sorts)
    return _fn[name]


def _addr(a):
    return sym.fit(sym.lift(a), 33) if not isinstance(a, int) else z3.BitVecVal(a, 33)


def _bv(v, n):
    if isinstance(v, int):
        return z3.BitVecVal(v, n)
    return sym.fit(sym.lift(v), n)


def _b(x):
    return sym.zb(x)


def mem_read(mem, kind, priv, addr, size):
    """value of the access (unsigned, 8*size bits)"""
    f = F('MemRead%d' % size, MemSort, z3.BitVecSort(2), z3.BoolSort(), z3.BitVecSort(33), z3.BitVecSort(8 * size))
    t = f(mem, z3.BitVecVal(kind, 2), _b(priv), _addr(addr))
    return SymInt(z3.ZeroExt(1, t), 0, (1 << (8 * size)) - 1)


def mem_write(mem, kind, priv, addr, size, value):
    f = F('MemWrite%d' % size, MemSort, z3.BitVecSort(2), z3.BoolSort(), z3.BitVecSort(33), z3.BitVecSort(8 * size + 1), MemSort)
    return f(mem, z3.BitVecVal(kind, 2), _b(priv), _addr(addr), _bv(value, 8 * size + 1))


def mem_fault(mem, kind, priv, addr, size, iswrite):
    f = F('MemFault%d' % size, MemSort, z3.BitVecSort(2), z3.BoolSort(), z3.BitVecSort(33), z3.BoolSort(), z3.BoolSort())
    return SymBool(f(mem, z3.BitVecVal(kind, 2), _b(priv), _addr(addr), _b(iswrite)))


def mem_ite(c, a, b):
    return z3.If(sym.zb(c), a, b)


class AbsMem:
    """engine heap object standing for `processor.mem` and the whole translation machinery at L5"""
    sym_class = object

    def __init__(self, eng, name='mem0'):
        self.term = z3.Const(name, MemSort)
        self.init = self.term
        self.accesses = []          # (kind, 'R'/'W', addr, size, value) for reports and model extraction
        self.fault_info = None      # dict set when an access faulted on this path
        eng.register(self)

    # engine snapshot protocol
    def snap(self):
        return (self.term, list(self.accesses), self.fault_info)

    def restore(self, s):
        self.term, self.accesses, self.fault_info = s[0], list(s[1]), s[2]

    def mergeable(self, snaps, vals_ok):
        return all(s[2] is snaps[0][2] for s in snaps)

    def merge(self, conds, snaps, mergevals):
        t = snaps[-1][0]
        for c, s in zip(reversed(conds[:-1]), reversed(snaps[:-1])):
            if not s[0].eq(t):
                t = z3.If(c, s[0], t)
        self.term = t
        # access logs (reports, model extraction, the UNKNOWN-store oracle): logs of the same shape are merged entry-wise,
        # otherwise the longest one is kept
        logs = [s[1] for s in snaps]
        same = all(len(l) == len(logs[0]) and all((a[0], a[1], a[3]) == (b[0], b[1], b[3]) for a, b in zip(l, logs[0])) for l in logs)
        if same and logs[0]:
            out = []
            for j, e in enumerate(logs[0]):
                col = [l[j] for l in logs]
                try:
                    addr = col[0][2] if all(x[2] is col[0][2] for x in col) else mergevals(conds, [x[2] for x in col])
                    val = col[0][4] if all(x[4] is col[0][4] for x in col) else (
                        None if any(x[4] is None for x in col) else mergevals(conds, [x[4] for x in col]))
                except Exception:       # noqa
                    addr, val = e[2], e[4]
                out.append((e[0], e[1], addr, e[3], val))
            self.accesses = out
        else:
            self.accesses = max(logs, key=len)
        self.fault_info = snaps[0][2]
