"""Instruction families: which functional property owns an (abstract) opcode module."""
import re

DP = ('adc', 'add', 'adr', 'and', 'asr', 'bic', 'cmn', 'cmp', 'eor', 'lsl', 'lsr', 'mov', 'movt', 'mvn', 'orn', 'orr',
      'ror', 'rrx', 'rsb', 'rsc', 'sbc', 'sub', 'teq', 'tst')
LS = ('ldr', 'ldrb', 'ldrh', 'ldrsb', 'ldrsh', 'ldrd', 'ldrt', 'ldrbt', 'ldrht', 'ldrsbt', 'ldrsht', 'ldrex', 'ldrexb',
      'ldrexh', 'ldrexd', 'str', 'strb', 'strh', 'strd', 'strt', 'strbt', 'strht', 'strex', 'strexb', 'strexh', 'strexd',
      'clrex', 'pld')
BLOCK = ('ldm', 'ldmda', 'ldmdb', 'ldmib', 'stm', 'stmda', 'stmdb', 'stmib', 'push', 'pop', 'srs', 'rfe')
BRANCH = ('b', 'bl', 'blx', 'bx', 'bxj', 'cbz', 'tbb')
SYSTEM = ('msr', 'mrs', 'cps', 'setend', 'subs', 'eret', 'nop', 'yield', 'wfe', 'wfi', 'sev', 'mcr', 'mrc', 'mcrr', 'mrrc',
          'cdp', 'ldc', 'stc', 'svc', 'smc', 'bkpt', 'udf', 'dsb', 'isb', 'enterx', 'it')


def family_of_module(modname):
    """modname: last component of the abstract opcode's module, e.g. 'adc_register'"""
    head = modname.split('_')[0]
    if modname.startswith('subs_pc_lr') or modname.startswith('ldm_exception_return'):
        return 'C12'
    if head in BLOCK:
        return 'C03'
    if head in LS:
        return 'C02'
    if head in BRANCH:
        return 'C04'
    if head in SYSTEM:
        return 'C12'
    if head in DP:
        return 'C01'
    return 'C09'


def family_of_class(cls):
    """property owning the opcode class `cls` (a live class) via its abstract base's module"""
    for k in cls.__mro__:
        m = getattr(k, '__module__', '')
        if '.abstract_opcodes.' in m:
            return family_of_module(m.rsplit('.', 1)[-1])
    return None
