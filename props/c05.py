"""C05 — conditional execution.
(a) current_cond / condition_passed against CurrentCond()/ConditionPassed() for every opcode word, length,
    ITSTATE and NZCV (16 conditions x 16 flag values decided by the solver, per instruction-set state);
(b) safe.noop in every step unit (props/step.py): a failed condition leaves everything but PC/ITSTATE unchanged.
"""
from contracts import registry
from pyvc.unit import U, R, K
from spec import psr as PSR
from spec import state as ST
from spec.rt import bits, bit, lnot, land, lor, implies, ite
from . import step
from .c11 import valid
from .common import method_unit

ASSUMPTIONS = step.ASSUMPTIONS


def fn_units():
    m = registry.mods()
    A = m.arm_v6.ArmV6
    base = {}
    base.update(registry.l1())
    base.update(registry.regview())
    base.update(registry.l2())
    out = []
    for iset, tbit in (('arm', 0), ('thumb', 1)):
        fixed = {'cpsr': (lambda e, lf, tbit=tbit: (e.fresh_int('cpsr', 32) & ~((1 << 24) | (1 << 5))) | (tbit << 5)),
                 'cpu.opcode_len': (lambda e, lf, iset=iset: 32 if iset == 'arm' else ite(e.fresh_bool('len32'), 32, 16))}

        def pre(init, iset=iset):
            it = ST.cpsr_field(init['cpsr'], 'it')
            oplen = init['cpu.opcode_len']
            ok_word = True if iset == 'arm' else implies(oplen == 16, init['cpu.opcode'] < 65536)
            return land(valid(init), ok_word, (it == 0) if iset == 'arm' else True)

        def cc(st, iset=iset):
            c, unp = PSR.current_cond(iset, st['cpu.opcode'], st['cpu.opcode_len'], st['cpsr'])
            return ite(unp, 0, c), unp, None

        def cp(st, iset=iset):
            p, unp = PSR.condition_passed(iset, st['cpu.opcode'], st['cpu.opcode_len'], st['cpsr'])
            return p, unp, None
        out.append(method_unit('C05', A.current_cond, [], on='cpu', spec=cc, contracts=base, assume=pre, fixed=fixed, case=iset))
        out.append(method_unit('C05', A.condition_passed, [], on='cpu', spec=cp, contracts=base, assume=pre, fixed=fixed, case=iset,
                               merge_calls={A.current_cond}))
    for u in out:
        u.props = ['C05', 'C08']        # C08 (each instruction of an IT block runs under the block's condition) depends on them
    return out


def units(tier):
    return fn_units() + step.units(tier)
