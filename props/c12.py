"""C12 — system instructions: PSR write masks (function level) + the step-level obligations of system opcodes."""
from contracts import registry
from pyvc.unit import U, R, Flag
from spec import psr as PSR
from spec import state as ST
from spec.rt import bits, lnot, land, implies
from . import step
from .c11 import valid
from .common import method_unit

ASSUMPTIONS = step.ASSUMPTIONS


def fn_units():
    m = registry.mods()
    Rg = m.registers.Registers
    base = {}
    base.update(registry.l1())
    base.update(registry.regview())
    base.update(registry.l2())
    out = []
    out.append(method_unit('C12', Rg.cpsr_write_by_instr,
                           [('value', U(32)), ('bytemask', U(4)), ('is_excp_return', Flag())], on='regs',
                           spec=PSR.cpsr_write_by_instr, contracts=base, assume=valid))
    out.append(method_unit('C12', Rg.spsr_write_by_instr, [('value', U(32)), ('bytemask', U(4))], on='regs',
                           spec=PSR.spsr_write_by_instr, contracts=base, assume=valid))
    return out


def roundtrip_units():
    """spec-level lemma over two verified contracts: exception entry (spec/exceptions.py, proved equal to the code in
    C11) followed by the standard return instruction of that exception (SUBS PC, LR, #imm: spec/ops_sys.py, proved equal
    to the code by the step units) resumes the interrupted program with CPSR, registers and PC intact."""
    from pyvc.unit import Unit, values_eq
    from pyvc import sym
    from pyvc.sym import lor, ite
    from spec import exceptions as EXC
    from spec import ops_sys as SYS
    from spec.cpu import Cpu
    from spec.rt import bit
    from . import machine as MC
    SUFFIX = {ST.SVC: 'svc', ST.UND: 'und', ST.IRQ: 'irq', ST.FIQ: 'fiq', ST.ABT: 'abt'}
    KINDS = {
        # kind: (entry transformer, handler mode, return offset, resumed PC relative to the interrupted instruction)
        'svc': (lambda st: EXC.take_svc(st), ST.SVC, 0, 'next'),
        'undef': (lambda st: EXC.take_undef_instr(st), ST.UND, 0, 'next'),
        'irq': (lambda st: EXC.take_physical_irq(st), ST.IRQ, 4, 'same'),
        'fiq': (lambda st: EXC.take_physical_fiq(st), ST.FIQ, 4, 'same'),
        'dabort': (lambda st: EXC.take_data_abort(st, False, False), ST.ABT, 8, 'same'),
    }
    out = []
    for kind, (entry, hmode, off, resume) in KINDS.items():
        for src in ('arm', 'thumb'):
            def symbolic(eng, kind=kind, entry=entry, hmode=hmode, off=off, resume=resume, src=src):
                tbit = 0 if src == 'arm' else 1
                fixed = {'cpsr': lambda e, lf: (e.fresh_int('cpsr', 32) & ~((1 << 24) | (1 << 5))) | (tbit << 5)}
                mach = MC.SymMachine(eng, 'PMSA', 1, fixed=fixed)
                st0 = dict(mach.init)
                cfg = mach.configs
                c0 = st0['cpsr']
                m0 = bits(c0, 4, 0)
                eng.assume(lnot(ST.bad_mode(m0, cfg['have_security_ext'], cfg['have_virt_ext'])))
                eng.assume(land(m0 != ST.HYP, m0 != ST.MON))       # exceptions taken from Hyp/Monitor mode return differently
                eng.assume(bits(c0, 23, 20) == 0)
                it0 = ST.cpsr_field(c0, 'it')
                eng.assume(it0 == 0 if src == 'arm' else implies(bits(it0, 3, 0) == 0, it0 == 0))
                eng.assume(bits(st0['R.PC'], 1 if src == 'arm' else 0, 0) == 0)
                # the exception is taken to its own mode (not routed to Monitor or Hyp mode)
                st1 = dict(st0)
                entry(st1)
                eng.assume(bits(st1['cpsr'], 4, 0) == hmode)
                if not eng.prefix:
                    eng.cover('an interrupted state exists')
                # handler returns with SUBS PC, LR, #off in the handler's instruction set (SCTLR.TE)
                outs = []
                for hset in ('arm', 'thumb'):
                    k = Cpu(dict(st1), hset, 0, 32)
                    if hset == 'arm':
                        SYS.op_subs_pc_lr_arm(k, 0b0010, 14, off)
                    else:
                        SYS.op_subs_pc_lr_thumb(k, 14, off)
                    outs.append(k)
                te = bit(st0['sctlr'], 30) == 1
                ka, kt = outs
                dc = ite(te, lor(kt.unpred, kt.unknown, kt.undef), lor(ka.unpred, ka.unknown, ka.undef))
                oplen = 4 if src == 'arm' else None
                named = []
                for leaf, v0 in st0.items():
                    if leaf.startswith('chg[') or leaf.startswith('cfg.') or leaf.startswith('cpu.') or leaf in step.SCRATCH:
                        continue            # per-step scratch of the implementation, not architectural state
                    v2 = ite(te, kt.st[leaf], ka.st[leaf]) if kt.st[leaf] is not ka.st[leaf] else ka.st[leaf]
                    if leaf == 'R.PC':
                        continue
                    if leaf in ('R.LR' + SUFFIX[hmode], 'spsr_' + SUFFIX[hmode]):
                        continue            # the handler mode's own LR and SPSR are clobbered by the entry
                    exp = v0
                    if leaf == 'cpsr' and kind == 'svc':
                        exp = ST.cpsr_with(c0, it=EXC.it_advance(it0))
                    named.append((leaf, lor(dc, values_eq(v2, exp))))
                eng.oblige_all('lemma', '%s from %s state: entry then SUBS PC,LR,#%d restores CPSR and every register but the handler LR/SPSR' % (kind, src, off), named)
                pc2 = ite(te, kt.st['R.PC'], ka.st['R.PC'])
                pc0 = st0['R.PC']
                if resume == 'same':
                    eng.oblige('lemma', '%s: execution resumes at the interrupted instruction' % kind, lor(dc, values_eq(pc2, pc0)))
                else:
                    # SVC is 4 (ARM) or 2 (Thumb T1) bytes long; the undefined instruction resumes after a 4/2-byte instruction
                    eng.oblige('lemma', '%s: execution resumes at the instruction after the one that raised it' % kind,
                               lor(dc, values_eq(pc2, (pc0 + (4 if src == 'arm' else 2)) & 0xFFFFFFFF)))

            def nreplay(inputs, ob):
                return False, 'spec-level lemma (no code involved)'
            out.append(Unit('C12/lemma:entry-return[%s,%s]' % (kind, src), ['C12'], symbolic, nreplay, {'contracts': {}}, meta={'inductive': True}))
    return out


def coproc_unit():
    """Coproc_Accepted() for the generic coprocessors (p0-p9, p12, p13): the access-control registers NSACR and CPACR
    decide, by privilege and security state, whether the instruction is UNDEFINED; with the Virtualization Extensions
    CPACR does not apply in Hyp mode and HCPTR.TCP<n> traps a Non-secure access to Hyp mode (UNDEFINED when already in
    Hyp mode).  Only accepted instructions reach the (mock) coprocessor decode.  HSR: exception class 0x07 and the
    coprocessor number are checked, the remaining syndrome bits are left to WriteHSR()."""
    from pyvc.unit import Unit, Contract, values_eq
    from pyvc.interp import PyRaise
    from pyvc import sym
    from pyvc.sym import lor, ite
    from spec.rt import bit
    from spec import exceptions as EXC
    from . import machine as MC
    m = registry.mods()
    A = m.arm_v6.ArmV6
    Rg = m.registers.Registers
    UND = m.arm_exceptions.UndefinedInstructionException
    uid = 'C12/fn:%s.ArmV6.coproc_accepted[generic coprocessors]' % A.__module__

    def spec_gate(st, cp):
        mode = bits(st['cpsr'], 4, 0)
        sec_ext, virt = st['cfg.have_security_ext'], st['cfg.have_virt_ext']
        secure = lor(lnot(sec_ext), bit(st['scr'], 0) == 0, mode == ST.MON)
        is_hyp = mode == ST.HYP
        ns_denied = land(sec_ext, lnot(secure), ((st['nsacr'] >> cp) & 1) == 0)
        applies = lor(lnot(virt), lnot(is_hyp))
        field = (st['cpacr'] >> (2 * cp)) & 3
        cp_denied = land(applies, lor(field == 0, land(field == 1, mode == ST.USR)))
        unpred = land(lnot(ns_denied), applies, field == 2)
        denied = lor(ns_denied, cp_denied)
        trap = land(lnot(denied), sec_ext, virt, lnot(secure), ((st['hcptr'] >> cp) & 1) == 1)
        return {'undef': lor(denied, land(trap, is_hyp)), 'trap': land(trap, lnot(is_hyp)), 'unpred': unpred}

    def symbolic(eng):
        mach = MC.SymMachine(eng, 'PMSA', 1)
        init = dict(mach.init)
        cfg = mach.configs
        eng.assume(lnot(ST.bad_mode(bits(init['cpsr'], 4, 0), cfg['have_security_ext'], cfg['have_virt_ext'])))
        eng.assume(valid(init))
        cp = eng.fresh_int('cp_num', 4)
        eng.assume(land(cp != 10, cp != 11, cp != 14, cp != 15))
        instr = eng.fresh_int('instr', 32)
        if not eng.prefix:
            eng.cover('state satisfiable')
        contracts = {}
        contracts.update(registry.l1())
        contracts.update(registry.regview())
        contracts.update(registry.l2())
        trapped = eng.register([])

        def rec(e, *a):
            trapped.append(1)
            return e.run_function(Rg.take_hyp_trap_exception, list(a), {})
        contracts[Rg.take_hyp_trap_exception] = Contract(Rg.take_hyp_trap_exception, rec, engine=True)
        eng.contracts = contracts
        raised = None
        try:
            eng.call(A.coproc_accepted, [mach.cpu, cp, instr])
        except PyRaise as e:
            raised = e.exc.cls
        g = spec_gate(init, cp)
        final = mach.read()
        if raised is not None and issubclass(raised, UND):
            eng.oblige('post', 'UNDEFINED only when NSACR / CPACR deny the access for this privilege and security state, or HCPTR traps it in Hyp mode',
                       lor(g['unpred'], g['undef']))
            exp = dict(init)
            exp['hsr'] = final['hsr']
            eng.oblige_all('frame', 'a rejected access changes no state (but the syndrome register when HCPTR traps it)',
                           [(k, values_eq(v, exp[k])) for k, v in final.items()])
            eng.oblige('post', 'HSR is written only for a trapped access', lor(g['unpred'], values_eq(final['hsr'], init['hsr']),
                                                                              land(bits(final['hsr'], 31, 26) == 0b000111, bits(final['hsr'], 3, 0) == cp)))
        elif raised is not None and issubclass(raised, NotImplementedError) and not trapped:
            eng.oblige('post', 'the coprocessor (mock decode) is reached without a trap only when the access is permitted and not trapped',
                       lor(g['unpred'], land(lnot(g['undef']), lnot(g['trap']))))
            eng.oblige_all('frame', 'the access check changes no state', [(k, values_eq(v, init[k])) for k, v in final.items()])
        elif raised is not None and issubclass(raised, NotImplementedError) and len(trapped) == 1:
            eng.oblige('post', 'the Hyp trap is taken only for a Non-secure access outside Hyp mode that HCPTR.TCP<n> traps', lor(g['unpred'], g['trap']))
            eng.oblige('post', 'the syndrome names the trapped coprocessor access (EC 0x07, coprocessor number)',
                       lor(g['unpred'], land(bits(final['hsr'], 31, 26) == 0b000111, bits(final['hsr'], 3, 0) == cp)))
            exp = dict(init)
            exp['hsr'] = final['hsr']
            EXC.take_hyp_trap(exp)
            eng.oblige_all('post', 'the trap entry is the architectural Hyp trap entry', [(k, lor(g['unpred'], values_eq(v, exp[k]))) for k, v in final.items()])
        else:
            eng.oblige('safe.host', 'coproc_accepted ends in %s (%d Hyp traps)' % (getattr(raised, '__name__', 'a normal return'), len(trapped)), False)

    def replay(inputs, ob):
        cpu = MC.native_cpu('PMSA', 1, fresh=True)
        MC.install_native(cpu, dict(inputs), 'PMSA', 1)
        init = MC.read_native(cpu, 'PMSA', 1)
        cfgs = registry.mods().configurations.configurations.configs
        for k in MC.CFG_BOOL + list(MC.CFG_INT):
            init['cfg.' + k] = cfgs.get(k)
        cp, instr = inputs.get('cp_num', 0), inputs.get('instr', 0)
        got = 'returned'
        trapped = []
        real_trap = cpu.registers.take_hyp_trap_exception
        cpu.registers.take_hyp_trap_exception = lambda: (trapped.append(1), real_trap())[1]
        import io
        import contextlib
        try:
            with contextlib.redirect_stdout(io.StringIO()):
                cpu.coproc_accepted(cp, instr)
        except Exception as e:      # noqa
            got = type(e).__name__
        g = spec_gate(init, cp)
        want = 'UNDEFINED' if g['undef'] else ('Hyp trap' if g['trap'] else 'accepted')
        real = 'UNDEFINED' if got == 'UndefinedInstructionException' else (('Hyp trap' if trapped else 'accepted') if got == 'NotImplementedError' else got)
        text = 'coproc_accepted(p%d) mode=%s scr=%s nsacr=%s cpacr=%s hcptr=%s: real %s ; architecture %s%s' % (
            cp, hex(init['cpsr'] & 31), hex(init['scr']), hex(init['nsacr']), hex(init['cpacr']), hex(init['hcptr']), real, want,
            ' (UNPREDICTABLE CPACR field)' if g['unpred'] else '')
        if g['unpred']:
            return False, text
        return real != want, text
    return Unit(uid, ['C12', 'C19'], symbolic, replay, {'contracts': {}}, meta={'function': '%s.ArmV6.coproc_accepted' % A.__module__})


def units(tier):
    return roundtrip_units() + [coproc_unit()] + fn_units() + step.units(tier)
