"""C12 — system instructions: PSR write masks (function level) + the step-level obligations of system opcodes."""
from contracts import registry
from pyvc.unit import U, R, Flag
from spec import psr as PSR
from spec import state as ST
from spec.rt import bits, lnot, land, implies
from . import step
from .c11 import valid
from .common import method_unit

ASSUMPTIONS = step.ASSUMPTIONS


def fn_units():
    m = registry.mods()
    Rg = m.registers.Registers
    base = {}
    base.update(registry.l1())
    base.update(registry.regview())
    base.update(registry.l2())
    out = []
    out.append(method_unit('C12', Rg.cpsr_write_by_instr,
                           [('value', U(32)), ('bytemask', U(4)), ('is_excp_return', Flag())], on='regs',
                           spec=PSR.cpsr_write_by_instr, contracts=base, assume=valid))
    out.append(method_unit('C12', Rg.spsr_write_by_instr, [('value', U(32)), ('bytemask', U(4))], on='regs',
                           spec=PSR.spsr_write_by_instr, contracts=base, assume=valid))
    return out


def units(tier):
    return fn_units() + step.units(tier)
