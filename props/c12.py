"""C12 — system instructions: PSR write masks (function level) + the step-level obligations of system opcodes."""
from contracts import registry
from pyvc.unit import U, R, Flag
from spec import psr as PSR
from spec import state as ST
from spec.rt import bits, lnot, land, implies
from . import step
from .c11 import valid
from .common import method_unit

ASSUMPTIONS = step.ASSUMPTIONS + [
    'Coproc_Accepted() CP14/CP15 units: the register-space decode hooks (cp14_debug/trace/jazelle_instr_decode, cp15_instr_decode) and '
    'instr_is_pl0_undefined() are mocks of the implementation (raise NotImplementedError); assumed contract: an arbitrary boolean, no state change',
    'Coproc_Accepted() regions left open (DESIGN 14.17): User mode with TEECR.XED = 1 and instr<0> = 1 in the ThumbEE space; HCR.TIDCP with '
    'CRn = 9, CRm = 1; HCR.TIDCP traps are checked in one direction only (a trap only where one is specified); ISS<0> of the ThumbEE trap syndrome',
]


def fn_units():
    m = registry.mods()
    Rg = m.registers.Registers
    base = {}
    base.update(registry.l1())
    base.update(registry.regview())
    base.update(registry.l2())
    out = []
    out.append(method_unit('C12', Rg.cpsr_write_by_instr,
                           [('value', U(32)), ('bytemask', U(4)), ('is_excp_return', Flag())], on='regs',
                           spec=PSR.cpsr_write_by_instr, contracts=base, assume=valid))
    out.append(method_unit('C12', Rg.spsr_write_by_instr, [('value', U(32)), ('bytemask', U(4))], on='regs',
                           spec=PSR.spsr_write_by_instr, contracts=base, assume=valid))
    for u in out:
        u.props.append('C19')          # what an unprivileged writer may change in the CPSR (A/I/F/M, SCR.AW/FW) is decided here
    return out


def roundtrip_units():
    """spec-level lemma over two verified contracts: exception entry (spec/exceptions.py, proved equal to the code in
    C11) followed by the standard return instruction of that exception (SUBS PC, LR, #imm: spec/ops_sys.py, proved equal
    to the code by the step units) resumes the interrupted program with CPSR, registers and PC intact."""
    from pyvc.unit import Unit, values_eq
    from pyvc import sym
    from pyvc.sym import lor, ite
    from spec import exceptions as EXC
    from spec import ops_sys as SYS
    from spec.cpu import Cpu
    from spec.rt import bit
    from . import machine as MC
    SUFFIX = {ST.SVC: 'svc', ST.UND: 'und', ST.IRQ: 'irq', ST.FIQ: 'fiq', ST.ABT: 'abt'}
    KINDS = {
        # kind: (entry transformer, handler mode, return offset, resumed PC relative to the interrupted instruction)
        'svc': (lambda st: EXC.take_svc(st), ST.SVC, 0, 'next'),
        'undef': (lambda st: EXC.take_undef_instr(st), ST.UND, 0, 'next'),
        'irq': (lambda st: EXC.take_physical_irq(st), ST.IRQ, 4, 'same'),
        'fiq': (lambda st: EXC.take_physical_fiq(st), ST.FIQ, 4, 'same'),
        'dabort': (lambda st: EXC.take_data_abort(st, False, False), ST.ABT, 8, 'same'),
    }
    out = []
    for kind, (entry, hmode, off, resume) in KINDS.items():
        for src in ('arm', 'thumb'):
            def symbolic(eng, kind=kind, entry=entry, hmode=hmode, off=off, resume=resume, src=src):
                tbit = 0 if src == 'arm' else 1
                fixed = {'cpsr': lambda e, lf: (e.fresh_int('cpsr', 32) & ~((1 << 24) | (1 << 5))) | (tbit << 5)}
                mach = MC.SymMachine(eng, 'PMSA', 1, fixed=fixed)
                st0 = dict(mach.init)
                cfg = mach.configs
                c0 = st0['cpsr']
                m0 = bits(c0, 4, 0)
                eng.assume(lnot(ST.bad_mode(m0, cfg['have_security_ext'], cfg['have_virt_ext'])))
                eng.assume(land(m0 != ST.HYP, m0 != ST.MON))       # exceptions taken from Hyp/Monitor mode return differently
                eng.assume(bits(c0, 23, 20) == 0)
                it0 = ST.cpsr_field(c0, 'it')
                eng.assume(it0 == 0 if src == 'arm' else implies(bits(it0, 3, 0) == 0, it0 == 0))
                eng.assume(bits(st0['R.PC'], 1 if src == 'arm' else 0, 0) == 0)
                # the exception is taken to its own mode (not routed to Monitor or Hyp mode)
                st1 = dict(st0)
                entry(st1)
                eng.assume(bits(st1['cpsr'], 4, 0) == hmode)
                if not eng.prefix:
                    eng.cover('an interrupted state exists')
                # handler returns with SUBS PC, LR, #off in the handler's instruction set (SCTLR.TE)
                outs = []
                for hset in ('arm', 'thumb'):
                    k = Cpu(dict(st1), hset, 0, 32)
                    if hset == 'arm':
                        SYS.op_subs_pc_lr_arm(k, 0b0010, 14, off)
                    else:
                        SYS.op_subs_pc_lr_thumb(k, 14, off)
                    outs.append(k)
                te = bit(st0['sctlr'], 30) == 1
                ka, kt = outs
                dc = ite(te, lor(kt.unpred, kt.unknown, kt.undef), lor(ka.unpred, ka.unknown, ka.undef))
                oplen = 4 if src == 'arm' else None
                named = []
                for leaf, v0 in st0.items():
                    if leaf.startswith('chg[') or leaf.startswith('cfg.') or leaf.startswith('cpu.') or leaf in step.SCRATCH:
                        continue            # per-step scratch of the implementation, not architectural state
                    v2 = ite(te, kt.st[leaf], ka.st[leaf]) if kt.st[leaf] is not ka.st[leaf] else ka.st[leaf]
                    if leaf == 'R.PC':
                        continue
                    if leaf in ('R.LR' + SUFFIX[hmode], 'spsr_' + SUFFIX[hmode]):
                        continue            # the handler mode's own LR and SPSR are clobbered by the entry
                    exp = v0
                    if leaf == 'cpsr' and kind == 'svc':
                        exp = ST.cpsr_with(c0, it=EXC.it_advance(it0))
                    named.append((leaf, lor(dc, values_eq(v2, exp))))
                eng.oblige_all('lemma', '%s from %s state: entry then SUBS PC,LR,#%d restores CPSR and every register but the handler LR/SPSR' % (kind, src, off), named)
                pc2 = ite(te, kt.st['R.PC'], ka.st['R.PC'])
                pc0 = st0['R.PC']
                if resume == 'same':
                    eng.oblige('lemma', '%s: execution resumes at the interrupted instruction' % kind, lor(dc, values_eq(pc2, pc0)))
                else:
                    # SVC is 4 (ARM) or 2 (Thumb T1) bytes long; the undefined instruction resumes after a 4/2-byte instruction
                    eng.oblige('lemma', '%s: execution resumes at the instruction after the one that raised it' % kind,
                               lor(dc, values_eq(pc2, (pc0 + (4 if src == 'arm' else 2)) & 0xFFFFFFFF)))

            def nreplay(inputs, ob):
                return False, 'spec-level lemma (no code involved)'
            out.append(Unit('C12/lemma:entry-return[%s,%s]' % (kind, src), ['C12'], symbolic, nreplay, {'contracts': {}}, meta={'inductive': True}))
    return out


def coproc_unit():
    """Coproc_Accepted() for the generic coprocessors (p0-p9, p12, p13): the access-control registers NSACR and CPACR
    decide, by privilege and security state, whether the instruction is UNDEFINED; with the Virtualization Extensions
    CPACR does not apply in Hyp mode and HCPTR.TCP<n> traps a Non-secure access to Hyp mode (UNDEFINED when already in
    Hyp mode).  Only accepted instructions reach the (mock) coprocessor decode.  HSR: exception class 0x07 and the
    coprocessor number are checked, the remaining syndrome bits are left to WriteHSR()."""
    from pyvc.unit import Unit, Contract, values_eq
    from pyvc.interp import PyRaise
    from pyvc import sym
    from pyvc.sym import lor, ite
    from spec.rt import bit
    from spec import exceptions as EXC
    from . import machine as MC
    m = registry.mods()
    A = m.arm_v6.ArmV6
    Rg = m.registers.Registers
    UND = m.arm_exceptions.UndefinedInstructionException
    uid = 'C12/fn:%s.ArmV6.coproc_accepted[generic coprocessors]' % A.__module__

    def spec_gate(st, cp):
        mode = bits(st['cpsr'], 4, 0)
        sec_ext, virt = st['cfg.have_security_ext'], st['cfg.have_virt_ext']
        secure = lor(lnot(sec_ext), bit(st['scr'], 0) == 0, mode == ST.MON)
        is_hyp = mode == ST.HYP
        ns_denied = land(sec_ext, lnot(secure), ((st['nsacr'] >> cp) & 1) == 0)
        applies = lor(lnot(virt), lnot(is_hyp))
        field = (st['cpacr'] >> (2 * cp)) & 3
        cp_denied = land(applies, lor(field == 0, land(field == 1, mode == ST.USR)))
        unpred = land(lnot(ns_denied), applies, field == 2)
        denied = lor(ns_denied, cp_denied)
        trap = land(lnot(denied), sec_ext, virt, lnot(secure), ((st['hcptr'] >> cp) & 1) == 1)
        return {'undef': lor(denied, land(trap, is_hyp)), 'trap': land(trap, lnot(is_hyp)), 'unpred': unpred}

    def symbolic(eng):
        mach = MC.SymMachine(eng, 'PMSA', 1)
        init = dict(mach.init)
        cfg = mach.configs
        eng.assume(lnot(ST.bad_mode(bits(init['cpsr'], 4, 0), cfg['have_security_ext'], cfg['have_virt_ext'])))
        eng.assume(valid(init))
        cp = eng.fresh_int('cp_num', 4)
        eng.assume(land(cp != 10, cp != 11, cp != 14, cp != 15))
        instr = eng.fresh_int('instr', 32)
        if not eng.prefix:
            eng.cover('state satisfiable')
        contracts = {}
        contracts.update(registry.l1())
        contracts.update(registry.regview())
        contracts.update(registry.l2())
        trapped = eng.register([])

        def rec(e, *a):
            trapped.append(1)
            return e.run_function(Rg.take_hyp_trap_exception, list(a), {})
        contracts[Rg.take_hyp_trap_exception] = Contract(Rg.take_hyp_trap_exception, rec, engine=True)
        eng.contracts = contracts
        raised = None
        try:
            eng.call(A.coproc_accepted, [mach.cpu, cp, instr])
        except PyRaise as e:
            raised = e.exc.cls
        g = spec_gate(init, cp)
        final = mach.read()
        if raised is not None and issubclass(raised, UND):
            eng.oblige('post', 'UNDEFINED only when NSACR / CPACR deny the access for this privilege and security state, or HCPTR traps it in Hyp mode',
                       lor(g['unpred'], g['undef']))
            exp = dict(init)
            exp['hsr'] = final['hsr']
            eng.oblige_all('frame', 'a rejected access changes no state (but the syndrome register when HCPTR traps it)',
                           [(k, values_eq(v, exp[k])) for k, v in final.items()])
            eng.oblige('post', 'HSR is written only for a trapped access', lor(g['unpred'], values_eq(final['hsr'], init['hsr']),
                                                                              land(bits(final['hsr'], 31, 26) == 0b000111, bits(final['hsr'], 3, 0) == cp)))
        elif raised is not None and issubclass(raised, NotImplementedError) and not trapped:
            eng.oblige('post', 'the coprocessor (mock decode) is reached without a trap only when the access is permitted and not trapped',
                       lor(g['unpred'], land(lnot(g['undef']), lnot(g['trap']))))
            eng.oblige_all('frame', 'the access check changes no state', [(k, values_eq(v, init[k])) for k, v in final.items()])
        elif raised is not None and issubclass(raised, NotImplementedError) and len(trapped) == 1:
            eng.oblige('post', 'the Hyp trap is taken only for a Non-secure access outside Hyp mode that HCPTR.TCP<n> traps', lor(g['unpred'], g['trap']))
            eng.oblige('post', 'the syndrome names the trapped coprocessor access (EC 0x07, coprocessor number)',
                       lor(g['unpred'], land(bits(final['hsr'], 31, 26) == 0b000111, bits(final['hsr'], 3, 0) == cp)))
            exp = dict(init)
            exp['hsr'] = final['hsr']
            EXC.take_hyp_trap(exp)
            eng.oblige_all('post', 'the trap entry is the architectural Hyp trap entry', [(k, lor(g['unpred'], values_eq(v, exp[k]))) for k, v in final.items()])
        else:
            eng.oblige('safe.host', 'coproc_accepted ends in %s (%d Hyp traps)' % (getattr(raised, '__name__', 'a normal return'), len(trapped)), False)

    def replay(inputs, ob):
        cpu = MC.native_cpu('PMSA', 1, fresh=True)
        MC.install_native(cpu, dict(inputs), 'PMSA', 1)
        init = MC.read_native(cpu, 'PMSA', 1)
        cfgs = registry.mods().configurations.configurations.configs
        for k in MC.CFG_BOOL + list(MC.CFG_INT):
            init['cfg.' + k] = cfgs.get(k)
        cp, instr = inputs.get('cp_num', 0), inputs.get('instr', 0)
        got = 'returned'
        trapped = []
        real_trap = cpu.registers.take_hyp_trap_exception
        cpu.registers.take_hyp_trap_exception = lambda: (trapped.append(1), real_trap())[1]
        import io
        import contextlib
        try:
            with contextlib.redirect_stdout(io.StringIO()):
                cpu.coproc_accepted(cp, instr)
        except Exception as e:      # noqa
            got = type(e).__name__
        g = spec_gate(init, cp)
        want = 'UNDEFINED' if g['undef'] else ('Hyp trap' if g['trap'] else 'accepted')
        real = 'UNDEFINED' if got == 'UndefinedInstructionException' else (('Hyp trap' if trapped else 'accepted') if got == 'NotImplementedError' else got)
        text = 'coproc_accepted(p%d) mode=%s scr=%s nsacr=%s cpacr=%s hcptr=%s: real %s ; architecture %s%s' % (
            cp, hex(init['cpsr'] & 31), hex(init['scr']), hex(init['nsacr']), hex(init['cpacr']), hex(init['hcptr']), real, want,
            ' (UNPREDICTABLE CPACR field)' if g['unpred'] else '')
        if g['unpred']:
            return False, text
        return real != want, text
    return Unit(uid, ['C12', 'C19'], symbolic, replay, {'contracts': {}}, meta={'function': '%s.ArmV6.coproc_accepted' % A.__module__})


def coproc_sys_unit(which):
    """Coproc_Accepted() for CP14 (debug / trace / ThumbEE / Jazelle register spaces) and CP15.  The decode hooks below it
    (CP14DebugInstrDecode, CP14TraceInstrDecode, CP14JazelleInstrDecode, CP15InstrDecode) and InstrIsPL0Undefined() are mock
    hooks of the implementation: they are given the contract "returns an arbitrary boolean, touches nothing", so every path
    of the real body around them is explored.  Specification: the Coproc_Accepted() pseudocode (instruction form, opc1 /
    CRn selection, ThumbEE register rules, HSTR.T<n> / HSTR.TTEE / HCR.TIDCP traps for Non-secure accesses outside Hyp mode).
    Obligations: UNDEFINED exactly where specified (the User-mode TEECR rule is the one seed4-C19 removed), no state change
    except through a Hyp trap, a Hyp trap only where a trap is specified (and always for HSTR traps), the syndrome's exception
    class and the ISS fields copied from the instruction, the trap entry itself equal to the architectural Hyp trap entry."""
    from pyvc.unit import Unit, Contract, values_eq
    from pyvc.interp import PyRaise
    from pyvc.sym import lor, ite
    from spec.rt import bit
    from spec import exceptions as EXC
    from . import machine as MC
    m = registry.mods()
    A = m.arm_v6.ArmV6
    Rg = m.registers.Registers
    UND = m.arm_exceptions.UndefinedInstructionException
    uid = 'C12/fn:%s.ArmV6.coproc_accepted[cp%d]' % (A.__module__, which)
    MOCKS = ['cp14_debug_instr_decode', 'cp14_trace_instr_decode', 'cp14_jazelle_instr_decode', 'cp15_instr_decode', 'cpx_instr_decode']

    def iss_mcr(instr, direction=True):
        v = (bits(instr, 7, 5) << 17) | (bits(instr, 23, 21) << 14) | (bits(instr, 19, 16) << 10) | (bits(instr, 15, 12) << 5) | (bits(instr, 3, 0) << 1)
        return (v | bit(instr, 20)) if direction else v

    def iss_mcrr(instr):
        return (bits(instr, 7, 4) << 16) | (bits(instr, 19, 16) << 10) | (bits(instr, 15, 12) << 5) | (bits(instr, 3, 0) << 1) | bit(instr, 20)

    def spec_gate(st, instr, pl0u):
        mode = bits(st['cpsr'], 4, 0)
        sec_ext, virt = st['cfg.have_security_ext'], st['cfg.have_virt_ext']
        secure = lor(lnot(sec_ext), bit(st['scr'], 0) == 0, mode == ST.MON)
        is_hyp = mode == ST.HYP
        user = mode == ST.USR
        ns_guest = land(sec_ext, virt, lnot(secure), lnot(is_hyp))
        cond_ok = bits(instr, 31, 28) != 15
        mcr = land(bits(instr, 27, 24) == 0b1110, bit(instr, 4) == 1, cond_ok)
        if which == 14:
            mrrc = land(lnot(mcr), bits(instr, 27, 20) == 0b11000101, cond_ok)
            ldc = land(lnot(mcr), lnot(mrrc), bits(instr, 27, 25) == 0b110, cond_ok)
            opc1 = ite(mcr, bits(instr, 23, 21), ite(mrrc, bits(instr, 7, 4), 0))
            form_undef = lor(land(lnot(mcr), lnot(mrrc), lnot(ldc)), land(mrrc, opc1 != 0), land(ldc, bits(instr, 15, 12) != 5))
            tee = land(lnot(form_undef), opc1 == 6)
            unpred = land(tee, lor(bits(instr, 7, 5) != 0, bits(instr, 3, 1) != 0, bits(instr, 15, 12) == 15))
            tee_ok = land(tee, lnot(unpred))
            tee_undef = land(tee_ok, user, bit(instr, 0) == 0)
            # CRm = 1 is not allocated to a ThumbEE register; the TEEHBR rule (User mode and TEECR.XED) for instr<0> == 1 is left open
            dontcare = land(tee_ok, user, bit(instr, 0) == 1, bit(st['teecr'], 0) == 1)
            trap = land(tee_ok, lnot(tee_undef), ns_guest, bit(st['hstr'], 16) == 1)
            undef = lor(form_undef, tee_undef, land(lnot(form_undef), opc1 != 0, opc1 != 1, opc1 != 6, opc1 != 7))
            mock = land(lnot(form_undef), lor(opc1 == 0, opc1 == 1, opc1 == 7))
            return {'undef': undef, 'trap': trap, 'trap_must': trap, 'unpred': lor(unpred, dontcare), 'mock': mock, 'ec': 0b000101,
                    'iss': iss_mcr(instr, False), 'iss_mask': 0xFFFFE}
        mcrr = land(lnot(mcr), bits(instr, 27, 21) == 0b1100010, cond_ok)
        form_undef = land(lnot(mcr), lnot(mcrr))
        crn = ite(mcr, bits(instr, 19, 16), bits(instr, 3, 0))
        crm = bits(instr, 3, 0)
        pl0_und = land(user, pl0u, st['cfg.coproc_accepted_pl0_undefined'])
        hstr_n = bit(st['hstr'] >> crn, 0) == 1
        t1 = land(lnot(form_undef), ns_guest, crn != 14, hstr_n)
        in9 = lor(crm == 0, crm == 1, crm == 2, crm == 5, crm == 6, crm == 7, crm == 8)
        in10 = lor(crm == 0, crm == 1, crm == 4, crm == 8)
        in11 = lor(crm <= 8, crm == 15)
        t2_region = land(lnot(form_undef), lnot(t1), ns_guest, bit(st['hcr'], 20) == 1, mcr,
                         lor(land(crn == 9, in9), land(crn == 10, in10), land(crn == 11, in11)))
        undef = lor(form_undef, land(t1, pl0_und), land(t2_region, pl0_und))
        # CRn = 9, CRm = 1: the HCR.TIDCP register description names c0-c2, the implementation's list omits c1; left open (DESIGN 14.17)
        open_ = land(lnot(form_undef), lnot(t1), ns_guest, bit(st['hcr'], 20) == 1, mcr, crn == 9, crm == 1)
        return {'undef': undef, 'trap': land(lnot(undef), lor(t1, t2_region)), 'trap_must': land(lnot(undef), t1),
                'unpred': lor(land(lnot(form_undef), crn == 4), open_), 'mock': lnot(form_undef), 'ec': ite(mcr, 0b000011, 0b000100),
                'iss': ite(mcr, iss_mcr(instr), iss_mcrr(instr)), 'iss_mask': 0xFFFFF}

    def symbolic(eng):
        mach = MC.SymMachine(eng, 'PMSA', 1)
        init = dict(mach.init)
        cfg = mach.configs
        eng.assume(lnot(ST.bad_mode(bits(init['cpsr'], 4, 0), cfg['have_security_ext'], cfg['have_virt_ext'])))
        eng.assume(valid(init))
        instr = eng.fresh_int('instr', 32)
        pl0u = eng.fresh_bool('pl0_undefined')
        accepted = eng.fresh_bool('decode_accepts')
        if not eng.prefix:
            eng.cover('state satisfiable')
        contracts = {}
        contracts.update(registry.l1())
        contracts.update(registry.regview())
        contracts.update(registry.l2())
        trapped = eng.register([])
        mocked = eng.register([])

        def rec(e, *a):
            trapped.append(1)
            return e.run_function(Rg.take_hyp_trap_exception, list(a), {})
        contracts[Rg.take_hyp_trap_exception] = Contract(Rg.take_hyp_trap_exception, rec, engine=True)
        contracts[A.instr_is_pl0_undefined] = Contract(A.instr_is_pl0_undefined, lambda self_, i_: pl0u, assumed=True,
                                                       note='mock hook InstrIsPL0Undefined(): an arbitrary boolean of the unit')
        for nm in MOCKS:
            def mk(e, *a, nm=nm):
                mocked.append(nm)
                return accepted
            contracts[getattr(A, nm)] = Contract(getattr(A, nm), mk, engine=True, assumed=True, note='mock decode hook: an arbitrary boolean, no state change')
        eng.contracts = contracts
        raised = None
        ret = None
        try:
            ret = eng.call(A.coproc_accepted, [mach.cpu, which, instr])
        except PyRaise as e:
            raised = e.exc.cls
        g = spec_gate(init, instr, pl0u)
        final = mach.read()
        up = g['unpred']
        if raised is not None and issubclass(raised, UND):
            eng.oblige('post', 'UNDEFINED only for an instruction form, register space or privilege the architecture rejects', lor(up, g['undef']))
            eng.oblige_all('frame', 'a rejected access changes no state', [(k, values_eq(v, init[k])) for k, v in final.items()])
        elif raised is None and not trapped:
            eng.oblige('post', 'accepted without a trap only when neither UNDEFINED nor trapped to Hyp mode is specified',
                       lor(up, land(lnot(g['undef']), lnot(g['trap_must']))))
            eng.oblige_all('frame', 'the access check changes no state', [(k, values_eq(v, init[k])) for k, v in final.items()])
            if mocked:
                eng.oblige('post', 'the register-space decode hook (%s) is consulted only for its own space' % mocked[0], lor(up, g['mock']))
                eng.oblige('post', 'the answer is the decode hook\'s', lor(up, eng.values_equal(ret, accepted)) if hasattr(eng, 'values_equal') else True)
            else:
                eng.oblige('post', 'accepted by Coproc_Accepted() itself only in the ThumbEE register space', lor(up, lnot(g['mock'])))
        elif raised is None and len(trapped) == 1:
            eng.oblige('post', 'a Hyp trap only for a Non-secure access outside Hyp mode that HSTR / HCR.TIDCP trap', lor(up, g['trap']))
            eng.oblige('post', 'the syndrome carries the exception class and the instruction fields of the trapped access',
                       lor(up, land(bits(final['hsr'], 31, 26) == g['ec'], (final['hsr'] & g['iss_mask']) == (g['iss'] & g['iss_mask']))))
            exp = dict(init)
            exp['hsr'] = final['hsr']
            EXC.take_hyp_trap(exp)
            eng.oblige_all('post', 'the trap entry is the architectural Hyp trap entry', [(k, lor(up, values_eq(v, exp[k]))) for k, v in final.items()])
        else:
            eng.oblige('safe.host', 'coproc_accepted ends in %s (%d Hyp traps)' % (getattr(raised, '__name__', 'a normal return'), len(trapped)), False)

    def replay(inputs, ob):
        cpu = MC.native_cpu('PMSA', 1, fresh=True)
        MC.install_native(cpu, dict(inputs), 'PMSA', 1)
        init = MC.read_native(cpu, 'PMSA', 1)
        cfgs = registry.mods().configurations.configurations.configs
        for k in MC.CFG_BOOL + list(MC.CFG_INT):
            init['cfg.' + k] = cfgs.get(k)
        instr = inputs.get('instr', 0)
        pl0u, acc = bool(inputs.get('pl0_undefined', False)), bool(inputs.get('decode_accepts', False))
        got = 'returned'
        trapped = []
        real_trap = cpu.registers.take_hyp_trap_exception
        cpu.registers.take_hyp_trap_exception = lambda: (trapped.append(1), real_trap())[1]
        cpu.instr_is_pl0_undefined = lambda i_: pl0u
        for nm in MOCKS:
            setattr(cpu, nm, lambda i_: acc)
        import io
        import contextlib
        try:
            with contextlib.redirect_stdout(io.StringIO()):
                cpu.coproc_accepted(which, instr)
        except Exception as e:      # noqa
            got = type(e).__name__
        g = spec_gate(init, instr, pl0u)
        final = MC.read_native(cpu, 'PMSA', 1)
        want = 'UNDEFINED' if g['undef'] else ('Hyp trap' if g['trap_must'] else ('Hyp trap or accepted' if g['trap'] else 'accepted'))
        real = 'UNDEFINED' if got == 'UndefinedInstructionException' else (('Hyp trap' if trapped else 'accepted') if got == 'returned' else got)
        text = 'coproc_accepted(p%d, %#010x) mode=%s scr=%s hstr=%s hcr=%s teecr=%s pl0_undefined=%s: real %s ; architecture %s%s' % (
            which, instr, hex(init['cpsr'] & 31), hex(init['scr']), hex(init['hstr']), hex(init['hcr']), hex(init['teecr']), pl0u, real, want,
            ' (UNPREDICTABLE / left open)' if g['unpred'] else '')
        if g['unpred']:
            return False, text
        bad = real not in want.split(' or ')
        if not bad and real == 'Hyp trap':
            hs = final['hsr']
            if (hs >> 26) != g['ec'] or (hs & g['iss_mask']) != (g['iss'] & g['iss_mask']):
                bad = True
                text += ' ; HSR %#010x, expected EC %#x ISS %#x' % (hs, g['ec'], g['iss'] & g['iss_mask'])
        if not bad and real != 'Hyp trap':
            diff = [k for k in final if final[k] != init.get(k, final[k])]
            if diff:
                bad = True
                text += ' ; state changed: %s' % diff[:6]
        return bad, text
    return Unit(uid, ['C12', 'C19'], symbolic, replay, {'contracts': {}}, meta={'function': '%s.ArmV6.coproc_accepted' % A.__module__})


def units(tier):
    return roundtrip_units() + [coproc_unit(), coproc_sys_unit(14), coproc_sys_unit(15)] + fn_units() + step.units(tier)
