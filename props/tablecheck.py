"""Self-consistency of the encoding table used as the decode oracle (C06/C07): no instruction word is claimed, as a valid
(predictable, defined at decode level) encoding, by rows of two different classes.  Without this, `decode.class` could be
satisfied by either of two overlapping rows.  A failure here is a fault of the machinery (the table), not of the repository."""
from pyvc.unit import Unit
from pyvc import sym
from pyvc.sym import land, lor, lnot
from spec import encodings as ENC
from spec.cpu import Cpu
from spec.rt import bits


def disjoint_unit(iset, prop):
    rows = [r for r in ENC.TABLE.rows if r.iset == iset]
    width = 16 if iset == 't16' else 32

    def symbolic(eng):
        instr = eng.fresh_int('instr', width)
        st = {'cpsr': eng.fresh_int('cpsr', 32), 'cfg.arch_version': eng.fresh_int('cfg.arch_version', 2) + 4,
              'cfg.have_security_ext': eng.fresh_bool('cfg.have_security_ext'), 'cfg.have_virt_ext': eng.fresh_bool('cfg.have_virt_ext'),
              'R.PC': 0, 'sctlr': eng.fresh_int('sctlr', 32), 'scr': eng.fresh_int('scr', 32), 'nsacr': eng.fresh_int('nsacr', 32),
              'cfg.have_lpae': False, 'cfg.is_armv7r_profile': False}
        base = Cpu(st, 'arm' if iset == 'arm' else 'thumb', instr, width)
        if not eng.prefix:
            eng.cover('table rows present')
        info = []
        for r in rows:
            f = r.extract(instr)
            unp = lor(r.sbz_violated(instr), r.unpred(f, base) if r.unpred is not None else False)
            und = r.undef(f, base) if r.undef is not None else False
            info.append((r, r.match(instr), unp, und))
        named = []
        for i in range(len(info)):
            ri, mi, ui, di = info[i]
            for j in range(i + 1, len(info)):
                rj, mj, uj, dj = info[j]
                if ri.cls == rj.cls:
                    continue
                if (ri.value ^ rj.value) & ri.mask & rj.mask:
                    continue                       # fixed bits differ: disjoint syntactically
                named.append(('%s/%s' % (ri.cls, rj.cls), lnot(land(mi, mj, lnot(ui), lnot(uj), lnot(di), lnot(dj)))))
        eng.oblige_all('table.disjoint', 'no word is a valid encoding of two different classes (%s, %d candidate pairs)' % (iset, len(named)), named)

    def replay(inputs, ob):
        instr = inputs.get('instr', 0)
        hits = [r.cls for r in rows if r.match(instr)]
        return False, 'table rows matching %s: %s (oracle inconsistency: correct /verif/spec, not the repository)' % (hex(instr), hits)
    return Unit('%s/table:disjoint[%s]' % (prop, iset), [prop], symbolic, replay, {'contracts': {}, 'oneshot': True})


def units(tier):
    return [disjoint_unit('arm', 'C06'), disjoint_unit('t16', 'C07'), disjoint_unit('t32', 'C07')]
