"""C17 — bit-vector primitives and register field views.

Every function of bits_ops.py / shift.py is verified against its L1 contract (spec/prims.py), using only the
contracts of the other helpers at its call sites.  Register views: AbstractRegister accessors and every named
field of the register classes against the architectural bit table of spec/regfields.py.
"""
from contracts import registry
from pyvc.unit import U, S, R, K, Flag
from pyvc import sym
from pyvc.sym import land
from spec import prims as P
from .common import pure_unit, fmt
from pyvc.unit import Unit, values_eq
from pyvc.interp import PyRaise, Obj
from spec import regfields as RF

QUICK_WIDTHS = [1, 2, 3, 4, 5, 6, 7, 8, 16, 32, 64]
DEPENDENTS = ['C01', 'C02', 'C03', 'C04', 'C05', 'C06', 'C07', 'C08', 'C09', 'C10', 'C11', 'C12', 'C13', 'C14', 'C18', 'C19', 'C20']


def units(tier):
    m = registry.mods()
    C = registry.l1()
    bo, sh = m.bits_ops, m.shift
    widths = list(range(1, 65)) if tier == 'thorough' else QUICK_WIDTHS
    out = []

    def pu(fn, doms, case='', **kw):
        out.append(pure_unit('C17', fn, C[fn], doms, case, contracts=C, **kw))

    big = S(72)
    n64 = R(0, 64)
    pu(bo.add, [('bits1', big), ('bits2', big), ('length', n64)])
    pu(bo.sub, [('bits1', big), ('bits2', big), ('length', n64)])
    pu(bo.to_unsigned, [('bits', big), ('length', n64)])
    pu(bo.lower_chunk, [('bits', big), ('chunk_length', n64)])
    pu(bo.to_signed, [('bits', U(64)), ('length', R(1, 64))])
    pu(bo.sign_extend, [('x', U(64)), ('src_length', R(1, 64)), ('dst_length', n64)])
    pu(bo.signed_sat_q, [('i', big), ('n', R(1, 64))])
    pu(bo.unsigned_sat_q, [('i', big), ('n', n64)])
    pu(bo.signed_sat, [('i', big), ('n', R(1, 64))])
    pu(bo.unsigned_sat, [('i', big), ('n', n64)])
    pu(bo.sat_q, [('i', big), ('n', n64), ('unsigned', Flag())])
    pu(bo.sat, [('i', big), ('n', n64), ('unsigned', Flag())])
    for y in (1, 2, 4, 8, 16, 4096):
        pu(bo.align, [('x', S(40)), ('y', K(y))], 'y=%d' % y)
    pu(bo.substring, [('bits', big), ('msb', R(-1, 70)), ('lsb', R(0, 70))])
    pu(bo.bit_at, [('bits', big), ('index', R(0, 80))])
    pu(bo.bit_not, [('bits', U(64)), ('length', n64)])
    pu(bo.set_substring, [('bits', U(64)), ('msb', R(0, 63)), ('lsb', R(0, 63)), ('value', U(64))])
    pu(bo.set_bit_at, [('bits', U(64)), ('index', R(0, 63)), ('value', U(1))])
    pu(bo.chain, [('higher', S(40)), ('lower', S(40)), ('lower_length', n64)])
    for nb in (8, 16, 32, 64):
        pu(bo.bit_count, [('bits', U(nb)), ('bit', U(1)), ('length', n64)], 'bits<2^%d' % nb)
        pu(bo.is_ones, [('bits', U(nb)), ('length', n64)], 'bits<2^%d' % nb)
    for n in (1, 2, 4, 8):
        pu(bo.big_endian_reverse, [('value', U(8 * n)), ('n', K(n))], 'n=%d' % n)
    for w in sorted(set(widths) | {16, 32}):
        pu(bo.add_with_carry, [('x', U(w)), ('y', U(w)), ('carry_in', U(1)), ('size', K(w))], 'w%d' % w)
        if w <= 32:
            pu(bo.lowest_set_bit_ref, [('x', U(w)), ('length', K(w))], 'w%d' % w)
        sh_amt = R(0, 255)
        pu(sh.lsl_c, [('x', U(w)), ('x_len', K(w)), ('shift', sh_amt)], 'w%d' % w)
        pu(sh.lsr_c, [('x', U(w)), ('x_len', K(w)), ('shift', sh_amt)], 'w%d' % w)
        pu(sh.asr_c, [('x', U(w)), ('x_len', K(w)), ('shift', sh_amt)], 'w%d' % w)
        pu(sh.ror_c, [('x', U(w)), ('x_len', K(w)), ('shift', sh_amt)], 'w%d' % w)
        pu(sh.rrx_c, [('x', U(w)), ('x_len', K(w)), ('carry_in', U(1))], 'w%d' % w)
        amt0 = R(0, 255)
        pu(sh.lsl, [('x', U(w)), ('x_len', K(w)), ('shift', amt0)], 'w%d' % w)
        pu(sh.lsr, [('x', U(w)), ('x_len', K(w)), ('shift', amt0)], 'w%d' % w)
        pu(sh.asr, [('x', U(w)), ('x_len', K(w)), ('shift', amt0)], 'w%d' % w)
        pu(sh.ror, [('x', U(w)), ('x_len', K(w)), ('shift', amt0)], 'w%d' % w)
        pu(sh.rrx, [('x', U(w)), ('x_len', K(w)), ('carry_in', U(1))], 'w%d' % w)
        for t in sh.SRType:
            amt = R(0, 3) if t is sh.SRType.RRX else amt0
            pu(sh.shift_c, [('value', U(w)), ('value_len', K(w)), ('type_o', K(t)), ('amount', amt), ('carry_in', U(1))],
               'w%d,%s' % (w, t.name))
            pu(sh.shift, [('value', U(w)), ('value_len', K(w)), ('type_o', K(t)), ('amount', amt), ('carry_in', U(1))],
               'w%d,%s' % (w, t.name))
    pu(sh.decode_imm_shift, [('type_o', U(3)), ('imm5', U(5))])
    pu(sh.decode_reg_shift, [('type_o', U(3))])
    pu(sh.arm_expand_imm_c, [('imm12', U(12)), ('carry_in', U(1))])
    pu(sh.arm_expand_imm, [('imm12', U(12))])

    pu(sh.thumb_expand_imm_c, [('imm12', U(12)), ('carry_in', U(1))],
       spec=lambda i, c: P.ThumbExpandImm_C(i, c)[:2], dontcare=lambda i, c: P.ThumbExpandImm_C(i, c)[2])
    pu(sh.thumb_expand_imm, [('imm12', U(12))],
       spec=lambda i: P.ThumbExpandImm_C(i, 0)[0], dontcare=lambda i: P.ThumbExpandImm_C(i, 0)[2])
    out += regview_units(tier)
    for u in out:
        # the step-level proofs use these contracts at call sites: their obligations are part of those claims
        u.props = ['C17'] + [p for p in DEPENDENTS if p != 'C17']
    return out


# ---------------------------------------------------------------- register views

def _parts(spec):
    """normalise a field spec to a list of (msb, lsb), most significant part first"""
    return list(spec) if isinstance(spec, list) else [spec]


def _get_field(v, parts):
    out = 0
    for (m, l) in parts:
        w = m - l + 1
        out = (out << w) | ((v >> l) & ((1 << w) - 1))
    return out


def _set_field(v, parts, x):
    pos = sum(m - l + 1 for m, l in parts)
    for (m, l) in parts:
        w = m - l + 1
        pos -= w
        piece = (x >> pos) & ((1 << w) - 1)
        v = v - (((v >> l) & ((1 << w) - 1)) << l) + (piece << l)
    return v


def _new_reg(cls, value, extra=None):
    o = cls.__new__(cls)
    o.length = 32
    o.value = value
    for k, v in (extra or {}).items():
        setattr(o, k, v)
    return o


def regview_units(tier):
    m = registry.mods()
    contracts = dict(registry.l1())
    rv = registry.regview()
    contracts.update(rv)
    classes = registry.register_classes()
    AR = m.abstract_register.AbstractRegister
    out = []

    # AbstractRegister item access against its contract
    def item_unit(kind):
        uid = 'C17/fn:%s.AbstractRegister.%s' % (AR.__module__, kind)
        fn = {'getitem[int]': AR.__getitem__, 'getitem[slice]': AR.__getitem__, 'setitem[int]': AR.__setitem__,
              'setitem[slice]': AR.__setitem__, '_at': AR._at, '_set_at': AR._set_at}[kind]

        def mk_args(get_int, get_range):
            if kind in ('getitem[int]', '_at'):
                return [get_range('index', 0, 63)]
            if kind == 'getitem[slice]':
                return [slice(get_range('msb', -1, 63), get_range('lsb', 0, 63))]
            if kind in ('setitem[int]', '_set_at'):
                return [get_range('index', 0, 63), get_int('bit', 1)]
            return [slice(get_range('msb', 0, 63), get_range('lsb', 0, 63)), get_int('fieldvalue', 64)]

        def symbolic(eng):
            from pyvc.unit import U as UU, R as RR
            o = eng.new_obj(classes['CPSR'], {'length': 32, 'value': eng.fresh_int('value', 64)})
            args = mk_args(lambda n, b: UU(b).fresh(eng, n), lambda n, lo, hi: RR(lo, hi).fresh(eng, n))
            c = rv[fn]
            pre = c.pre(eng, [o] + args)
            eng.assume(pre)
            if not eng.prefix:
                eng.cover('precondition satisfiable')
            v0 = o.attrs['value']
            import copy
            shadow = Obj(o.cls, dict(o.attrs))
            try:
                r = eng.call(fn, [o] + args)
            except PyRaise as e:
                eng.oblige('safe.host', 'body raises %s under its precondition' % e.exc.cls.__name__, False)
                return
            exp = c.spec(eng, shadow, *args)
            eng.oblige('post', 'result == spec', values_eq(r, exp))
            eng.oblige('post', 'value == spec', values_eq(o.attrs['value'], shadow.attrs['value']))
            eng.oblige('frame', 'only .value written', set(o.attrs) == {'length', 'value'} and o.attrs['length'] == 32)

        def replay(inputs, ob):
            from pyvc.unit import R as RR
            def gi(n, b):
                return inputs[n]
            def gr(n, lo, hi):
                return inputs[n] + lo
            args = mk_args(gi, gr)
            o = _new_reg(classes['CPSR'], inputs['value'])
            lines = ['AbstractRegister.%s value=%s args=%r' % (kind, hex(o.value), args)]
            try:
                r = fn(o, *args)
            except Exception as e:   # noqa
                lines.append('real raises %s: %s' % (type(e).__name__, e))
                return True, '\n'.join(lines)
            v = inputs['value']
            if kind in ('getitem[int]', '_at'):
                exp_r, exp_v = (v >> args[0]) & 1, v
            elif kind == 'getitem[slice]':
                exp_r, exp_v = (v & ((1 << (args[0].start + 1)) - 1)) >> args[0].stop, v
            elif kind in ('setitem[int]', '_set_at'):
                exp_r, exp_v = None, _set_field(v, [(args[0], args[0])], args[1])
            else:
                exp_r, exp_v = None, _set_field(v, [(args[0].start, args[0].stop)], args[1])
            lines.append('real result %s value %s ; spec result %s value %s' % (fmt(r), fmt(o.value), fmt(exp_r), fmt(exp_v)))
            return (r != exp_r or o.value != exp_v), '\n'.join(lines)
        return Unit(uid, ['C17'], symbolic, replay, {'contracts': registry.l1(), 'inline': {fn}},
                    meta={'function': '%s.AbstractRegister.%s' % (AR.__module__, fn.__name__)})
    for k in ('getitem[int]', 'getitem[slice]', 'setitem[int]', 'setitem[slice]', '_at', '_set_at'):
        out.append(item_unit(k))

    # named fields
    def field_unit(cname, cls, pname, spec, extra_attrs=None):
        parts = _parts(spec)
        width = sum(mm - ll + 1 for mm, ll in parts)
        prop = None
        for k in cls.__mro__:
            if pname in k.__dict__:
                prop = k.__dict__[pname]
                break
        uid = 'C17/field:%s.%s' % (cname, pname)

        def symbolic(eng):
            if prop is None or not isinstance(prop, property):
                eng.oblige('post', 'field exists as a property', False)
                return
            attrs = {'length': 32, 'value': eng.fresh_int('value', 32)}
            attrs.update(extra_attrs or {})
            o = eng.new_obj(cls, attrs)
            v0 = o.attrs['value']
            if not eng.prefix:
                eng.cover('state satisfiable')
            try:
                r = eng.getattr(o, pname)
            except PyRaise as e:
                eng.oblige('safe.host', 'getter raises %s' % e.exc.cls.__name__, False)
                return
            eng.oblige('post', 'getter == architectural bits', values_eq(r, _get_field(v0, parts)))
            eng.oblige('frame', 'getter writes nothing', values_eq(o.attrs['value'], v0))
            if prop.fset is not None:
                x = eng.fresh_int('fieldvalue', width)
                try:
                    eng.setattr(o, pname, x)
                except PyRaise as e:
                    eng.oblige('safe.host', 'setter raises %s' % e.exc.cls.__name__, False)
                    return
                eng.oblige('post', 'setter writes exactly the architectural bits', values_eq(o.attrs['value'], _set_field(v0, parts, x)))
                eng.oblige('frame', 'setter writes only .value', set(o.attrs) == set(attrs))

        def replay(inputs, ob):
            o = _new_reg(cls, inputs['value'], extra_attrs)
            lines = ['%s.%s value=%s' % (cname, pname, hex(inputs['value']))]
            bad = False
            try:
                r = getattr(o, pname)
                e = _get_field(inputs['value'], parts)
                lines.append('getter real %s spec %s' % (fmt(r), fmt(e)))
                bad |= (r != e) or o.value != inputs['value']
                if prop is not None and prop.fset is not None and 'fieldvalue' in inputs:
                    setattr(o, pname, inputs['fieldvalue'])
                    e2 = _set_field(inputs['value'], parts, inputs['fieldvalue'])
                    lines.append('setter(%s) real value %s spec value %s' % (fmt(inputs['fieldvalue']), fmt(o.value), fmt(e2)))
                    bad |= o.value != e2
            except Exception as ex:   # noqa
                lines.append('raises %s: %s' % (type(ex).__name__, ex))
                bad = True
            return bad, '\n'.join(lines)
        inl = set()
        if isinstance(prop, property):
            inl = {f for f in (prop.fget, prop.fset) if f}
        return Unit(uid, ['C17'], symbolic, replay, {'contracts': contracts, 'inline': inl},
                    meta={'function': '%s.%s.%s' % (cls.__module__, cname, pname)})

    def mask_unit(cname, cls, pname, mask):
        uid = 'C17/field:%s.%s' % (cname, pname)

        def symbolic(eng):
            o = eng.new_obj(cls, {'length': 32, 'value': eng.fresh_int('value', 32)})
            v0 = o.attrs['value']
            r = eng.getattr(o, pname)
            eng.oblige('post', 'getter == value & mask', values_eq(r, v0 & mask))

        def replay(inputs, ob):
            o = _new_reg(cls, inputs['value'])
            r = getattr(o, pname)
            return r != (inputs['value'] & mask), '%s.%s value=%s real %s spec %s' % (cname, pname, hex(inputs['value']), fmt(r), fmt(inputs['value'] & mask))
        return Unit(uid, ['C17'], symbolic, replay, {'contracts': contracts}, meta={'function': '%s.%s.%s' % (cls.__module__, cname, pname)})

    def indexed_unit(cname, cls, g, s_, fm, fl, nlo, nhi):
        uid = 'C17/field:%s.%s/%s' % (cname, g, s_)
        gf = getattr(cls, g)
        sf = getattr(cls, s_)
        w = fm(0) - fl(0) + 1
        from pyvc.unit import R as RR

        def symbolic(eng):
            o = eng.new_obj(cls, {'length': 32, 'value': eng.fresh_int('value', 32)})
            v0 = o.attrs['value']
            n = RR(nlo, nhi).fresh(eng, 'n') if nhi > nlo else nlo
            takes_n = nhi > nlo
            try:
                r = eng.call(gf, [o, n] if takes_n else [o])
            except PyRaise as e:
                eng.oblige('safe.host', 'getter raises %s' % e.exc.cls.__name__, False)
                return
            mm, ll = fm(n), fl(n)
            eng.oblige('post', 'indexed getter == architectural bits', values_eq(r, ((v0 >> ll) & ((1 << w) - 1))))
            x = eng.fresh_int('fieldvalue', w)
            try:
                eng.call(sf, [o, n, x] if takes_n else [o, x])
            except PyRaise as e:
                eng.oblige('safe.host', 'setter raises %s' % e.exc.cls.__name__, False)
                return
            exp = v0 - (((v0 >> ll) & ((1 << w) - 1)) << ll) + (x << ll)
            eng.oblige('post', 'indexed setter writes exactly the architectural bits', values_eq(o.attrs['value'], exp))

        def replay(inputs, ob):
            n = inputs.get('n', 0) + nlo if nhi > nlo else nlo
            takes_n = nhi > nlo
            o = _new_reg(cls, inputs['value'])
            v0 = inputs['value']
            ll = fl(n)
            lines = ['%s.%s/%s n=%d value=%s' % (cname, g, s_, n, hex(v0))]
            bad = False
            try:
                r = gf(o, n) if takes_n else gf(o)
                e = (v0 >> ll) & ((1 << w) - 1)
                lines.append('getter real %s spec %s' % (fmt(r), fmt(e)))
                bad |= r != e
                if 'fieldvalue' in inputs:
                    x = inputs['fieldvalue']
                    sf(o, n, x) if takes_n else sf(o, x)
                    e2 = v0 - (((v0 >> ll) & ((1 << w) - 1)) << ll) + (x << ll)
                    lines.append('setter(%s) real value %s spec value %s' % (fmt(x), fmt(o.value), fmt(e2)))
                    bad |= o.value != e2
            except Exception as ex:    # noqa
                lines.append('raises %s: %s' % (type(ex).__name__, ex))
                bad = True
            return bad, '\n'.join(lines)
        return Unit(uid, ['C17'], symbolic, replay, {'contracts': contracts, 'inline': {gf, sf}},
                    meta={'function': '%s.%s.%s' % (cls.__module__, cname, g)})

    covered = set()
    for cname, fields in RF.FIELDS.items():
        if cname not in classes:
            continue
        for pname, spec in fields.items():
            out.append(field_unit(cname, classes[cname], pname, spec))
            covered.add((cname, pname))
    for cname, masks in RF.MASKS.items():
        for pname, mask in masks.items():
            out.append(mask_unit(cname, classes[cname], pname, mask))
            covered.add((cname, pname))
    for cname, lst in RF.INDEXED.items():
        if cname not in classes:
            continue
        for (g, s_, fm, fl, nlo, nhi) in lst:
            out.append(indexed_unit(cname, classes[cname], g, s_, fm, fl, nlo, nhi))
    # RGNR: the Region field is ceil(log2(number of regions)) bits wide; for every region count, with the register holding a
    # region number, set_region / get_region store and return any region number 0 .. N-1 exactly
    def rgnr_unit(nreg):
        RG = m.rgnr.RGNR if hasattr(m, 'rgnr') else __import__('armulator.armv6.all_registers.rgnr', fromlist=['RGNR']).RGNR
        CF = m.configurations
        uid = 'C17/field:RGNR.region[regions=%d]' % nreg

        def symbolic(eng):
            from . import machine as MC
            cfgs = eng.register(dict(MC.config_dict('PMSA', nreg)))
            if isinstance(cfgs.get('reset_values'), dict):
                cfgs['reset_values'] = eng.register(dict(cfgs['reset_values']))
            eng.subst[id(CF.configurations)] = eng.new_obj(CF.Configurations, {'configs': cfgs})
            try:
                o = eng.call(RG, [nreg])
            except PyRaise as e:
                eng.oblige('safe.host', 'RGNR(%d) raises %s' % (nreg, e.exc.cls.__name__), False)
                return
            prev = eng.fresh_int('previous', 8)
            new = eng.fresh_int('region', 8)
            eng.assume(land(prev < nreg, new < nreg))
            o.attrs['value'] = prev
            try:
                eng.call(RG.set_region, [o, new])
                got = eng.call(RG.get_region, [o])
            except PyRaise as e:
                eng.oblige('safe.host', 'set_region / get_region raises %s' % e.exc.cls.__name__, False)
                return
            eng.oblige('post', 'set_region stores the region number (register holding a region number before)', values_eq(o.attrs['value'], new))
            eng.oblige('post', 'get_region returns the region number written', values_eq(got, new))

        def replay(inputs, ob):
            import json as js
            import os
            import tempfile
            from . import machine as MC
            cfg = MC.config_dict('PMSA', nreg)
            fd, path = tempfile.mkstemp(suffix='.json')
            with os.fdopen(fd, 'w') as f:
                js.dump(cfg, f)
            try:
                cpu = m.arm_v6.ArmV6(path)
            finally:
                os.unlink(path)
            r = RG(nreg)
            r.value = inputs.get('previous', 0)
            r.set_region(inputs.get('region', 0))
            text = 'RGNR(%d): previous %d, set_region(%d) -> value %d, get_region() %d' % (nreg, inputs.get('previous', 0), inputs.get('region', 0), r.value, r.get_region())
            bad = r.value != inputs.get('region', 0) or r.get_region() != inputs.get('region', 0)
            m.arm_v6.ArmV6()
            return bad, text
        return Unit(uid, ['C17', 'C14'], symbolic, replay, {'contracts': {}}, meta={'function': '%s.RGNR.set_region' % RG.__module__})
    for nreg in (range(1, 65) if tier == 'thorough' else range(1, 33)):
        out.append(rgnr_unit(nreg))

    # every property of every live register class must be in the architectural table
    def completeness(eng):
        miss = []
        for cname, cls in classes.items():
            for k in cls.__mro__:
                if k is AR or k is object or not k.__module__.startswith('armulator'):
                    continue
                for pn, pv in vars(k).items():
                    if isinstance(pv, property) and (k.__name__, pn) not in covered and (cname, pn) not in covered:
                        miss.append('%s.%s' % (cname, pn))
        ob = eng.oblige('cover', 'every register property has an architectural table row', not miss, detail=' '.join(miss))
    out.append(Unit('C17/field:table-completeness', ['C17'], completeness, lambda i, o: (False, ''), {'contracts': {}}))
    return out
