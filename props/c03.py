"""C03 — block transfers and stack operations.

Decode (class selection and the fields registers / n / wback / unaligned_allowed) is checked in the step units
(decode.class, decode.fields).  The execute() bodies of the twelve abstract block-transfer opcodes are verified
here with the register loop cut: HEAD (start address, nothing changed before the loop), STEP (one iteration for an
arbitrary register index i, arbitrary current address / memory / registers: transfers exactly register i at the
current address iff bit i of the list is set, and advances the address by 4), TAIL (the code after the loop for an
arbitrary final address: PC slot, write-back / SP update, UNKNOWN cases).  Code loop and pseudocode loop are folds
of equal steps over i = 0..14 from equal initial values, hence equal for all 2^16 register lists (induction on i).
"""
try:
    import z3
except ImportError:
    z3 = None

from contracts import registry
from contracts import absmem as AM
from pyvc.unit import Unit, Contract, values_eq
from pyvc.interp import PyRaise, Obj, CutPoint
from pyvc import sym
from pyvc.sym import land, lor, lnot, ite, implies
from spec import state as ST
from spec import prims as P
from spec import ops_block as OB
from spec.rt import bits, bit, popcount, M32
from . import machine as MC
from . import step

ASSUMPTIONS = step.ASSUMPTIONS + [
    'equality of the whole loop for every register list follows by induction on the register index from the HEAD/STEP/TAIL '
    'obligations (meta-argument; premises machine-checked)',
    'the PUSH;POP and STMDB;LDMIA round-trip lemmas are proved over the two verified contracts with the abstract memory interpreted '
    'as a flat word memory without faults (word-aligned accesses, SP and PC not in the list)',
    'data aborts in the middle of a block transfer: "an aborting transfer changes no core register in that iteration" and "an aborting PC-slot transfer happens before any write-back" are proved; '
    'the architectural base-restoration rule for aborted LDM/STM is not modelled by the implementation (no rollback)',
]

# class -> (module attr, kind, addressing mode, instruction sets, has write_count)
CLASSES = {
    'LdmArm': ('load', 'IA', ('arm',)), 'Ldmda': ('load', 'DA', ('arm',)), 'Ldmdb': ('load', 'DB', ('arm', 'thumb')),
    'Ldmib': ('load', 'IB', ('arm',)), 'LdmThumb': ('load', 'IA', ('thumb',)),
    'Stm': ('store', 'IA', ('arm', 'thumb')), 'Stmda': ('store', 'DA', ('arm',)), 'Stmdb': ('store', 'DB', ('arm', 'thumb')),
    'Stmib': ('store', 'IB', ('arm',)),
    'Push': ('push', 'DB', ('arm', 'thumb')), 'PopArm': ('pop', 'IA', ('arm',)), 'PopThumb': ('pop', 'IA', ('thumb',)),
    # user-bank and exception-return forms: direction/offset are run-time fields (increment, word_higher)
    'LdmUserRegisters': ('ldmuser', None, ('arm',)), 'StmUserRegisters': ('stmuser', None, ('arm',)),
    'LdmExceptionReturn': ('ldmeret', None, ('arm',)),
}
USERKINDS = ('ldmuser', 'stmuser', 'ldmeret')
MODFILE = {'LdmArm': 'ldm_arm', 'Ldmda': 'ldmda', 'Ldmdb': 'ldmdb', 'Ldmib': 'ldmib', 'LdmThumb': 'ldm_thumb', 'Stm': 'stm',
           'Stmda': 'stmda', 'Stmdb': 'stmdb', 'Stmib': 'stmib', 'Push': 'push', 'PopArm': 'pop_arm', 'PopThumb': 'pop_thumb',
           'LdmUserRegisters': 'ldm_user_registers', 'StmUserRegisters': 'stm_user_registers', 'LdmExceptionReturn': 'ldm_exception_return'}


def klass(name):
    import importlib
    registry.mods()
    mod = importlib.import_module('armulator.armv6.opcodes.abstract_opcodes.' + MODFILE[name])
    return getattr(mod, name)


def make_units(name, iset):
    kind, mode, _ = CLASSES[name]
    K = klass(name)
    m = registry.mods()
    A = m.arm_v6.ArmV6
    tbit = 0 if iset == 'arm' else 1
    is_stack = kind in ('push', 'pop')

    def setup(eng):
        mem = AM.AbsMem(eng)
        fixed = {'cpsr': lambda e, lf: (e.fresh_int('cpsr', 32) & ~((1 << 24) | (1 << 5))) | (tbit << 5)}
        mach = MC.SymMachine(eng, 'PMSA', 1, fixed=fixed, mem=mem)
        init = dict(mach.init)
        cfg = mach.configs
        eng.assume(lnot(ST.bad_mode(bits(init['cpsr'], 4, 0), cfg['have_security_ext'], cfg['have_virt_ext'])))
        regs = eng.fresh_int('registers', 16)
        attrs = {'instruction': eng.fresh_int('instruction', 32), 'registers': regs}
        if is_stack:
            attrs['unaligned_allowed'] = eng.fresh_bool('unaligned_allowed')
            n = 13
            wback = True
        elif kind in USERKINDS:
            n = eng.fresh_int('n', 4, 14)
            attrs['n'] = n
            attrs['increment'] = eng.fresh_bool('increment')
            attrs['word_higher'] = eng.fresh_bool('word_higher')
            wback = False
            if kind == 'ldmeret':
                wback = eng.fresh_bool('wback')
                attrs['wback'] = wback
            if kind == 'ldmuser':
                eng.assume(bit(regs, 15) == 0)          # registers = '0':register_list (decode.fields)
        else:
            n = eng.fresh_int('n', 4, 14)
            wback = eng.fresh_bool('wback')
            attrs['n'] = n
            attrs['wback'] = wback
        op = eng.new_obj(K, attrs, tag='opcode')
        contracts = dict(step.all_contracts())
        contracts[A.condition_passed] = Contract(A.condition_passed, lambda e, c: True, engine=True)
        eng.contracts = contracts
        # prefer counterexamples with a populated register list (observable in a whole-instruction replay)
        eng.small_model_hints = [sym.zb((regs & 0xFF) == 0xFF)]
        return mach, mem, init, op, regs, n, wback, attrs

    def cur_priv(init):
        return bits(init['cpsr'], 4, 0) != ST.USR

    def rview(st):
        return {k[2:]: v for k, v in st.items() if k.startswith('R.')}

    def r_cur(st, i):
        if isinstance(i, int) and i == 15:
            return ST.pc_read(st)
        return ST.rget(rview(st), i, bits(st['cpsr'], 4, 0))

    def set_cur(st, i, v):
        new = ST.rset(rview(st), i, bits(st['cpsr'], 4, 0), v)
        for k, x in new.items():
            st['R.' + k] = x

    def kind_of(attrs):
        """access kind of the data transfers (PUSH/POP: MemU when unaligned_allowed)"""
        return attrs.get('unaligned_allowed', False)

    def find_loop(fn):
        return (fn, 0)

    def carried(stmt, env):
        """names of the loop-carried locals, found structurally (not by name): assigned in the loop body, read there, and bound
        before the loop.  -> (address variable, counter variable or None): the counter is the one that starts at the constant 0"""
        import ast
        assigned, read = set(), set()
        for node in ast.walk(ast.Module(body=stmt.body, type_ignores=[])):
            if isinstance(node, ast.Name):
                (assigned if isinstance(node.ctx, ast.Store) else read).add(node.id)
            if isinstance(node, ast.AugAssign) and isinstance(node.target, ast.Name):
                read.add(node.target.id)
        names = sorted(n for n in assigned & read if n in env and n != getattr(stmt.target, 'id', None))
        counters = [n for n in names if isinstance(env[n], int) and not isinstance(env[n], bool) and env[n] == 0]
        addrs = [n for n in names if n not in counters]
        if len(addrs) != 1 or len(counters) > 1:
            raise sym.OutOfSubset('register loop of %s has an unexpected shape: loop-carried locals %s' % (name, names))
        return addrs[0], (counters[0] if counters else None)

    def start_of(init, regs, n, attrs):
        base = r_cur(init, n)
        if kind in USERKINDS:
            length = 4 * popcount(regs & 0x7FFF, 16) + (4 if kind == 'ldmeret' else 0) + (4 * bit(regs, 15) if kind == 'stmuser' else 0)
            a = ite(attrs['increment'], base, (base - length) & M32)
            return ite(attrs['word_higher'], (a + 4) & M32, a)
        return OB.start_address(base, popcount(regs, 16), mode)

    def mode_of(init):
        return bits(init['cpsr'], 4, 0)

    def user_r(st, i):
        return ST.rget(rview(st), i, ST.USR)

    def set_user(st, i, v):
        for k, x in ST.rset(rview(st), i, ST.USR, v).items():
            st['R.' + k] = x

    # ------------------------------------------------------------------ HEAD
    def head(eng):
        mach, mem, init, op, regs, n, wback, attrs = setup(eng)
        if not eng.prefix:
            eng.cover('state satisfiable')

        def hook(e, stmt, env, g):
            try:
                order = list(e.ev(stmt.iter, env, g))
            except Exception:      # noqa  (not a concrete iterable)
                order = None
            av, cv = carried(stmt, env)
            raise CutPoint(dict(address=env[av], wc=env.get(cv) if cv else None, order=order, target=getattr(stmt.target, 'id', None)), e)
        eng.loop_hooks = {find_loop(K.execute): hook}
        try:
            eng.call(K.execute, [op, mach.cpu])
        except CutPoint as c:
            c.reinstate(eng)
            eng.oblige('inv.init', '%s: start address of the transfer' % name, values_eq(c.payload['address'], start_of(init, regs, n, attrs)))
            if kind in USERKINDS:
                md = mode_of(init)
                eng.oblige('inv.init', '%s: executed only outside Hyp (UNDEFINED) and User/System (UNPREDICTABLE) modes' % name,
                           land(md != ST.HYP, md != ST.USR, md != ST.SYS))
            if c.payload['wc'] is not None:
                eng.oblige('inv.init', '%s: transfer count starts at 0' % name, values_eq(c.payload['wc'], 0))
            eng.oblige('inv.init', '%s: the loop visits the register numbers 0..14 in ascending order' % name,
                       c.payload['order'] == list(range(15)), detail='loop iterates over %r' % (c.payload['order'],))
            fin = mach.read()
            eng.oblige_all('frame', '%s: nothing is transferred or written before the loop' % name,
                           [(k, values_eq(v, init[k])) for k, v in fin.items() if not k.startswith('chg[')] + [('mem', sym.SymBool(mem.term == mem.init))])
            return
        except PyRaise as e:
            if kind in USERKINDS and issubclass(e.exc.cls, m.arm_exceptions.UndefinedInstructionException):
                eng.oblige('post', '%s: UNDEFINED exactly in Hyp mode' % name, mode_of(init) == ST.HYP)
                eng.oblige_all('frame', '%s: an UNDEFINED instruction changes nothing' % name,
                               [(k, values_eq(v, init[k])) for k, v in mach.read().items() if not k.startswith('chg[')])
                return
            eng.oblige('safe.host', '%s: raises %s before the loop' % (name, e.exc.cls.__name__), False)
            return
        if kind in USERKINDS:
            md = mode_of(init)
            eng.oblige('post', '%s: skipped only where the architecture says UNPREDICTABLE (User/System mode)' % name, lor(md == ST.USR, md == ST.SYS))
            return
        eng.oblige('inv.init', '%s: the register loop is reached when the condition passes' % name, False)

    # ------------------------------------------------------------------ STEP
    def stepu(eng):
        mach, mem, init, op, regs, n, wback, attrs = setup(eng)
        got = {}

        def hook(e, stmt, env, g):
            av, cv = carried(stmt, env)
            a0 = e.fresh_int('loop.address', 32)
            env[av] = a0
            got['a0'] = a0
            if cv:
                wc0 = e.fresh_int('loop.write_count', 4)
                env[cv] = wc0
                got['wc0'] = wc0
            i = e.fresh_int('i', 4, 14)
            got['i'] = i
            e.assign(stmt.target, i, env, g)
            e.block(stmt.body, env, g)
            raise CutPoint(dict(address=env[av], wc=env.get(cv) if cv else None), e)
        eng.loop_hooks = {find_loop(K.execute): hook}
        try:
            eng.call(K.execute, [op, mach.cpu])
        except CutPoint as c:
            c.reinstate(eng)
            i, a0 = got['i'], got['a0']
            present = bit(regs, i) != 0
            st = dict(init)
            priv = cur_priv(init)
            ua = kind_of(attrs)
            exp_mem = mem.init
            unknown = False
            if kind in ('load', 'pop', 'ldmeret'):
                va = AM.mem_read(mem.init, AM.KIND_A, priv, a0, 4)
                if kind == 'pop':
                    va = ite(ua, AM.mem_read(mem.init, AM.KIND_U, priv, a0, 4), va)
                cur = r_cur(init, i)
                set_cur(st, i, ite(present, va, cur))
            elif kind == 'ldmuser':
                va = AM.mem_read(mem.init, AM.KIND_A, priv, a0, 4)
                set_user(st, i, ite(present, va, user_r(init, i)))
            elif kind == 'stmuser':
                exp_mem = AM.mem_ite(present, AM.mem_write(mem.init, AM.KIND_A, priv, a0, 4, user_r(init, i)), mem.init)
            else:
                lowest = P.LowestSetBit(regs, 16)
                if kind == 'push':
                    unknown = land(present, i == 13, lowest != 13)
                else:
                    unknown = land(present, n == i, wback, lowest != i)
                # a stored UNKNOWN value (base register in the list and not lowest with write-back; SP in a PUSH list): only
                # the value is unspecified - it is taken from the implementation's own write -, the word is still written
                wr = [a_ for a_ in mem.accesses if a_[1] == 'W' and sym.is_intlike(a_[4])]
                val = ite(unknown, (wr[-1][4] & M32) if wr else 0, r_cur(init, i))
                wa = AM.mem_write(mem.init, AM.KIND_A, priv, a0, 4, val)
                if kind == 'push':
                    # (the UNKNOWN word of PUSH is "MemA[address,4] = bits(32) UNKNOWN" whatever UnalignedAllowed says)
                    wa = AM.mem_ite(land(ua, lnot(unknown)), AM.mem_write(mem.init, AM.KIND_U, priv, a0, 4, val), wa)
                unknown = False
                exp_mem = AM.mem_ite(present, wa, mem.init)
            fin = mach.read()
            dc = unknown
            named = [(k, lor(dc, values_eq(v, st[k]))) for k, v in fin.items() if not k.startswith('chg[')]
            named.append(('mem', lor(dc, sym.SymBool(mem.term == exp_mem))))
            named.append(('address', values_eq(c.payload['address'], ite(present, (a0 + 4) & M32, a0))))
            if c.payload['wc'] is not None:
                named.append(('write_count', values_eq(c.payload['wc'], ite(present, got['wc0'] + 1, got['wc0']))))
            eng.oblige_all('inv.step', '%s: iteration i transfers exactly register i at the current address iff registers<i>, then address += 4' % name, named)
            # the derived invariant used after the loop: address == start + 4*BitCount(registers<i-1:0>)
            start = start_of(init, regs, n, attrs)
            below = lambda k: popcount(regs & ((1 << k) - 1), 16)
            inv0 = values_eq(a0, (start + 4 * below(i)) & M32)
            inv1 = values_eq(c.payload['address'], (start + 4 * below(i + 1)) & M32)
            named2 = [('address', implies(inv0, inv1))]
            if c.payload['wc'] is not None:
                named2.append(('write_count', implies(values_eq(got['wc0'], below(i)), values_eq(c.payload['wc'], below(i + 1)))))
            eng.oblige_all('inv.step', '%s: address == start + 4*BitCount(registers<i-1:0>) is preserved by an iteration' % name, named2)
            return
        except PyRaise as e:
            if issubclass(e.exc.cls, m.arm_exceptions.DataAbortException):
                fin = mach.read()
                eng.oblige_all('inv.abort', '%s: an aborting transfer changes no core register' % name,
                               [(k, values_eq(v, init[k])) for k, v in fin.items() if k.startswith('R.')])
                return
            if kind in USERKINDS and issubclass(e.exc.cls, m.arm_exceptions.UndefinedInstructionException):
                return                      # Hyp mode: decided in the head unit
            eng.oblige('safe.host', '%s: loop body raises %s' % (name, e.exc.cls.__name__), False)
            return

    # ------------------------------------------------------------------ TAIL
    def tail(eng):
        mach, mem, init, op, regs, n, wback, attrs = setup(eng)
        got = {}

        def hook(e, stmt, env, g):
            av, cv = carried(stmt, env)
            got['a'] = e.fresh_int('loop.address', 32)
            env[av] = got['a']
            # loop invariant at exit (HEAD: holds at i = 0; STEP: preserved), i = 15
            start = start_of(init, regs, n, attrs)
            e.assume(values_eq(got['a'], (start + 4 * popcount(regs & 0x7FFF, 16)) & M32))
            if cv:
                # after the loop the count equals the number of transferred registers R0..R14
                env[cv] = popcount(regs & 0x7FFF, 16)
            return True
        eng.loop_hooks = {find_loop(K.execute): hook}
        try:
            eng.call(K.execute, [op, mach.cpu])
        except PyRaise as e:
            if issubclass(e.exc.cls, m.arm_exceptions.DataAbortException):
                # the transfer of the PC slot aborted: nothing after the loop - the base / SP write-back in particular - has
                # happened before it ("the faulting instruction performs no base-register write-back")
                fin = mach.read()
                eng.oblige_all('inv.abort', '%s: an aborting transfer of the PC slot changes no core register (no write-back before it)' % name,
                               [(k, values_eq(v, init[k])) for k, v in fin.items() if k.startswith('R.')])
                return
            if kind in USERKINDS and issubclass(e.exc.cls, m.arm_exceptions.UndefinedInstructionException):
                return                      # Hyp mode: decided in the head unit
            eng.oblige('safe.host', '%s: code after the loop raises %s' % (name, e.exc.cls.__name__), False)
            return
        a = got.get('a')
        if a is None and kind in USERKINDS:
            return                          # User/System mode (UNPREDICTABLE): decided in the head unit
        if a is None:
            eng.oblige('inv.init', '%s: loop reached' % name, False)
            return
        from spec.cpu import Cpu
        st = dict(init)
        st['mem'] = mem.init
        cpu = Cpu(st, iset, 0, 32)
        count = popcount(regs, 16)
        base = cpu.R(n)
        has_pc = bit(regs, 15) != 0
        ua = kind_of(attrs)
        if kind in USERKINDS:
            cpu.UNPREDICTABLE(lor(mode_of(init) == ST.USR, mode_of(init) == ST.SYS))
        if kind == 'ldmuser':
            pass                              # nothing after the loop
        elif kind == 'stmuser':
            st['mem'] = AM.mem_ite(has_pc, AM.mem_write(mem.init, AM.KIND_A, cur_priv(init), a, 4, cpu.pc()), mem.init)
        elif kind == 'ldmeret':
            length = 4 * popcount(regs & 0x7FFF, 16) + 4
            new_pc = AM.mem_read(mem.init, AM.KIND_A, cur_priv(init), a, 4)
            n_in = ((regs >> n) & 1) != 0
            cpu.unknown_bits_R(n, ite(land(wback, n_in), M32, 0))       # R[n] = bits(32) UNKNOWN: only the base register
            cpu.when(land(wback, lnot(n_in)), lambda k: k.setR(n, ite(attrs['increment'], (base + length) & M32, (base - length) & M32)))
            cpu.exception_return(cpu.SPSR(), new_pc)
        elif kind in ('load', 'pop'):
            va = AM.mem_read(mem.init, AM.KIND_A, cur_priv(init), a, 4)
            if kind == 'pop':
                vu = AM.mem_read(mem.init, AM.KIND_U, cur_priv(init), a, 4)

                def do_pc(k):
                    k.cases([(ua, lambda q: (q.UNPREDICTABLE(bits(a, 1, 0) != 0), q.load_write_pc(vu))), (True, lambda q: q.load_write_pc(va))])
                cpu.when(has_pc, do_pc)
                sp_in = bit(regs, 13) != 0
                cpu.unknown_bits_R(13, ite(sp_in, M32, 0))          # SP = bits(32) UNKNOWN: only SP
                cpu.when(lnot(sp_in), lambda k: k.setR(13, (base + 4 * count) & M32))
            else:
                cpu.when(has_pc, lambda k: k.load_write_pc(va))
                n_in = ((regs >> n) & 1) != 0
                delta = 4 * count
                newbase = (base + delta) & M32 if mode in ('IA', 'IB') else (base - delta) & M32
                cpu.unknown_bits_R(n, ite(land(wback, n_in), M32, 0))       # R[n] = bits(32) UNKNOWN: only the base register
                cpu.when(land(wback, lnot(n_in)), lambda k: k.setR(n, newbase))
        else:
            pcv = cpu.pc()
            wa = AM.mem_write(mem.init, AM.KIND_A, cur_priv(init), a, 4, pcv)
            if kind == 'push':
                wa = AM.mem_ite(ua, AM.mem_write(mem.init, AM.KIND_U, cur_priv(init), a, 4, pcv), wa)
            st['mem'] = AM.mem_ite(has_pc, wa, mem.init)
            delta = 4 * count
            newbase = (base + delta) & M32 if mode in ('IA', 'IB') else (base - delta) & M32
            cpu.when(wback, lambda k: k.setR(n, newbase))
        fin = mach.read()
        dc = lor(cpu.unpred, cpu.unknown)
        # a PC not written by the instruction stays (the step function advances it)
        named = []
        for k, v in fin.items():
            if k.startswith('chg['):
                continue
            um = cpu.unkmask.get(k, 0)
            if sym.is_intlike(um) and not (isinstance(um, int) and um == 0) and sym.is_intlike(v):
                named.append((k, lor(dc, values_eq(v & (um ^ M32), cpu.st[k] & (um ^ M32)))))
            else:
                named.append((k, lor(dc, values_eq(v, cpu.st[k]))))
        named.append(('mem', lor(dc, sym.SymBool(mem.term == cpu.st['mem']))))
        named.append(('pc-written', lor(dc, sym.eq(sym.truth(fin['chg[15]']), sym.truth(lor(init['chg[15]'], cpu.branched))))))
        eng.oblige_all('post', '%s: after the loop: PC slot, base/SP write-back' % name, named)

    def nreplay(inputs, ob):
        return block_replay(name, iset, inputs, ob)
    opts = {'contracts': {}, 'max_paths': 20000, 'merge_calls': step.merge_set()}
    qn = '%s.%s.execute' % (K.__module__, name)
    props = ['C03', 'C12'] if kind == 'ldmeret' else ['C03']        # LDM (exception return) is one of the returns of C12
    if kind in ('push', 'pop'):
        props = props + ['C02']         # the single-register encodings of PUSH / POP (A2, T3) are STR / LDR (immediate) encodings
    also = {'C14': ['inv.abort']}           # C14: a denied access at any position of a multi-word transfer - no write-back, no later transfer
    also['C10'] = ['inv.step', 'post']      # C10: which bank every transferred / written-back register lives in (user-bank forms from FIQ mode, SP of the current mode)
    return [Unit('C03/exec:%s[%s]/head' % (name, iset), props, head, nreplay, dict(opts), meta={'function': qn, 'inductive': True, 'also': also}),
            Unit('C03/exec:%s[%s]/step' % (name, iset), props, stepu, nreplay, dict(opts), meta={'function': qn, 'inductive': True, 'also': also}),
            Unit('C03/exec:%s[%s]/tail' % (name, iset), props, tail, nreplay, dict(opts), meta={'function': qn, 'inductive': True, 'also': also})]


def block_replay(name, iset, inputs, ob):
    """native replay: run the whole execute() on a real ArmV6 with a flat dictionary memory and compare with the
    architectural block transfer (loop-shaped, native) for the model's register list / base / mode"""
    m = registry.mods()
    kind, mode, _ = CLASSES[name]
    K = klass(name)
    cpu = MC.native_cpu('PMSA', 1, fresh=True)
    ins = dict(inputs)
    tbit = 0 if iset == 'arm' else 1
    ins['cpsr'] = (ins.get('cpsr', 0) & ~((1 << 24) | (1 << 5))) | (tbit << 5)
    MC.install_native(cpu, ins, 'PMSA', 1)
    init = MC.read_native(cpu, 'PMSA', 1)
    memd = {}
    writes = []

    def rd(address, size, *r):
        return int.from_bytes(bytes(memd.get((address + k) & M32, ((address + k) * 29 + 7) & 0xFF) for k in range(size)), 'little')

    wkinds = []

    def wr(address, size, *r):
        writes.append((address, size, r[-1]))
        for k in range(size):
            memd[(address + k) & M32] = (r[-1] >> (8 * k)) & 0xFF

    def wr_kind(k_):
        def f(address, size, *r):
            wkinds.append(k_)
            return wr(address, size, *r)
        return f
    for nm in ('mem_a_get', 'mem_u_get'):
        setattr(cpu, nm, rd)
    cpu.mem_a_set = wr_kind('MemA')
    cpu.mem_u_set = wr_kind('MemU')
    cpu.condition_passed = lambda: True
    regs = ins.get('registers', 0)
    if 'i' in ins and 'loop.address' in ins:
        # counter-model of the inductive step: realise it as a whole execution whose first transfer is iteration i
        # at the model's address (registers below i dropped, base chosen accordingly)
        regs &= ~((1 << ins['i']) - 1) & 0xFFFF
        cnt = bin(regs).count('1')
        a0 = ins['loop.address']
        if kind in USERKINDS:
            lst = regs & 0x7FFF
            length = 4 * bin(lst).count('1') + (4 if kind == 'ldmeret' else 0) + (4 if (kind == 'stmuser' and regs >> 15) else 0)
            nb = (a0 - (4 if ins.get('word_higher') else 0) + (0 if ins.get('increment') else length)) & M32
            ins['registers'] = regs
        else:
            nb = {'IA': a0, 'IB': a0 - 4, 'DA': a0 + 4 * cnt - 4, 'DB': a0 + 4 * cnt}[mode] & M32
        nreg = 13 if kind in ('push', 'pop') else ins.get('n', 0)
        Rv = ST.rset({k[2:]: v for k, v in init.items() if k.startswith('R.')}, nreg, init['cpsr'] & 31, nb)
        for k, v in Rv.items():
            ins['R.' + k] = v
        MC.install_native(cpu, ins, 'PMSA', 1)
        init = MC.read_native(cpu, 'PMSA', 1)
    if kind in USERKINDS:
        return user_replay(name, kind, K, cpu, ins, init, rd, writes)
    if kind in ('push', 'pop'):
        op = K(ins.get('instruction', 0), registers=regs, unaligned_allowed=bool(ins.get('unaligned_allowed')))
        n, wback = 13, True
    else:
        n, wback = ins.get('n', 0), bool(ins.get('wback'))
        op = K(ins.get('instruction', 0), wback=wback, registers=regs, n=n)
    cpu.registers.changed_registers = [False] * 16
    exc = None
    try:
        op.execute(cpu)
    except Exception as e:      # noqa
        exc = e
    final = MC.read_native(cpu, 'PMSA', 1)
    # architectural result (native, loop-shaped)
    cm = init['cpsr'] & 31
    R = {k[2:]: v for k, v in init.items() if k.startswith('R.')}
    count = bin(regs).count('1')
    base = ST.rget(R, n, cm)
    address = OB.start_address(base, count, mode)
    exp_writes = []
    exp_kinds = []
    unknown_at = set()
    ukind = 'MemU' if (kind == 'push' and bool(ins.get('unaligned_allowed'))) else 'MemA'
    lowest = next((b for b in range(16) if (regs >> b) & 1), 16)
    for i in range(15):
        if (regs >> i) & 1:
            if kind in ('load', 'pop'):
                R = ST.rset(R, i, cm, rd(address, 4))
            else:
                if (kind == 'push' and i == 13 and lowest != 13) or (kind == 'store' and i == n and wback and lowest != i):
                    unknown_at.add(len(exp_writes))         # the stored value (only) is UNKNOWN; PUSH writes it with MemA
                    exp_kinds.append('MemA')
                else:
                    exp_kinds.append(ukind)
                exp_writes.append((address, 4, ST.rget(R, i, cm)))
            address = (address + 4) & M32
    lines = ['%s registers=%s n=%s wback=%s base=%s mode=%s' % (name, bin(regs), n, wback, hex(base), hex(cm))]
    if exc is not None:
        lines.append('real raised %s: %s' % (type(exc).__name__, exc))
        return True, '\n'.join(lines)
    bad = False
    if kind in ('store', 'push'):
        if (regs >> 15) & 1:
            exp_writes.append((address, 4, (init['R.PC'] + (8 if iset == 'arm' else 4)) & M32))
            exp_kinds.append(ukind)
        lines.append('real writes %s' % [(hex(a), hex(v), k_) for (a, s, v), k_ in zip(writes, wkinds)])
        lines.append('spec writes %s' % [(hex(a), 'UNKNOWN' if j in unknown_at else hex(v), k_) for j, ((a, s, v), k_) in enumerate(zip(exp_writes, exp_kinds))])
        bad = len(writes) != len(exp_writes) or wkinds != exp_kinds or any(
            a != ea or (j not in unknown_at and v != ev) for j, ((a, s, v), (ea, es, ev)) in enumerate(zip(writes, exp_writes)))
    else:
        diff = {k: (hex(final['R.' + k]), hex(v)) for k, v in R.items() if k != 'PC' and final['R.' + k] != v
                and not (wback and k == [nm for c, nm in ST.bank_of(n, cm) if c][0])}
        lines.append('loaded register differences (real, spec): %s' % diff)
        bad = bool(diff)
    # base / SP write-back
    delta = 4 * count
    newbase = (base + delta) & M32 if mode in ('IA', 'IB') else (base - delta) & M32
    in_list = (regs >> n) & 1
    if wback and not (kind in ('load', 'pop') and in_list):
        got = ST.rget({k[2:]: v for k, v in final.items() if k.startswith('R.')}, n, cm)
        lines.append('write-back: real R%d=%s architecture %s' % (n, hex(got), hex(newbase)))
        bad = bad or got != newbase
    return bad, '\n'.join(lines)


def user_replay(name, kind, K, cpu, ins, init, rd, writes):
    """LDM/STM (User registers), LDM (exception return): whole execute() against the native pseudocode loop"""
    regs = ins.get('registers', 0)
    if kind == 'ldmuser':
        regs &= 0x7FFF
    n = ins.get('n', 0)
    inc, wh = bool(ins.get('increment')), bool(ins.get('word_higher'))
    kw = dict(increment=inc, word_higher=wh, registers=regs, n=n)
    wback = bool(ins.get('wback'))
    if kind == 'ldmeret':
        kw['wback'] = wback
    op = K(ins.get('instruction', 0), **kw)
    cm = init['cpsr'] & 31
    lines = ['%s registers=%s n=%s increment=%s word_higher=%s wback=%s mode=%s' % (name, bin(regs), n, inc, wh, wback, hex(cm))]
    exc = None
    try:
        op.execute(cpu)
    except Exception as e:      # noqa
        exc = e
    final = MC.read_native(cpu, 'PMSA', 1)
    if cm == ST.HYP:
        lines.append('Hyp mode: real %s, architecture UNDEFINED' % (type(exc).__name__ if exc else 'executed'))
        return type(exc).__name__ != 'UndefinedInstructionException', '\n'.join(lines)
    if cm in (ST.USR, ST.SYS):
        return False, '\n'.join(lines + ['User/System mode: UNPREDICTABLE'])
    if exc is not None:
        return True, '\n'.join(lines + ['real raised %s: %s' % (type(exc).__name__, exc)])
    R = {k[2:]: v for k, v in init.items() if k.startswith('R.')}
    base = ST.rget(R, n, cm)
    lst = regs & 0x7FFF
    length = 4 * bin(lst).count('1') + (4 if kind == 'ldmeret' else 0) + (4 if (kind == 'stmuser' and regs >> 15) else 0)
    address = base if inc else (base - length) & M32
    if wh:
        address = (address + 4) & M32
    exp_writes = []
    for i in range(15):
        if (lst >> i) & 1:
            if kind == 'stmuser':
                exp_writes.append((address, ST.rget(R, i, ST.USR)))
            else:
                R = ST.rset(R, i, ST.USR if kind == 'ldmuser' else cm, rd(address, 4))
            address = (address + 4) & M32
    bad = False
    if kind == 'stmuser':
        if regs >> 15:
            exp_writes.append((address, (init['R.PC'] + 8) & M32))
        lines.append('real writes %s' % [(hex(a), hex(v)) for a, s_, v in writes])
        lines.append('spec writes %s' % [(hex(a), hex(v)) for a, v in exp_writes])
        bad = [(a, v) for a, s_, v in writes] != exp_writes
    else:
        skipn = [nm for c, nm in ST.bank_of(n, cm) if c][0] if (kind == 'ldmeret' and wback) else None
        diff = {k: (hex(final['R.' + k]), hex(v)) for k, v in R.items() if k != 'PC' and final['R.' + k] != v and k != skipn}
        lines.append('loaded register differences (real, spec): %s' % diff)
        bad = bool(diff)
        if kind == 'ldmeret':
            if wback and not (lst >> n) & 1:
                nb = (base + length) & M32 if inc else (base - length) & M32
                got = ST.rget({k[2:]: v for k, v in final.items() if k.startswith('R.')}, n, cm)
                lines.append('write-back: real R%d=%s architecture %s' % (n, hex(got), hex(nb)))
                bad = bad or got != nb
            # the return address is the word after the last register
            npc = rd(address, 4)
            lines.append('real PC %s ; loaded return address %s' % (hex(final['R.PC']), hex(npc)))
            bad = bad or (final['R.PC'] & ~3) != (npc & ~3)
    return bad, '\n'.join(lines)


class FlatMem:
    """interpretation of the abstract memory for the PUSH;POP / STM;LDM lemmas: a flat word memory without faults,
    kept as the list of guarded word writes on top of an arbitrary initial content (read-over-write by ite chains,
    plain bit-vector reasoning)"""

    def __init__(self, writes=()):
        self.writes = tuple(writes)

    def mem_ite(self, c, other):
        # self = other + one more write (the only shape the block-transfer specs produce)
        if self.writes[:len(other.writes)] == other.writes and len(self.writes) == len(other.writes) + 1:
            g, a, v = self.writes[-1]
            return FlatMem(other.writes + ((land(c, g), a, v),))
        if self.writes == other.writes:
            return self
        raise NotImplementedError('FlatMem merge shape')


class FlatWords:
    KIND_A, KIND_U = 0, 1
    base = [None]

    @staticmethod
    def mem_read(mem, kind, priv, addr, size):
        assert size == 4
        a = sym.fit(sym.lift(addr), 32) if not isinstance(addr, int) else z3.BitVecVal(addr, 32)
        v = sym.SymInt(z3.ZeroExt(1, FlatWords.base[0](a)), 0, M32)
        for g, wa, wv in mem.writes:
            v = ite(land(g, wa == addr), wv, v)
        return v

    @staticmethod
    def mem_write(mem, kind, priv, addr, size, value):
        assert size == 4
        return FlatMem(mem.writes + ((True, addr, value),))


def roundtrip_unit(store, load, iset, title):
    """spec-level lemma over the two verified contracts: store-multiple then load-multiple of the same list from the
    resulting base restores every listed register and the base"""
    from spec import ops_ls
    from spec.cpu import Cpu

    def symbolic(eng):
        mach = MC.SymMachine(eng, 'PMSA', 1)
        init = dict(mach.init)
        cfg = mach.configs
        eng.assume(lnot(ST.bad_mode(bits(init['cpsr'], 4, 0), cfg['have_security_ext'], cfg['have_virt_ext'])))
        regs = eng.fresh_int('registers', 16)
        eng.assume(land(bit(regs, 13) == 0, bit(regs, 15) == 0))       # SP in the list: UNKNOWN; PC: a branch
        if not eng.prefix:
            eng.cover('lemma premises satisfiable')
        mem0 = FlatMem()
        FlatWords.base[0] = z3.Function('flat0', z3.BitVecSort(32), z3.BitVecSort(32))
        old = ops_ls.AM_OVERRIDE[0]
        ops_ls.AM_OVERRIDE[0] = FlatWords
        try:
            st = dict(init)
            st['mem'] = mem0
            c1 = Cpu(st, iset, 0, 32)
            store(c1, regs)
            c2 = Cpu(dict(c1.st), iset, 0, 32)
            load(c2, regs)
        finally:
            ops_ls.AM_OVERRIDE[0] = old
        dc = lor(c1.unpred, c1.unknown, c2.unpred, c2.unknown)
        named = [(k, lor(dc, values_eq(c2.st[k], init[k]))) for k in init if k.startswith('R.') and k != 'R.PC']
        eng.oblige_all('lemma', title, named)
        cnt = popcount(regs, 16)
        sp0 = ST.rget({k[2:]: v for k, v in init.items() if k.startswith('R.')}, 13, bits(init['cpsr'], 4, 0))
        sp1 = ST.rget({k[2:]: v for k, v in c1.st.items() if k.startswith('R.')}, 13, bits(init['cpsr'], 4, 0))
        eng.oblige('lemma', 'after the store-multiple the base is the old base - 4*BitCount(registers)', values_eq(sp1, (sp0 - 4 * cnt) & M32))

    def nreplay(inputs, ob):
        return False, 'spec-level lemma (no code involved)'
    return Unit('C03/lemma:%s[%s]' % (title.split(':')[0], iset), ['C03'], symbolic, nreplay, {'contracts': {}, 'oneshot': False},
                meta={'inductive': True})


def units(tier):
    out = []
    out.append(roundtrip_unit(lambda c, r: OB.push(c, r, False), lambda c, r: OB.pop(c, r, False), 'arm',
                              'PUSH;POP: every listed register and SP are restored'))
    out.append(roundtrip_unit(lambda c, r: OB.stm(c, 13, r, True, 'DB'), lambda c, r: OB.ldm(c, 13, r, True, 'IA'), 'arm',
                              'STMDB SP!;LDMIA SP!: every listed register and SP are restored'))
    for name, (kind, mode, isets) in CLASSES.items():
        for iset in isets:
            out += make_units(name, iset)
    return out + step.units(tier)
