"""C13 — memory access model (B2.4 MemA_with_priv / MemU_with_priv and the wrappers, instruction fetch).

The real accessors are interpreted over an abstract address translation (translate_address: uninterpreted PA(va,…)
or abort), an abstract alignment_fault (abort) and an abstract physical memory hub (HubRead<n>/HubWrite<n>
uninterpreted; their byte-level meaning is C16).  Per path the sequence of translations / hub accesses with all
their arguments, the returned value, the final hub state and the frame (no other leaf changes) are compared with
the pseudocode executed on the same path."""
try:
    import z3
except ImportError:
    z3 = None

from contracts import registry
from contracts import absmem as AM
from pyvc.unit import Unit, Contract, U, K, Flag, values_eq
from pyvc.interp import PyRaise, Obj
from pyvc import sym
from pyvc.sym import land, lor, lnot, ite, implies, SymInt, SymBool
from spec import state as ST
from spec import prims as P
from spec.rt import bits, bit
from . import machine as MC
from .common import own_frame, ALSO_MEM

ASSUMPTIONS = ['translate_address / alignment_fault are abstract (any regime, any fault pattern): they are verified in C14/C15',
               'physical memory is the abstract hub HubRead<n>/HubWrite<n>; little-endian byte meaning is C16']

_fn = {}


def F(name, *sorts):
    if name not in _fn:
        _fn[name] = z3.Function(name, *sorts)
    return _fn[name]


HubSort = z3.DeclareSort('HubMem') if z3 is not None else None


class AbsHub:
    """stands for processor.mem at L4: hub[(desc, size)] / hub[(desc, size)] = value"""
    sym_class = object

    def __init__(self, eng, log):
        self.term = z3.Const('hub0', HubSort)
        self.init = self.term
        self.log = log
        eng.register(self)

    def snap(self):
        return self.term

    def restore(self, s):
        self.term = s

    def mergeable(self, snaps, ok):
        return all(s.eq(snaps[0]) for s in snaps)

    def merge(self, conds, snaps, mv):
        self.term = snaps[0]

    def sym_getattr(self, eng, name):
        if name == 'set_bits':
            # MemoryControllerHub.set_bits is a mock of the implementation (hardware update of descriptor bits)
            from pyvc.interp import _Native

            def mock(e, *a):
                raise PyRaise(e.make_exc(NotImplementedError, ''))
            return _Native(mock)
        raise PyRaise(eng.make_exc(AttributeError, "'MemoryControllerHub' object has no attribute '%s'" % name))

    def sym_getitem(self, eng, key):
        desc, size = key
        size = eng.concretize(size)
        pa = desc.attrs['paddress'].attrs['physicaladdress']
        v = hub_read(self.term, pa, size)
        self.log.append(('hubR', pa, size, v))
        return v

    def sym_setitem(self, eng, key, value):
        desc, size = key
        size = eng.concretize(size)
        pa = desc.attrs['paddress'].attrs['physicaladdress']
        self.log.append(('hubW', pa, size, value))
        self.term = hub_write(self.term, pa, size, value)
        eng.wrote()


def hub_read(term, pa, size):
    f = F('HubRead%d' % size, HubSort, z3.BitVecSort(41), z3.BitVecSort(8 * size))
    return SymInt(z3.ZeroExt(1, f(term, sym.fit(sym.lift(pa), 41))), 0, (1 << (8 * size)) - 1)


def hub_write(term, pa, size, value):
    f = F('HubWrite%d' % size, HubSort, z3.BitVecSort(41), z3.BitVecSort(8 * size + 1), HubSort)
    return f(term, sym.fit(sym.lift(pa), 41), sym.fit(sym.lift(value), 8 * size + 1))


def pa_of(va, priv, iswrite):
    f = F('PA', z3.BitVecSort(33), z3.BoolSort(), z3.BoolSort(), z3.BitVecSort(40))
    return SymInt(z3.ZeroExt(1, f(sym.fit(sym.lift(va), 33), sym.zb(priv), sym.zb(iswrite))), 0, (1 << 40) - 1)


def xlat_fault(n, va, priv, iswrite, size, wasaligned):
    f = F('XlatFault', z3.BitVecSort(8), z3.BitVecSort(33), z3.BoolSort(), z3.BoolSort(), z3.BitVecSort(8), z3.BoolSort(), z3.BoolSort())
    return SymBool(f(z3.BitVecVal(n, 8), sym.fit(sym.lift(va), 33), sym.zb(priv), sym.zb(iswrite), z3.BitVecVal(size, 8), sym.zb(wasaligned)))


def shareable_of(va):
    f = F('Shareable', z3.BitVecSort(33), z3.BoolSort())
    return SymBool(f(sym.fit(sym.lift(va), 33)))


class Abort(Exception):
    pass


def make_unit(name, size, write, kind):
    """kind: 'A' mem_a_with_priv_*, 'U' mem_u_with_priv_*, or a wrapper name"""
    m = registry.mods()
    A = m.arm_v6.ArmV6
    EX = m.arm_exceptions
    fn = getattr(A, name)
    uid = 'C13/fn:%s.ArmV6.%s[size=%d]' % (A.__module__, name, size)

    def symbolic(eng):
        log = eng.register([])
        hub = AbsHub(eng, log)
        mach = MC.SymMachine(eng, 'PMSA', 1, mem=hub)
        cpu = mach.cpu
        init = dict(mach.init)
        cfg = mach.configs
        mode0 = bits(init['cpsr'], 4, 0)
        eng.assume(lnot(ST.bad_mode(mode0, cfg['have_security_ext'], cfg['have_virt_ext'])))
        address = eng.fresh_int('address', 32)
        value = eng.fresh_int('value', 8 * size) if write else None
        priv_arg = eng.fresh_bool('privileged')
        wasal_arg = eng.fresh_bool('was_aligned')
        if not eng.prefix:
            eng.cover('state satisfiable')

        def translate(e, c, va, ispriv, iswrite, sz, wasaligned):
            n = len(log)
            sz = e.concretize(sz)
            log.append(('xlat', va, sym.truth(ispriv), sym.truth(iswrite), sz, sym.truth(wasaligned)))
            if e.istrue(xlat_fault(n, va, ispriv, iswrite, sz, wasaligned)):
                log.append(('abort',))
                raise PyRaise(Obj(EX.DataAbortException, {'args': (), 'abort_type': None, 'is_second_stage': False}))
            ma = e.new_obj(m.memory_attributes.MemoryAttributes, {
                'type': m.memory_attributes.MemType.NORMAL, 'innerattrs': 0, 'outerattrs': 0, 'innerhints': 0, 'outerhints': 0,
                'innertransient': False, 'outertransient': False, 'shareable': shareable_of(va), 'outershareable': False})
            fa = e.new_obj(m.full_address.FullAddress, {'physicaladdress': pa_of(va, ispriv, iswrite), 'ns': 0})
            return e.new_obj(m.address_descriptor.AddressDescriptor, {'memattrs': ma, 'paddress': fa})

        def align_fault(e, c, addr, iswrite):
            log.append(('alignfault', addr, sym.truth(iswrite)))
            log.append(('abort',))
            raise PyRaise(Obj(EX.DataAbortException, {'args': (), 'abort_type': None, 'is_second_stage': False}))
        contracts = {}
        contracts.update(registry.l1())
        contracts.update(registry.regview())
        contracts.update(registry.l2())
        contracts[A.translate_address] = Contract(A.translate_address, translate, engine=True)
        contracts[A.alignment_fault] = Contract(A.alignment_fault, align_fault, engine=True)
        eng.contracts = contracts
        eng.model_hook = lambda model: {'__trace__': [g[0] for g in log]}
        args = [address, size]
        if kind == 'A':
            args += [priv_arg, wasal_arg]
        elif kind == 'U':
            args += [priv_arg]
        if write:
            args.append(value)
        aborted = False
        r = None
        try:
            r = eng.call(fn, [cpu] + args)
        except PyRaise as e:
            if issubclass(e.exc.cls, EX.DataAbortException):
                aborted = True
            else:
                eng.oblige('safe.host', '%s raises %s' % (name, e.exc.cls.__name__), False, detail=str(e.exc.attrs.get('args')))
                return
        final = mach.read()
        own_frame(eng, name)
        # ---------------- expected behaviour (pseudocode) on this path
        st = init
        cur_priv = mode0 != ST.USR
        if kind == 'A':
            priv, wasaligned = priv_arg, wasal_arg
        elif kind == 'U':
            priv, wasaligned = priv_arg, True
        elif 'unpriv' in name:
            priv, wasaligned = False, True
        else:
            priv, wasaligned = cur_priv, True
        is_u = kind == 'U' or name.startswith('mem_u')
        exp = []
        E = bit(st['cpsr'], 9) == 1
        arch = cfg['arch_version']
        sA, sU = bit(st['sctlr'], 1) == 1, bit(st['sctlr'], 22) == 1
        hubterm = [hub.init]

        class Stop(Exception):
            pass

        def mem_a(addr, sz, wasal, val):
            """MemA_with_priv[addr, sz, priv, wasal] (read: val None) -> value"""
            if eng.istrue(addr == P.Align(addr, sz)):
                va = addr
            elif eng.istrue(lor(arch >= 7, sA, sU)):
                exp.append(('alignfault', addr, write))
                exp.append(('abort',))
                raise Stop()
            else:
                va = P.Align(addr, sz)
            n = len(exp)
            exp.append(('xlat', va, sym.truth(priv), write, sz, sym.truth(wasal)))
            if eng.istrue(xlat_fault(n, va, priv, write, sz, wasal)):
                exp.append(('abort',))
                raise Stop()
            pa = pa_of(va, priv, write)
            if val is None:
                v = hub_read(hubterm[0], pa, sz)
                exp.append(('hubR', pa, sz, v))
                return ite(E, P.BigEndianReverse(v, sz), v)
            v = ite(E, P.BigEndianReverse(val, sz), val)
            exp.append(('hubW', pa, sz, v))
            hubterm[0] = hub_write(hubterm[0], pa, sz, v)
            return None

        exp_r = None
        try:
            if not is_u:
                exp_r = mem_a(address, size, wasaligned, value)
            else:
                a = address
                if eng.istrue(land(arch < 7, lnot(sA), lnot(sU))):
                    a = P.Align(address, size)
                hyp = mode0 == ST.HYP
                if eng.istrue(a == P.Align(a, size)):
                    exp_r = mem_a(a, size, True, value)
                elif eng.istrue(land(cfg['have_virt_ext'], lnot(ST.is_secure(dict(st))), hyp, bit(st['hsctlr'], 1) == 1)):
                    exp.append(('alignfault', a, write))
                    exp.append(('abort',))
                    raise Stop()
                elif eng.istrue(land(lnot(hyp), sA)):
                    exp.append(('alignfault', a, write))
                    exp.append(('abort',))
                    raise Stop()
                else:
                    if write:
                        v2 = ite(E, P.BigEndianReverse(value, size), value)
                        for i in range(size):
                            mem_a_byte = bits(v2, 8 * i + 7, 8 * i)
                            # byte accesses are little-endian assembled; the E reversal was applied to the whole value
                            n = len(exp)
                            va = (a + i) & 0xFFFFFFFF
                            exp.append(('xlat', va, sym.truth(priv), True, 1, False))
                            if eng.istrue(xlat_fault(n, va, priv, True, 1, False)):
                                exp.append(('abort',))
                                raise Stop()
                            pa = pa_of(va, priv, True)
                            exp.append(('hubW', pa, 1, mem_a_byte))
                            hubterm[0] = hub_write(hubterm[0], pa, 1, mem_a_byte)
                    else:
                        acc = 0
                        for i in range(size):
                            n = len(exp)
                            va = (a + i) & 0xFFFFFFFF
                            exp.append(('xlat', va, sym.truth(priv), False, 1, False))
                            if eng.istrue(xlat_fault(n, va, priv, False, 1, False)):
                                exp.append(('abort',))
                                raise Stop()
                            pa = pa_of(va, priv, False)
                            b = hub_read(hubterm[0], pa, 1)
                            exp.append(('hubR', pa, 1, b))
                            acc = acc | (b << (8 * i))
                        exp_r = ite(E, P.BigEndianReverse(acc, size), acc)
        except Stop:
            pass
        # ---------------- compare
        got = list(log)
        same_len = len(got) == len(exp)
        eng.oblige('post', '%s: same number and kind of translations / hub accesses as the pseudocode' % name,
                   same_len and all(g[0] == e[0] for g, e in zip(got, exp)), detail='code %s spec %s' % ([g[0] for g in got], [e[0] for e in exp]))
        if not (same_len and all(g[0] == e[0] for g, e in zip(got, exp))):
            return
        named = []
        for i, (g, e) in enumerate(zip(got, exp)):
            for j in range(1, len(g)):
                named.append(('access%d.%s.arg%d' % (i, g[0], j), values_eq(g[j], e[j])))
        whole = eng.oblige_all('post', '%s: every translation and hub access has the architectural address, size, privilege, direction and data' % name, named)
        # the privilege the accesses are checked with, as an obligation of its own (last clause of C19: unprivileged load/store
        # variants are checked with User permissions): conjuncts of the comparison above
        privs = [n_ for n_ in named if n_[0].endswith('.xlat.arg2')]
        if privs:
            if whole.status == 'proved':
                eng.oblige('post.priv', '%s: every translation is requested with the architectural privilege' % name, True)
            else:
                eng.oblige_all('post.priv', '%s: every translation is requested with the architectural privilege' % name, privs)
        if not aborted and not write:
            eng.oblige('post', '%s: returned value (endianness applied)' % name, values_eq(r, exp_r))
        eng.oblige('post', '%s: physical memory afterwards' % name, sym.SymBool(hub.term == hubterm[0]))
        eng.oblige_all('frame', '%s: no register or flag changes' % name, [(k, values_eq(v, init[k])) for k, v in final.items()])
        return None

    def replay(inputs, ob):
        return c13_replay(name, size, write, kind, inputs, ob)

    # dependency units: C14 (direction/address handed to alignment_fault / translate_address) and C02/C03 (the step-level proofs of
    # loads and stores use these accessors through their abstract L5 contracts: byte order, alignment policy, privilege)
    return Unit(uid, ['C13', 'C14', 'C02', 'C03'], symbolic, replay, {'contracts': {}, 'max_paths': 4000}, meta={'function': '%s.ArmV6.%s' % (A.__module__, name), 'also': ALSO_MEM})


def native_expected(name, size, write, kind, cpu, address, priv_arg, wasal_arg, value, fault_at):
    """independent native transcription of MemA/MemU_with_priv: expected event list (identity translation)"""
    m = registry.mods()
    cfgs = m.configurations.configurations.configs
    c = cpu.registers.cpsr.value
    sc = cpu.registers.sctlr.value
    E = (c >> 9) & 1
    A, Ubit = (sc >> 1) & 1, (sc >> 22) & 1
    arch = cfgs['arch_version']
    mode = c & 31
    hyp = mode == 0x1A
    if kind == 'A':
        priv, wasal = priv_arg, wasal_arg
    elif kind == 'U':
        priv, wasal = priv_arg, True
    elif 'unpriv' in name:
        priv, wasal = False, True
    else:
        priv, wasal = mode != 0x10, True
    is_u = kind == 'U' or name.startswith('mem_u')
    ev = []
    mem = {}

    class Stop(Exception):
        pass

    def rev(v, n):
        return int.from_bytes(v.to_bytes(n, 'little'), 'big')

    def xl(va, sz, wa):
        ev.append(('xlat', va, bool(priv), bool(write), sz, bool(wa)))
        if len([e for e in ev if e[0] == 'xlat']) - 1 == fault_at:
            ev.append(('abort',))
            raise Stop()

    def mem_a(addr, sz, wa, val):
        if addr % sz == 0:
            va = addr
        elif arch >= 7 or A or Ubit:
            ev.append(('alignfault', addr, bool(write)))
            ev.append(('abort',))
            raise Stop()
        else:
            va = addr - addr % sz
        xl(va, sz, wa)
        if val is None:
            ev.append(('hubR', va, sz))
            return None
        ev.append(('hubW', va, sz, rev(val, sz) if E else val))
    try:
        if not is_u:
            mem_a(address, size, wasal, value)
        else:
            a = address
            if arch < 7 and not A and not Ubit:
                a = address - address % size
            secure = (not cfgs['have_security_ext']) or not (cpu.registers.scr.value & 1) or mode == 0x16
            if a % size == 0:
                mem_a(a, size, True, value)
            elif cfgs['have_virt_ext'] and not secure and hyp and (cpu.registers.hsctlr.value >> 1) & 1:
                ev.append(('alignfault', a, bool(write)))
                ev.append(('abort',))
            elif not hyp and A:
                ev.append(('alignfault', a, bool(write)))
                ev.append(('abort',))
            else:
                v2 = (rev(value, size) if E else value) if write else None
                for i in range(size):
                    va = (a + i) & 0xFFFFFFFF
                    xl(va, 1, False)
                    if write:
                        ev.append(('hubW', va, 1, (v2 >> (8 * i)) & 0xFF))
                    else:
                        ev.append(('hubR', va, 1))
    except Stop:
        pass
    return ev, E


def c13_replay(name, size, write, kind, inputs, ob):
    """native replay: the real accessor over an identity translation stub (faulting where the model's trace faulted)
    and a dictionary-backed hub; the trace and value are compared with an independent native transcription of the
    pseudocode"""
    m = registry.mods()
    cpu = MC.native_cpu('PMSA', 1, fresh=True)
    MC.install_native(cpu, inputs, 'PMSA', 1)
    kinds = inputs.get('__trace__') or []
    fault_at = None
    xi = -1
    for i, k in enumerate(kinds):
        if k == 'xlat':
            xi += 1
            if i + 1 < len(kinds) and kinds[i + 1] == 'abort':
                fault_at = xi
    log = []
    memd = {}

    def byte_at(pa):
        return memd.get(pa, (pa * 37 + 11) & 0xFF)

    class Hub:
        def __getitem__(self, key):
            d, sz = key
            pa = d.paddress.physicaladdress
            log.append(('hubR', pa, sz))
            return int.from_bytes(bytes(byte_at(pa + i) for i in range(sz)), 'little')

        def __setitem__(self, key, v):
            d, sz = key
            pa = d.paddress.physicaladdress
            log.append(('hubW', pa, sz, v))
            for i in range(sz):
                memd[pa + i] = (v >> (8 * i)) & 0xFF
    cpu.mem = Hub()
    nx = [0]

    def translate(va, ispriv, iswrite, sz, wasaligned):
        log.append(('xlat', va, bool(ispriv), bool(iswrite), sz, bool(wasaligned)))
        nx[0] += 1
        if fault_at is not None and nx[0] - 1 == fault_at:
            log.append(('abort',))
            raise m.arm_exceptions.DataAbortException(m.enums.DAbort.PERMISSION, False)
        d = m.address_descriptor.AddressDescriptor()
        d.paddress.physicaladdress = va
        return d
    cpu.translate_address = translate

    def afault(addr, iswrite):
        log.append(('alignfault', addr, bool(iswrite)))
        log.append(('abort',))
        raise m.arm_exceptions.DataAbortException(m.enums.DAbort.ALIGNMENT, False)
    cpu.alignment_fault = afault
    address = inputs.get('address', 0)
    pa_, wa_ = bool(inputs.get('privileged')), bool(inputs.get('was_aligned'))
    value = inputs.get('value', 0) if write else None
    args = [address, size]
    if kind == 'A':
        args += [pa_, wa_]
    elif kind == 'U':
        args += [pa_]
    if write:
        args.append(value)
    exp, E = native_expected(name, size, write, kind, cpu, address, pa_, wa_, value, fault_at)
    exc = None
    r = None
    try:
        r = getattr(cpu, name)(*args)
    except m.arm_exceptions.DataAbortException as e:
        exc = e
    except Exception as e:    # noqa
        exc = e
    c = cpu.registers.cpsr.value
    sc = cpu.registers.sctlr.value
    lines = ['%s(%s) E=%d SCTLR.A=%d SCTLR.U=%d arch=%s mode=%s' % (
        name, ', '.join(hex(a) if isinstance(a, int) and not isinstance(a, bool) else repr(a) for a in args),
        (c >> 9) & 1, (sc >> 1) & 1, (sc >> 22) & 1, m.configurations.configurations.configs.get('arch_version'), hex(c & 31)),
        'real trace: %s' % (log,), 'spec trace: %s' % (exp,)]
    bad = log != exp
    if not bad and not write and exc is None:
        # expected value: little-endian bytes of the accessed locations (byte-wise in access order), reversed if E
        reads = [e for e in exp if e[0] == 'hubR']
        if len(reads) == 1:
            v = int.from_bytes(bytes(byte_at(reads[0][1] + i) for i in range(reads[0][2])), 'little')
        else:
            v = int.from_bytes(bytes(byte_at(e[1]) for e in reads), 'little')
        if E:
            v = int.from_bytes(v.to_bytes(size, 'little'), 'big')
        lines.append('real value %s spec value %s' % (hex(r) if isinstance(r, int) else r, hex(v)))
        bad = r != v
    if exc is not None and not isinstance(exc, m.arm_exceptions.DataAbortException):
        lines.append('real raised %s: %s' % (type(exc).__name__, exc))
        bad = True
    return bad, '\n'.join(lines)


def fetch_unit(iset):
    """fetch_instruction: always little-endian (CPSR.E does not apply), second halfword iff hw1<15:11> in {11101,11110,11111}"""
    m = registry.mods()
    A = m.arm_v6.ArmV6
    EX = m.arm_exceptions
    uid = 'C13/fn:%s.ArmV6.fetch_instruction[%s]' % (A.__module__, iset)
    tbit = 0 if iset == 'arm' else 1

    def symbolic(eng):
        log = eng.register([])
        hub = AbsHub(eng, log)
        fixed = {'cpsr': lambda e, lf: (e.fresh_int('cpsr', 32) & ~((1 << 24) | (1 << 5))) | (tbit << 5)}
        mach = MC.SymMachine(eng, 'PMSA', 1, mem=hub, fixed=fixed)
        cpu = mach.cpu
        init = dict(mach.init)
        cfg = mach.configs
        mode0 = bits(init['cpsr'], 4, 0)
        eng.assume(lnot(ST.bad_mode(mode0, cfg['have_security_ext'], cfg['have_virt_ext'])))
        eng.assume(bits(init['R.PC'], 1 if iset == 'arm' else 0, 0) == 0)
        if not eng.prefix:
            eng.cover('state satisfiable')

        def translate(e, c, va, ispriv, iswrite, sz, wasaligned):
            n = len(log)
            sz = e.concretize(sz)
            log.append(('xlat', va, sym.truth(ispriv), sym.truth(iswrite), sz, sym.truth(wasaligned)))
            if e.istrue(xlat_fault(n, va, ispriv, iswrite, sz, wasaligned)):
                log.append(('abort',))
                raise PyRaise(Obj(EX.DataAbortException, {'args': (), 'abort_type': None, 'is_second_stage': False}))
            ma = e.new_obj(m.memory_attributes.MemoryAttributes, {'type': m.memory_attributes.MemType.NORMAL, 'shareable': shareable_of(va)})
            fa = e.new_obj(m.full_address.FullAddress, {'physicaladdress': pa_of(va, ispriv, iswrite), 'ns': 0})
            return e.new_obj(m.address_descriptor.AddressDescriptor, {'memattrs': ma, 'paddress': fa})

        def align_fault(e, c, addr, iswrite):
            log.append(('alignfault', addr, sym.truth(iswrite)))
            log.append(('abort',))
            raise PyRaise(Obj(EX.DataAbortException, {'args': (), 'abort_type': None, 'is_second_stage': False}))
        contracts = {}
        contracts.update(registry.l1())
        contracts.update(registry.regview())
        contracts.update(registry.l2())
        contracts[A.translate_address] = Contract(A.translate_address, translate, engine=True)
        contracts[A.alignment_fault] = Contract(A.alignment_fault, align_fault, engine=True)
        eng.contracts = contracts
        eng.model_hook = lambda model: {'__trace__': [g[0] for g in log],
                                        '__reads__': [[sym.evaluate(g[1], model), g[2], sym.evaluate(g[3], model)] for g in log if g[0] == 'hubR'],
                                        '__xlat__': [[sym.evaluate(g[1], model), sym.evaluate(pa_of(g[1], g[2], g[3]), model)] for g in log if g[0] == 'xlat']}
        aborted = False
        r = None
        try:
            r = eng.call(A.fetch_instruction, [cpu])
        except PyRaise as e:
            if issubclass(e.exc.cls, EX.DataAbortException):
                aborted = True
            else:
                eng.oblige('safe.host', 'fetch_instruction raises %s' % e.exc.cls.__name__, False)
                return
        final = mach.read()
        own_frame(eng, 'fetch_instruction')
        priv = mode0 != ST.USR
        pc = init['R.PC']
        exp = []
        words = []

        def rd(va, sz):
            n = len(exp)
            exp.append(('xlat', va, sym.truth(priv), False, sz, True))
            if eng.istrue(xlat_fault(n, va, priv, False, sz, True)):
                exp.append(('abort',))
                return None
            v = hub_read(hub.init, pa_of(va, priv, False), sz)
            exp.append(('hubR', pa_of(va, priv, False), sz, v))
            return v
        exp_op, exp_len = None, None
        if iset == 'arm':
            w = rd(pc, 4)
            if w is not None:
                exp_op, exp_len = w, 32
        else:
            h1 = rd(pc, 2)
            if h1 is not None:
                top5 = bits(h1, 15, 11)
                if eng.istrue(lor(top5 == 0b11101, top5 == 0b11110, top5 == 0b11111)):
                    h2 = rd((pc + 2) & 0xFFFFFFFF, 2)
                    if h2 is not None:
                        exp_op, exp_len = (h1 << 16) | h2, 32
                else:
                    exp_op, exp_len = h1, 16
        got = list(log)
        okk = len(got) == len(exp) and all(g[0] == e[0] for g, e in zip(got, exp))
        eng.oblige('post', 'fetch: same translations / hub accesses as the architecture (second halfword iff 32-bit prefix)', okk,
                   detail='code %s spec %s' % ([g[0] for g in got], [e[0] for e in exp]))
        if not okk:
            return
        named = []
        for i, (g, e) in enumerate(zip(got, exp)):
            for j in range(1, len(g)):
                named.append(('access%d.%s.arg%d' % (i, g[0], j), values_eq(g[j], e[j])))
        eng.oblige_all('post', 'fetch: addresses, sizes, privilege of the fetch accesses', named)
        if not aborted and exp_op is not None:
            eng.oblige('post', 'fetch: instruction word is the little-endian memory content regardless of CPSR.E', land(values_eq(r, exp_op), values_eq(final['cpu.opcode'], exp_op)))
            eng.oblige('post', 'fetch: instruction length', values_eq(final['cpu.opcode_len'], exp_len))
        eng.oblige_all('frame', 'fetch: only opcode/opcode_len change', [(k, values_eq(v, init[k])) for k, v in final.items() if k not in ('cpu.opcode', 'cpu.opcode_len')])

    def replay(inputs, ob):
        cpu = MC.native_cpu('PMSA', 1, fresh=True)
        ins = dict(inputs)
        ins['cpsr'] = (ins.get('cpsr', 0) & ~((1 << 24) | (1 << 5))) | (tbit << 5)
        MC.install_native(cpu, ins, 'PMSA', 1)
        pc = cpu.registers._R[m.registers.RName.PC]

        table = {}
        for pa_, sz_, v_ in ins.get('__reads__', []):
            for k_ in range(sz_):
                table[(pa_ + k_) & 0xFFFFFFFFFF] = (v_ >> (8 * k_)) & 0xFF          # the hub is little-endian (C16)

        def byte_at(pa):
            if pa in table:
                return table[pa]
            return (pa * 37 + 0xE9) & 0xFF if iset != 'arm' else (pa * 37 + 11) & 0xFF
        log = []

        class Hub:
            def __getitem__(self, key):
                d, sz = key
                log.append(('hubR', d.paddress.physicaladdress, sz))
                return int.from_bytes(bytes(byte_at(d.paddress.physicaladdress + i) for i in range(sz)), 'little')
        cpu.mem = Hub()

        xl = {va_: pa_ for va_, pa_ in ins.get('__xlat__', [])}

        def translate(va, ispriv, iswrite, sz, wasaligned):
            d = m.address_descriptor.AddressDescriptor()
            d.paddress.physicaladdress = xl.get(va, va)
            return d
        cpu.translate_address = translate
        r = cpu.fetch_instruction()
        ppc = xl.get(pc, pc)
        ppc2 = xl.get((pc + 2) & 0xFFFFFFFF, (pc + 2) & 0xFFFFFFFF)
        if iset == 'arm':
            exp, elen = int.from_bytes(bytes(byte_at(ppc + i) for i in range(4)), 'little'), 32
        else:
            h1 = int.from_bytes(bytes(byte_at(ppc + i) for i in range(2)), 'little')
            if (h1 >> 11) in (0b11101, 0b11110, 0b11111):
                h2 = int.from_bytes(bytes(byte_at(ppc2 + i) for i in range(2)), 'little')
                exp, elen = (h1 << 16) | h2, 32
            else:
                exp, elen = h1, 16
        lines = ['fetch at pc=%s CPSR.E=%d: real opcode %s len %s ; architectural %s len %d ; accesses %s' % (
            hex(pc), (cpu.registers.cpsr.value >> 9) & 1, hex(r), cpu.opcode_len, hex(exp), elen, log)]
        return (r != exp or cpu.opcode_len != elen), '\n'.join(lines)
    return Unit(uid, ['C13'], symbolic, replay, {'contracts': {}}, meta={'function': '%s.ArmV6.fetch_instruction' % A.__module__, 'also': ALSO_MEM})


def dispatch_unit(memarch):
    """ArmV6.translate_address: the regime's translation (translate_address_v under VMSA, translate_address_p under PMSA) is
    called once with exactly the arguments of the request and its descriptor is what the caller gets; the accessors above and
    the whole-step units use translate_address by contract, the regime functions are verified in C14 / C15."""
    m = registry.mods()
    A = m.arm_v6.ArmV6
    uid = 'C13/fn:%s.ArmV6.translate_address[%s]' % (A.__module__, memarch.lower())

    def symbolic(eng):
        log = eng.register([])
        hub = AbsHub(eng, log)
        mach = MC.SymMachine(eng, memarch, 1, mem=hub)
        cpu = mach.cpu
        init = dict(mach.init)
        va = eng.fresh_int('va', 32)
        size = eng.fresh_int('size', 4)
        ispriv, iswrite, wasal = eng.fresh_bool('ispriv'), eng.fresh_bool('iswrite'), eng.fresh_bool('wasaligned')
        marker = eng.new_obj(m.address_descriptor.AddressDescriptor, {'memattrs': None, 'paddress': None})
        calls = eng.register([])

        def tv(e, c, va_, ispriv_, iswrite_, size_, wasaligned_):
            calls.append(('v', c, va_, ispriv_, iswrite_, size_, wasaligned_))
            return marker

        def tp(e, c, va_, ispriv_, iswrite_, wasaligned_):
            calls.append(('p', c, va_, ispriv_, iswrite_, None, wasaligned_))
            return marker
        contracts = {}
        contracts.update(registry.l1())
        contracts.update(registry.regview())
        contracts.update(registry.l2())
        contracts[A.translate_address_v] = Contract(A.translate_address_v, tv, engine=True)
        contracts[A.translate_address_p] = Contract(A.translate_address_p, tp, engine=True)
        eng.contracts = contracts
        try:
            r = eng.call(A.translate_address, [cpu, va, ispriv, iswrite, size, wasal])
        except PyRaise as e:
            eng.oblige('safe.host', 'translate_address raises %s' % e.exc.cls.__name__, False, detail=str(e.exc.attrs.get('args')))
            return
        own_frame(eng, 'translate_address')
        want = 'v' if memarch == 'VMSA' else 'p'
        ok = len(calls) == 1 and calls[0][0] == want and calls[0][1] is cpu
        eng.oblige('post', 'translate_address calls the %s translation exactly once, on this processor' % memarch, ok)
        if ok:
            _, _, va_, ip_, iw_, sz_, wa_ = calls[0]
            same = [('va', values_eq(va_, va)), ('ispriv', sym.eq(sym.truth(ip_), sym.truth(ispriv))), ('iswrite', sym.eq(sym.truth(iw_), sym.truth(iswrite))),
                    ('wasaligned', sym.eq(sym.truth(wa_), sym.truth(wasal)))]
            if want == 'v':
                same.append(('size', values_eq(sz_, size)))
            eng.oblige_all('post', 'the request (address, privilege, direction, size, alignment) is handed on unchanged', same)
        eng.oblige('post', 'the descriptor of the regime translation is returned', r is marker)
        eng.oblige_all('frame', 'translate_address itself changes no register', [(k, values_eq(v, init[k])) for k, v in mach.read().items()])

    def replay(inputs, ob):
        ncpu = MC.native_cpu(memarch, 1, fresh=True)
        MC.install_native(ncpu, dict(inputs), memarch, 1)
        seen = []
        marker = object()
        ncpu.translate_address_v = lambda va, ispriv, iswrite, size, wasaligned: (seen.append(('v', va, bool(ispriv), bool(iswrite), size, bool(wasaligned))), marker)[1]
        ncpu.translate_address_p = lambda va, ispriv, iswrite, wasaligned: (seen.append(('p', va, bool(ispriv), bool(iswrite), None, bool(wasaligned))), marker)[1]
        a = (inputs.get('va', 0), bool(inputs.get('ispriv')), bool(inputs.get('iswrite')), inputs.get('size', 0), bool(inputs.get('wasaligned')))
        try:
            r = ncpu.translate_address(*a)
        except Exception as e:      # noqa
            return True, 'translate_address%r raised %s: %s' % (a, type(e).__name__, e)
        want = ('v', a[0], a[1], a[2], a[3], a[4]) if memarch == 'VMSA' else ('p', a[0], a[1], a[2], None, a[4])
        return (seen != [want] or r is not marker), 'translate_address%r: regime calls %r (architectural %r), descriptor returned: %s' % (a, seen, [want], r is marker)
    return Unit(uid, ['C13', 'C14', 'C15', 'C02', 'C03'], symbolic, replay, {'contracts': {}},
                meta={'function': '%s.ArmV6.translate_address' % A.__module__, 'also': ALSO_MEM})


def units(tier):
    out = [fetch_unit('arm'), fetch_unit('thumb'), dispatch_unit('PMSA'), dispatch_unit('VMSA')]
    for size in (1, 2, 4, 8):
        out.append(make_unit('mem_a_with_priv_get', size, False, 'A'))
        out.append(make_unit('mem_a_with_priv_set', size, True, 'A'))
        out.append(make_unit('mem_u_with_priv_get', size, False, 'U'))
        out.append(make_unit('mem_u_with_priv_set', size, True, 'U'))
    for size in (1, 2, 4):
        for nm in ('mem_a_get', 'mem_u_get', 'mem_u_unpriv_get'):
            out.append(make_unit(nm, size, False, nm))
        for nm in ('mem_a_set', 'mem_u_set', 'mem_u_unpriv_set'):
            out.append(make_unit(nm, size, True, nm))
    return out
