"""C16 — memory hub.  Real MemoryControllerHub / MemoryController / RAM / to_int / from_int code over symbolic
device lists: controllers with arbitrary (symbolic) beginning and size, arbitrary contents, arbitrary address.

Abstract view: physical byte a = memory_array[a - beginning] of the *first* controller with beginning <= a < end.
Representation invariant of every device (assumed before, proved after every operation):
len(memory_array) == size == end - beginning.

Lists of any length: the for-each loop of get_memory_by_address is cut (lookup_loop_units), the accessors are verified
against that contract over an opaque list (hub_any_unit).  Besides, units with a concrete list length (0..3 quick, 0..5
thorough; every element symbolic, everything inlined) cross-check the cut and give replayable inputs.
"""
try:
    import z3
except ImportError:
    z3 = None

from contracts import registry
from pyvc.unit import Unit, U, Contract, values_eq
from pyvc.interp import PyRaise, Obj
from pyvc import sym, bytesmodel as BM
from pyvc.sym import land, lor, lnot, ite, implies, cmp
from .common import own_frame, ALSO_MEM

ASSUMPTIONS = ['two sets of units: (a) controller lists of ANY length - the for-each loop of get_memory_by_address is cut (head / step for an '
               'arbitrary controller / tail), __getitem__ / __setitem__ use it through that contract over an opaque list; the induction over '
               'the list position that joins head, step and tail is the usual meta-argument, its premises are machine-checked; (b) concrete '
               'lists of length <= 3 (quick) / <= 5 (thorough) with every controller fully symbolic and everything inlined, as a cross-check '
               'that also yields replayable inputs',
               'engine models of bytearray slicing / slice assignment (incl. clamping and resizing) and of struct.pack/unpack']


def build_hub(eng, k):
    m = registry.mods()
    H = m.memory_controller_hub
    devs = []
    mcs = []
    for i in range(k):
        beg = eng.fresh_int('dev%d.beginning' % i, 40)
        size = eng.fresh_int('dev%d.size' % i, 33)
        ba = BM.ByteArr(eng, 'dev%d.bytes' % i, size)
        ram = eng.new_obj(m.memory_types.RAM, {'size': size, 'memory_array': ba}, tag='ram%d' % i)
        mc = eng.new_obj(H.MemoryController, {'mem': ram, 'beginning': beg, 'end': sym.add(beg, size)}, tag='mc%d' % i)
        devs.append((beg, size, ba, ram, mc))
        mcs.append(mc)
    # the hub object is built by its real constructor (so that fields a later version adds exist with their initial values),
    # then given the symbolic controller list
    hub = eng.call(H.MemoryControllerHub, [])
    hub.attrs['memories'] = eng.register(mcs)
    eng.small_model_hints = [sym.zb(land(cmp('<=', sz, 4096), cmp('<=', beg, 1 << 20))) for (beg, sz, _, _, _) in devs]
    return hub, devs


def make_desc(eng, pa):
    m = registry.mods()
    fa = eng.new_obj(m.full_address.FullAddress, {'physicaladdress': pa, 'ns': 0})
    return eng.new_obj(m.address_descriptor.AddressDescriptor, {'memattrs': None, 'paddress': fa})


def first_match(devs, a):
    """list of conditions: device i is the first whose range contains a"""
    out = []
    none_before = True
    for (beg, size, ba, ram, mc) in devs:
        inside = land(cmp('<=', beg, a), cmp('<', a, sym.add(beg, size)))
        out.append(land(none_before, inside))
        none_before = land(none_before, lnot(inside))
    return out, none_before


def le_value(ba_arr, off, size):
    v = 0
    for i in range(size):
        b = BM._byte(z3.Select(ba_arr, BM._idx(sym.add(off, i))))
        v = sym.bor(v, sym.shl(b, 8 * i))
    return v


def hub_unit(kind, k, size):
    m = registry.mods()
    H = m.memory_controller_hub
    fn = H.MemoryControllerHub.__getitem__ if kind == 'read' else H.MemoryControllerHub.__setitem__
    uid = 'C16/hub.%s[k=%d,size=%d]' % (kind, k, size)

    def symbolic(eng):
        BM.install()
        hub, devs = build_hub(eng, k)
        a = eng.fresh_int('address', 40)
        value = eng.fresh_int('value', 8 * size) if kind == 'write' else None
        if not eng.prefix:
            eng.cover('hub state satisfiable')
        desc = make_desc(eng, a)
        probe = z3.BitVec('probe_index', BM.AW)       # arbitrary index: equality at it is extensional array equality
        eng.inputs['probe_index'] = probe
        eng.all_inputs['probe_index'] = probe

        def same(x, y):
            return sym.SymBool(z3.Select(x, probe) == z3.Select(y, probe))
        fm, unmapped = first_match(devs, a)
        hub0 = dict(hub.attrs)
        mem_list = hub.attrs['memories']
        raised = None
        r = None
        try:
            if kind == 'read':
                r = eng.call(fn, [hub, (desc, size)])
            else:
                eng.call(fn, [hub, (desc, size), value])
        except PyRaise as e:
            raised = e.exc.cls
        eng.oblige('safe.host', 'no host-level error for any address, size %d (%s)' % (size, kind), raised is None,
                   detail=getattr(raised, '__name__', ''))
        own_frame(eng, 'hub %s' % kind)
        if raised is not None:
            return
        # the hub keeps no state of its own besides the controller list: an access leaves its fields as they were
        # (a lookup cache or a "last device" field would make the result of an access depend on the access history)
        changed = [k_ for k_, v_ in hub.attrs.items() if k_ != 'memories' and v_ is not hub0.get(k_) and not (
            sym.is_intlike(v_) and sym.is_intlike(hub0.get(k_)) and eng.prove(sym.zb(values_eq(v_, hub0.get(k_)))))]
        eng.oblige('frame.hub', 'an access changes no field of the hub object itself (no hidden history)', not changed,
                   detail='fields changed: %s' % changed)
        eng.oblige('frame.hub', 'the controller list is not reordered or replaced', hub.attrs['memories'] is mem_list and
                   len(mem_list) == len(devs) and all(x is y[4] for x, y in zip(mem_list, devs)))
        # representation invariant and isolation
        named = []
        for i, (beg, sz, ba, ram, mc) in enumerate(devs):
            named.append(('dev%d.len' % i, values_eq(ba.length, sz)))
            named.append(('dev%d.size' % i, values_eq(ram.attrs['size'], sz)))
            named.append(('dev%d.bounds' % i, land(values_eq(mc.attrs['beginning'], beg), values_eq(mc.attrs['end'], sym.add(beg, sz)))))
        eng.oblige_all('inv.len', 'every device keeps len(memory_array) == size == end - beginning', named)
        for i, (beg, sz, ba, ram, mc) in enumerate(devs):
            off = sym.sub(a, beg)
            whole = land(fm[i], cmp('<=', sym.add(a, size), sym.add(beg, sz)))
            if kind == 'read':
                eng.oblige('post', 'read inside device %d returns the little-endian value of its bytes' % i,
                           implies(whole, values_eq(r, le_value(ba.init_arr, off, size))))
                eng.oblige('frame', 'read leaves device %d untouched' % i, same(ba.arr, ba.init_arr))
            else:
                exp = ba.init_arr
                for j in range(size):
                    exp = z3.Store(exp, BM._idx(sym.add(off, j)), z3.Extract(7, 0, sym.fit(sym.lift(sym.shr(value, 8 * j)), 8 * size + 1)))
                eng.oblige('post', 'write inside device %d stores exactly the addressed bytes, little-endian' % i,
                           implies(whole, same(ba.arr, exp)))
                eng.oblige('frame', 'write not addressed to device %d leaves it untouched' % i,
                           implies(lnot(fm[i]), same(ba.arr, ba.init_arr)))
        if kind == 'read':
            eng.oblige('post', 'unmapped address reads as zero', implies(unmapped, values_eq(r, 0)))
        return None

    def replay(inputs, ob):
        cpu_mods = registry.mods()
        Hn = cpu_mods.memory_controller_hub
        hub = Hn.MemoryControllerHub()
        devs = []
        for i in range(k):
            beg, sz = inputs.get('dev%d.beginning' % i, 0), inputs.get('dev%d.size' % i, 0)
            if sz > 1 << 20:
                return False, 'counterexample needs a device of %d bytes; not replayed natively' % sz
            ram = cpu_mods.memory_types.RAM(sz)
            hub.memories.append(Hn.MemoryController(ram, beg, beg + sz))
            devs.append((beg, sz, ram))
        a = inputs.get('address', 0)
        d = cpu_mods.address_descriptor.AddressDescriptor()
        d.paddress.physicaladdress = a
        lines = ['devices %s address %s size %d' % ([(hex(b), s) for b, s, _ in devs], hex(a), size)]
        # device contents: a pattern in which a dropped or misplaced write is visible (the bytes a write should replace
        # start as the complement of the written value)
        for b, s, ram in devs:
            ram.memory_array[:] = bytes(((j * 37 + 11) & 0xFF) for j in range(s))
        if kind == 'write':
            wv = (inputs.get('value', 0) & ((1 << (8 * size)) - 1)).to_bytes(size, 'little')
            f0 = next((i for i, (b, s, _) in enumerate(devs) if b <= a < b + s), None)
            if f0 is not None:
                o0 = a - devs[f0][0]
                for j in range(size):
                    if o0 + j < devs[f0][1]:
                        devs[f0][2].memory_array[o0 + j] = wv[j] ^ 0xFF
        before = [bytes(r.memory_array) for _, _, r in devs]
        fields0 = {k_: (id(v_), repr(v_)[:200]) for k_, v_ in vars(hub).items() if k_ != 'memories'}
        exc = None
        r = None
        try:
            if kind == 'read':
                r = hub[d, size]
            else:
                hub[d, size] = inputs.get('value', 0)
        except Exception as e:     # noqa
            exc = e
        lines.append('outcome: %s' % ('returned %r' % (r,) if exc is None else '%s: %s' % (type(exc).__name__, exc)))
        bad = exc is not None
        if ob.get('kind') == 'frame.hub':
            fields1 = {k_: (id(v_), repr(v_)[:200]) for k_, v_ in vars(hub).items() if k_ != 'memories'}
            diff = sorted(k_ for k_ in fields1 if fields0.get(k_) != fields1[k_])
            lines.append('hub fields changed by the access: %s' % diff)
            return bool(diff), '\n'.join(lines)
        for i, (b, s, ram) in enumerate(devs):
            if len(ram.memory_array) != s:
                lines.append('device %d changed size: %d -> %d' % (i, s, len(ram.memory_array)))
                bad = True
        first = next((i for i, (b, s, _) in enumerate(devs) if b <= a < b + s), None)
        if not bad and first is not None and a + size <= devs[first][0] + devs[first][1]:
            off = a - devs[first][0]
            if kind == 'read':
                exp = int.from_bytes(before[first][off:off + size], 'little')
                lines.append('expected %s' % hex(exp))
                bad = r != exp
            else:
                exp = bytearray(before[first])
                exp[off:off + size] = inputs.get('value', 0).to_bytes(size, 'little')
                bad = bytes(devs[first][2].memory_array) != bytes(exp)
        if not bad:
            for i, (b, s, ram) in enumerate(devs):
                if i != first and bytes(ram.memory_array) != before[i]:
                    lines.append('device %d modified although not addressed' % i)
                    bad = True
            if first is None and kind == 'read' and r != 0:
                bad = True
        return bad, '\n'.join(lines)

    return Unit(uid, ['C16', 'C13', 'C02', 'C03'], symbolic, replay, {'contracts': {}, 'logic': 'QF_AUFBV'}, meta={'function': '%s.%s' % (fn.__module__, fn.__qualname__), 'also': ALSO_MEM})


def conv_units():
    """to_int / from_int"""
    m = registry.mods()
    H = m.memory_controller_hub
    out = []
    for size in (1, 2, 4, 8):
        def mk(size):
            def symbolic(eng):
                BM.install()
                v = eng.fresh_int('value', 8 * size)
                try:
                    b = eng.call(H.from_int, [v, size])
                    back = eng.call(H.to_int, [b, size])
                except PyRaise as e:
                    eng.oblige('safe.host', 'from_int/to_int raise %s for an in-range value' % e.exc.cls.__name__, False)
                    return
                eng.oblige('post', 'from_int yields %d little-endian bytes' % size,
                           land(len(b.bs) == size, *[values_eq(b.bs[i], sym.band(sym.shr(v, 8 * i), 0xFF)) for i in range(size)]))
                eng.oblige('post', 'to_int(from_int(v)) == v', values_eq(back, v))

            def replay(inputs, ob):
                v = inputs.get('value', 0)
                b = H.from_int(v, size)
                return (b != v.to_bytes(size, 'little') or H.to_int(b, size) != v), 'value %s bytes %r' % (hex(v), b)
            return Unit('C16/conv[size=%d]' % size, ['C16', 'C13', 'C02', 'C03'], symbolic, replay, {'contracts': {}, 'logic': 'QF_AUFBV'},
                        meta={'function': '%s.from_int' % H.__name__, 'also': ALSO_MEM})
        out.append(mk(size))
    return out


def add_unit(k):
    """MemoryControllerHub.add_memory / from_memory_list: registering a device appends, after the k existing controllers (which
    stay the same objects in the same order - first-match priority), a controller [beginning, end) backed by a zero-filled
    RAM of exactly end - beginning bytes: the representation the access units start from."""
    m = registry.mods()
    H = m.memory_controller_hub
    uid = 'C16/hub.add_memory[k=%d]' % k

    def symbolic(eng):
        BM.install()
        hub, devs = build_hub(eng, k)
        beg = eng.fresh_int('beginning', 40)
        end = eng.fresh_int('end', 41)
        eng.assume(cmp('<=', beg, end))
        if not eng.prefix:
            eng.cover('hub state satisfiable')
        old = list(hub.attrs['memories'])
        lst = hub.attrs['memories']
        hub0 = dict(hub.attrs)
        try:
            eng.call(H.MemoryControllerHub.add_memory, [hub, 'RAM', beg, end])
        except PyRaise as e:
            eng.oblige('safe.host', 'add_memory raises %s' % e.exc.cls.__name__, False, detail=str(e.exc.attrs.get('args')))
            return
        own_frame(eng, 'hub add_memory')
        now = hub.attrs['memories']
        ok = now is lst and len(now) == k + 1 and all(x is y for x, y in zip(now, old))
        eng.oblige('post', 'the new controller is appended: the %d existing controllers keep their identity and order' % k, ok)
        eng.oblige('frame.hub', 'registering a device changes no other field of the hub', all(v is hub0.get(n) for n, v in hub.attrs.items()) and len(hub.attrs) == len(hub0))
        if not ok:
            return
        mc = now[-1]
        good = isinstance(mc, Obj) and mc.cls is H.MemoryController
        eng.oblige('post', 'the appended entry is a MemoryController', good)
        if not good:
            return
        eng.oblige_all('post', 'the controller covers [beginning, end)', [('beginning', values_eq(mc.attrs['beginning'], beg)), ('end', values_eq(mc.attrs['end'], end))])
        ram = mc.attrs['mem']
        good = isinstance(ram, Obj) and ram.cls is m.memory_types.RAM and isinstance(ram.attrs.get('memory_array'), BM.ByteArr)
        eng.oblige('post', 'the device is a RAM backed by a bytearray', good)
        if not good:
            return
        ba = ram.attrs['memory_array']
        probe = z3.BitVec('probe_index', BM.AW)
        eng.inputs['probe_index'] = probe
        eng.all_inputs['probe_index'] = probe
        eng.oblige_all('inv.len', 'the backing store has exactly end - beginning bytes, all zero', [
            ('size', values_eq(ram.attrs['size'], sym.sub(end, beg))), ('len', values_eq(ba.length, sym.sub(end, beg))),
            ('zero', sym.SymBool(z3.Select(ba.arr, probe) == 0))])
        for (b0, s0, ba0, ram0, mc0) in devs:
            eng.oblige_all('frame', 'existing devices are untouched', [
                ('len', values_eq(ba0.length, s0)), ('bytes', sym.SymBool(z3.Select(ba0.arr, probe) == z3.Select(ba0.init_arr, probe))),
                ('beginning', values_eq(mc0.attrs['beginning'], b0)), ('end', values_eq(mc0.attrs['end'], sym.add(b0, s0))), ('mem', mc0.attrs['mem'] is ram0)])

    def replay(inputs, ob):
        hub = H.MemoryControllerHub()
        olds = []
        for i in range(k):
            b, sz = inputs.get('dev%d.beginning' % i, 0), min(inputs.get('dev%d.size' % i, 0), 1 << 16)
            try:
                hub.add_memory('RAM', b, b + sz)
            except Exception as ex:      # noqa
                return True, 'add_memory(RAM, %s, %s) raised %s: %s' % (hex(b), hex(b + sz), type(ex).__name__, ex)
            olds.append(hub.memories[-1])
        b, e = inputs.get('beginning', 0), inputs.get('end', 0)
        e = min(e, b + (1 << 16))
        try:
            hub.add_memory('RAM', b, e)
        except Exception as ex:      # noqa
            return True, 'add_memory(RAM, %s, %s) raised %s: %s' % (hex(b), hex(e), type(ex).__name__, ex)
        ms = hub.memories
        bad = len(ms) != k + 1 or any(x is not y for x, y in zip(ms, olds))
        text = 'add_memory(RAM, %s, %s) on %d devices: %d controllers' % (hex(b), hex(e), k, len(ms))
        if not bad:
            mc = ms[-1]
            text += '; appended [%s, %s) backing store %d bytes' % (hex(mc.beginning), hex(mc.end), len(mc.mem.memory_array))
            bad = mc.beginning != b or mc.end != e or len(mc.mem.memory_array) != e - b or mc.mem.size != e - b or any(mc.mem.memory_array)
        return bad, text
    return Unit(uid, ['C16', 'C13', 'C02', 'C03'], symbolic, replay, {'contracts': {}, 'logic': 'QF_AUFBV'},
                meta={'function': '%s.MemoryControllerHub.add_memory' % H.__name__, 'also': ALSO_MEM})


def from_list_unit():
    """from_memory_list == add_memory for each entry, in list order, on a fresh hub"""
    m = registry.mods()
    H = m.memory_controller_hub
    uid = 'C16/hub.from_memory_list'

    def symbolic(eng):
        BM.install()
        ents = []
        for i in range(3):
            b = eng.fresh_int('e%d.beginning' % i, 40)
            e = eng.fresh_int('e%d.end' % i, 41)
            eng.assume(cmp('<=', b, e))
            ents.append({'mem_type': 'RAM', 'beginning': b, 'end': e})
        calls = eng.register([])

        def add(e_, hub_, mem_type, beginning, end):
            calls.append((hub_, mem_type, beginning, end))
        eng.contracts = {H.MemoryControllerHub.add_memory: Contract(H.MemoryControllerHub.add_memory, add, engine=True)}
        try:
            hub = eng.call(H.MemoryControllerHub.from_memory_list, [eng.register(list(ents))])
        except PyRaise as e:
            eng.oblige('safe.host', 'from_memory_list raises %s' % e.exc.cls.__name__, False, detail=str(e.exc.attrs.get('args')))
            return
        own_frame(eng, 'hub from_memory_list')
        ok = isinstance(hub, Obj) and hub.cls is H.MemoryControllerHub and len(calls) == 3 and all(c[0] is hub for c in calls)
        eng.oblige('post', 'a new hub receives one add_memory per entry', ok)
        if ok:
            eng.oblige_all('post', 'entries are registered in list order with their own type and bounds', [
                ('e%d' % i, land(c[1] == 'RAM', values_eq(c[2], ents[i]['beginning']), values_eq(c[3], ents[i]['end']))) for i, c in enumerate(calls)])

    def replay(inputs, ob):
        ents = []
        for i in range(3):
            b = inputs.get('e%d.beginning' % i, 0)
            e = min(inputs.get('e%d.end' % i, 0), b + (1 << 12))
            ents.append({'mem_type': 'RAM', 'beginning': b, 'end': e})
        try:
            hub = H.MemoryControllerHub.from_memory_list(ents)
        except Exception as ex:     # noqa
            return True, 'from_memory_list raised %s: %s' % (type(ex).__name__, ex)
        got = [(mc.beginning, mc.end) for mc in hub.memories]
        want = [(e['beginning'], e['end']) for e in ents]
        return got != want, 'from_memory_list: controllers %r, entries %r' % (got, want)
    return Unit(uid, ['C16', 'C13', 'C02', 'C03'], symbolic, replay, {'contracts': {}, 'logic': 'QF_AUFBV'},
                meta={'function': '%s.MemoryControllerHub.from_memory_list' % H.__name__, 'also': ALSO_MEM})


class AbstractControllerList:
    """hub.memories of arbitrary length and contents: only get_memory_by_address (under its loop contract) may look at it"""
    sym_class = list

    def snap(self):
        return None

    def restore(self, s):
        pass

    def mergeable(self, snaps, ok):
        return True

    def merge(self, conds, snaps, mv):
        pass

    def sym_iter(self, eng):
        raise sym.OutOfSubset('the controller list is iterated outside get_memory_by_address (the any-length units rely on its contract)')

    def sym_getattr(self, eng, name):
        raise sym.OutOfSubset('the controller list is used directly (.%s) outside get_memory_by_address' % name)


def lookup_loop_units():
    """get_memory_by_address for a controller list of ANY length, by cutting its for-each loop: head (the loop runs over
    self.memories itself, front to back, nothing happened before), step (for an arbitrary controller: returned iff it contains the
    address, otherwise passed over; nothing is modified), tail (falling off the end returns None).  By induction over the position
    in the list: the result is the first controller, in list order, with beginning <= address < end, or None."""
    m = registry.mods()
    H = m.memory_controller_hub
    HUB = H.MemoryControllerHub
    fn = HUB.get_memory_by_address
    from pyvc.interp import CutPoint, _Return
    out = []

    def setup(eng):
        hub = eng.call(HUB, [])
        lst = eng.register([])
        hub.attrs['memories'] = lst
        a = eng.fresh_int('address', 41)
        if not eng.prefix:
            eng.cover('state satisfiable')
        return hub, lst, a

    def head(eng):
        hub, lst, a = setup(eng)
        hub0 = dict(hub.attrs)

        def hook(e, stmt, env, g):
            raise CutPoint(dict(it=e.ev(stmt.iter, env, g), orelse=bool(stmt.orelse)), e)
        eng.loop_hooks = {(fn, 0): hook}
        try:
            eng.call(fn, [hub, a])
        except CutPoint as c:
            c.reinstate(eng)
            eng.oblige('inv.init', 'the lookup scans self.memories itself, front to back (registration order = priority)', c.payload['it'] is lst and not c.payload['orelse'])
            eng.oblige('frame.hub', 'nothing is modified before the scan', all(hub.attrs.get(k_) is v_ for k_, v_ in hub0.items()) and len(hub.attrs) == len(hub0) and len(lst) == 0)
            own_frame(eng, 'get_memory_by_address')
            return
        eng.oblige('inv.init', 'get_memory_by_address reaches its scan loop', False)

    def step(eng):
        hub, lst, a = setup(eng)
        beg = eng.fresh_int('dev.beginning', 40)
        end = eng.fresh_int('dev.end', 41)
        ram = eng.new_obj(m.memory_types.RAM, {'size': 0, 'memory_array': None}, tag='ram')
        mc = eng.new_obj(H.MemoryController, {'mem': ram, 'beginning': beg, 'end': end}, tag='mc')
        mc0 = dict(mc.attrs)
        hub0 = dict(hub.attrs)
        inside = land(cmp('<=', beg, a), cmp('<', a, end))
        res = {}

        def hook(e, stmt, env, g):
            e.assign(stmt.target, mc, env, g)
            try:
                e.block(stmt.body, env, g)
            except _Return as r:
                res['ret'] = r.v
            raise CutPoint(dict(res), e)
        eng.loop_hooks = {(fn, 0): hook}
        try:
            eng.call(fn, [hub, a])
        except CutPoint as c:
            c.reinstate(eng)
            if 'ret' in c.payload:
                eng.oblige('inv.step', 'a controller is returned only if beginning <= address < end, and it is the one just examined',
                           land(inside, c.payload['ret'] is mc))
            else:
                eng.oblige('inv.step', 'a controller is passed over only if it does not contain the address', lnot(inside))
            eng.oblige('frame.hub', 'examining a controller modifies neither it nor the hub',
                       all(mc.attrs.get(k_) is v_ for k_, v_ in mc0.items()) and len(mc.attrs) == len(mc0) and
                       all(hub.attrs.get(k_) is v_ for k_, v_ in hub0.items()) and len(hub.attrs) == len(hub0) and len(lst) == 0)
            own_frame(eng, 'get_memory_by_address')
            return
        eng.oblige('inv.step', 'get_memory_by_address reaches its scan loop', False)

    def tail(eng):
        hub, lst, a = setup(eng)
        eng.loop_hooks = {(fn, 0): (lambda e, stmt, env, g: True)}
        try:
            r = eng.call(fn, [hub, a])
        except PyRaise as e:
            eng.oblige('safe.host', 'get_memory_by_address raises %s after the scan' % e.exc.cls.__name__, False)
            return
        eng.oblige('post', 'no controller contains the address: the result is None', r is None)
        own_frame(eng, 'get_memory_by_address')

    def nreplay(inputs, ob):
        # whole-function replay on a two-element list built from the model: [a device that does not contain the address, the model's device]
        hub = HUB()
        a, b, e = inputs.get('address', 0), inputs.get('dev.beginning', 0), inputs.get('dev.end', 0)
        other = H.MemoryController(m.memory_types.RAM(0), a + 1, a + 1)
        dev = H.MemoryController(m.memory_types.RAM(0), b, e)
        hub.memories.extend([other, dev])
        try:
            r = hub.get_memory_by_address(a)
        except Exception as ex:     # noqa
            return True, 'get_memory_by_address(%s) raised %s: %s' % (hex(a), type(ex).__name__, ex)
        want = dev if b <= a < e else None
        return r is not want, 'controllers [%s,%s) [%s,%s) address %s: returned %s, expected %s' % (
            hex(a + 1), hex(a + 1), hex(b), hex(e), hex(a), 'None' if r is None else '[%s,%s)' % (hex(r.beginning), hex(r.end)),
            'None' if want is None else 'the second controller')
    qn = '%s.MemoryControllerHub.get_memory_by_address' % H.__name__
    for nm, th in (('head', head), ('step', step), ('tail', tail)):
        out.append(Unit('C16/loop:get_memory_by_address/%s' % nm, ['C16', 'C13', 'C02', 'C03'], th, nreplay, {'contracts': {}, 'logic': 'QF_AUFBV'},
                        meta={'function': qn, 'inductive': True, 'also': ALSO_MEM}))
    return out


def hub_any_unit(kind, size):
    """__getitem__ / __setitem__ over a controller list of ANY length: the list itself is opaque, get_memory_by_address is used
    through the contract proved by lookup_loop_units ("first controller containing the address, or None").  devA is, by
    definition, the first controller that contains the accessed address (or there is none); a lookup of any other address may
    return None, devA (if it contains that address) or one more arbitrary controller."""
    m = registry.mods()
    H = m.memory_controller_hub
    HUB = H.MemoryControllerHub
    fn = HUB.__getitem__ if kind == 'read' else HUB.__setitem__
    uid = 'C16/hub.%s[any list,size=%d]' % (kind, size)

    def mkdev(eng, tag):
        beg = eng.fresh_int('%s.beginning' % tag, 40)
        sz = eng.fresh_int('%s.size' % tag, 33)
        ba = BM.ByteArr(eng, '%s.bytes' % tag, sz)
        ram = eng.new_obj(m.memory_types.RAM, {'size': sz, 'memory_array': ba}, tag='ram' + tag)
        mc = eng.new_obj(H.MemoryController, {'mem': ram, 'beginning': beg, 'end': sym.add(beg, sz)}, tag='mc' + tag)
        return (beg, sz, ba, ram, mc)

    def symbolic(eng):
        BM.install()
        hub = eng.call(HUB, [])
        lst = AbstractControllerList()
        eng.register(lst)
        hub.attrs['memories'] = lst
        hub0 = dict(hub.attrs)
        a = eng.fresh_int('address', 40)
        value = eng.fresh_int('value', 8 * size) if kind == 'write' else None
        mapped = eng.fresh_bool('address_is_mapped')
        devA = mkdev(eng, 'devA')
        inA = lambda x: land(cmp('<=', devA[0], x), cmp('<', x, sym.add(devA[0], devA[1])))     # noqa
        eng.assume(sym.implies(mapped, inA(a)))
        eng.small_model_hints = [sym.zb(land(cmp('<=', devA[1], 4096), cmp('<=', devA[0], 1 << 20)))]
        if not eng.prefix:
            eng.cover('hub state satisfiable')
        others = eng.register([])

        def lookup(e, hub_, x):
            if e.prove(sym.zb(values_eq(x, a))):
                return devA[4] if e.istrue(mapped) else None
            k = len(others)
            if e.istrue(e.fresh_bool('lookup%d.none' % k)):
                return None
            if e.istrue(land(mapped, e.fresh_bool('lookup%d.devA' % k), inA(x))):
                return devA[4]
            d = mkdev(e, 'dev%d' % k)
            others.append(d)
            e.assume(land(cmp('<=', d[0], x), cmp('<', x, sym.add(d[0], d[1]))))
            return d[4]
        eng.contracts = {HUB.get_memory_by_address: Contract(HUB.get_memory_by_address, lookup, engine=True,
                                                             note='proved by C16/loop:get_memory_by_address/{head,step,tail}')}
        desc = make_desc(eng, a)
        probe = z3.BitVec('probe_index', BM.AW)
        eng.inputs['probe_index'] = probe
        eng.all_inputs['probe_index'] = probe

        def same(x, y):
            return sym.SymBool(z3.Select(x, probe) == z3.Select(y, probe))
        raised = None
        r = None
        try:
            if kind == 'read':
                r = eng.call(fn, [hub, (desc, size)])
            else:
                eng.call(fn, [hub, (desc, size), value])
        except PyRaise as e:
            raised = e.exc.cls
        eng.oblige('safe.host', 'no host-level error for any controller list, any address, size %d (%s)' % (size, kind), raised is None,
                   detail=getattr(raised, '__name__', ''))
        own_frame(eng, 'hub %s' % kind)
        if raised is not None:
            return
        eng.oblige('frame.hub', 'an access changes no field of the hub object itself (no hidden history)',
                   all(hub.attrs.get(k_) is v_ for k_, v_ in hub0.items()) and len(hub.attrs) == len(hub0))
        named = []
        for i, (beg, sz, ba, ram, mc) in enumerate([devA] + list(others)):
            named.append(('dev%d.len' % i, values_eq(ba.length, sz)))
            named.append(('dev%d.size' % i, values_eq(ram.attrs['size'], sz)))
            named.append(('dev%d.bounds' % i, land(values_eq(mc.attrs['beginning'], beg), values_eq(mc.attrs['end'], sym.add(beg, sz)))))
        eng.oblige_all('inv.len', 'every device keeps len(memory_array) == size == end - beginning', named)
        beg, sz, ba, ram, mc = devA
        off = sym.sub(a, beg)
        whole = land(mapped, cmp('<=', sym.add(a, size), sym.add(beg, sz)))
        if kind == 'read':
            eng.oblige('post', 'read inside the first controller that contains the address returns the little-endian value of its bytes',
                       implies(whole, values_eq(r, le_value(ba.init_arr, off, size))))
            eng.oblige('post', 'unmapped address, or an access that runs past the end of its device, reads as zero', implies(lnot(whole), values_eq(r, 0)))
            eng.oblige('frame', 'a read leaves the addressed device untouched', same(ba.arr, ba.init_arr))
        else:
            exp = ba.init_arr
            for j in range(size):
                exp = z3.Store(exp, BM._idx(sym.add(off, j)), z3.Extract(7, 0, sym.fit(sym.lift(sym.shr(value, 8 * j)), 8 * size + 1)))
            eng.oblige('post', 'write inside the first controller that contains the address stores exactly the addressed bytes, little-endian',
                       implies(whole, same(ba.arr, exp)))
            eng.oblige('frame', 'unmapped address, or an access that runs past the end of its device: the write is ignored', implies(lnot(whole), same(ba.arr, ba.init_arr)))
        for i, d in enumerate(others):
            eng.oblige('frame', 'a controller that merely came up in another lookup is untouched', same(d[2].arr, d[2].init_arr))

    def replay(inputs, ob):
        # concrete list: [devA] if mapped else [], followed by the other devices of the model
        Hn = registry.mods().memory_controller_hub
        hub = Hn.MemoryControllerHub()
        devs = []
        names = (['devA'] if inputs.get('address_is_mapped') else []) + sorted(set(k_.split('.')[0] for k_ in inputs if k_.startswith('dev') and not k_.startswith('devA')))
        for nm in names:
            beg, sz = inputs.get(nm + '.beginning', 0), inputs.get(nm + '.size', 0)
            if sz > 1 << 20:
                return False, 'counterexample needs a device of %d bytes; not replayed natively' % sz
            ram = registry.mods().memory_types.RAM(sz)
            ram.memory_array[:] = bytes(((j * 37 + 11) & 0xFF) for j in range(sz))
            hub.memories.append(Hn.MemoryController(ram, beg, beg + sz))
            devs.append((beg, sz, ram))
        a = inputs.get('address', 0)
        d = registry.mods().address_descriptor.AddressDescriptor()
        d.paddress.physicaladdress = a
        before = [bytes(r_.memory_array) for _, _, r_ in devs]
        lines = ['devices %s address %s size %d' % ([(hex(b), s_) for b, s_, _ in devs], hex(a), size)]
        exc = r = None
        try:
            if kind == 'read':
                r = hub[d, size]
            else:
                hub[d, size] = inputs.get('value', 0)
        except Exception as e:     # noqa
            exc = e
        lines.append('outcome: %s' % ('returned %r' % (r,) if exc is None else '%s: %s' % (type(exc).__name__, exc)))
        bad = exc is not None
        for i, (b, s_, ram) in enumerate(devs):
            if len(ram.memory_array) != s_:
                lines.append('device %d changed size: %d -> %d' % (i, s_, len(ram.memory_array)))
                bad = True
        first = next((i for i, (b, s_, _) in enumerate(devs) if b <= a < b + s_), None)
        if not bad:
            inwhole = first is not None and a + size <= devs[first][0] + devs[first][1]
            if kind == 'read':
                exp = int.from_bytes(before[first][a - devs[first][0]:a - devs[first][0] + size], 'little') if inwhole else 0
                lines.append('expected %s' % hex(exp))
                bad = r != exp
            for i, (b, s_, ram) in enumerate(devs):
                expb = bytearray(before[i])
                if kind == 'write' and inwhole and i == first:
                    expb[a - b:a - b + size] = (inputs.get('value', 0) & ((1 << (8 * size)) - 1)).to_bytes(size, 'little')
                if bytes(ram.memory_array) != bytes(expb):
                    lines.append('device %d contents differ from the expected contents' % i)
                    bad = True
        return bad, '\n'.join(lines)

    return Unit(uid, ['C16', 'C13', 'C02', 'C03'], symbolic, replay, {'contracts': {}, 'logic': 'QF_AUFBV'},
                meta={'function': '%s.%s' % (fn.__module__, fn.__qualname__), 'also': ALSO_MEM, 'inductive': True})


def units(tier):
    out = conv_units()
    out.append(from_list_unit())
    out += lookup_loop_units()
    for size in (1, 2, 4, 8):
        out.append(hub_any_unit('read', size))
        out.append(hub_any_unit('write', size))
    ks = range(0, 6) if tier == 'thorough' else range(0, 4)
    for k in ks:
        for size in (1, 2, 4, 8):
            out.append(hub_unit('read', k, size))
            out.append(hub_unit('write', k, size))
        out.append(add_unit(k))
    return out
