"""Native replay of whole-step obligations: a real ArmV6 is put into the counterexample state, the memory
accessors (abstracted at L5) are replaced by a scripted stub that realises the model's access values and
faults, emulate_cycle() runs natively, and the violated obligation is re-evaluated on the concrete result."""
import importlib

from contracts import registry
from spec import state as ST
from spec import prims as P
from spec.rt import bits, bit
from . import machine as MC


def unscripted(address, size):
    """memory content where the model scripts no value (an access of a branch the merged path's log does not list): a byte
    pattern by address, so that the real run and the specification read the same memory whatever access sizes they use and
    swapped or misplaced data is visible"""
    return int.from_bytes(bytes((((address + k) & 0xFFFFFFFF) * 37 + 11) & 0xFF for k in range(size)), 'little')


class Script:
    def __init__(self, cpu, inputs):
        self.cpu = cpu
        self.accesses = list((inputs.get('__mem__') or {}).get('accesses', []))
        self.pos = 0
        self.used = set()
        self.pre_bad = {}
        self.writes = []          # (address, size, value, kind, privileged) of the real run
        self.reads = []           # (address, size, kind, privileged)
        self.inputs = inputs
        self.log = []

    def next(self, what, address, size):
        # accesses of a merged path are a superset of the executed ones: match by address and size
        n, ent = self.pos, None
        for j, e in enumerate(self.accesses):
            if e is not None and j not in self.used and e[2] == address and (e[3] == size or e[3] == 0 or size == 0):
                n, ent = j, e
                self.used.add(j)
                break
        self.pos += 1
        self.log.append('%s addr=%s size=%s -> %s' % (what, hex(address) if isinstance(address, int) else address, size, ent))
        return n, ent

    def abort(self, n):
        m = registry.mods()
        regs = self.cpu.registers
        for nm in ('dfsr', 'dfar', 'hsr', 'hdfar', 'hpfar'):
            v = self.inputs.get('abort%d.%s' % (n, nm), 0)
            tgt = getattr(regs, nm)
            if hasattr(tgt, 'value'):
                tgt.value = v
            else:
                setattr(regs, nm, v)
        al = bool(self.inputs.get('abort%d.is_alignment' % n, False))
        sec = bool(self.inputs.get('abort%d.second_stage' % n, False))
        raise m.arm_exceptions.DataAbortException(m.enums.DAbort.ALIGNMENT if al else m.enums.DAbort.PERMISSION, sec)


def install_stubs(cpu, inputs, iset):
    m = registry.mods()
    sc = Script(cpu, inputs)

    def chk(what, *a):
        try:
            ok = _native_pre('armulator.armv6.arm_v6.ArmV6.' + what, [cpu] + list(a))
        except Exception:     # noqa
            ok = False
        if not ok:
            sc.pre_bad.setdefault(what, []).append([x if isinstance(x, (int, bool)) else type(x).__name__ for x in a])

    def how(what):
        # access kind (MemA 0 / MemU 1, as in contracts.absmem) and the privilege the accessor checks permissions with
        return (0 if what.startswith('mem_a') else 1), ('unpriv' not in what and (cpu.registers.cpsr.value & 0x1F) != 0x10)

    def rd(what):
        def f(address, size, *rest):
            sc.reads.append((address, size) + how(what))
            chk(what, address, size, *rest)
            n, ent = sc.next(what, address, size)
            if ent is not None and ent[1].endswith('fault'):
                sc.abort(n)
            return ent[4] if ent is not None and ent[4] is not None else unscripted(address, size)
        return f

    def wr(what):
        def f(address, size, *rest):
            sc.writes.append((address, size, rest[-1]) + how(what))
            chk(what, address, size, *rest)
            n, ent = sc.next(what, address, size)
            if ent is not None and ent[1].endswith('fault'):
                sc.abort(n)
            return None
        return f
    cpu.mem_a_get = rd('mem_a_get')
    cpu.mem_u_get = rd('mem_u_get')
    cpu.mem_u_unpriv_get = rd('mem_u_unpriv_get')
    cpu.mem_a_set = wr('mem_a_set')
    cpu.mem_u_set = wr('mem_u_set')
    cpu.mem_u_unpriv_set = wr('mem_u_unpriv_set')

    def translate(va, ispriv, iswrite, size, wasaligned):
        chk('translate_address', va, ispriv, iswrite, size, wasaligned)
        n, ent = sc.next('translate_address', va, size)
        if ent is not None and ent[1].endswith('fault'):
            sc.abort(n)
        d = m.address_descriptor.AddressDescriptor()
        d.memattrs.shareable = bool(inputs.get('xlat%d.shareable' % n, False))
        d.memattrs.outershareable = bool(inputs.get('xlat%d.outershareable' % n, False))
        d.paddress.physicaladdress = inputs.get('xlat%d.pa' % n, 0)
        return d
    cpu.translate_address = translate

    def alignment_fault(address, iswrite):
        n, ent = sc.next('alignment_fault', address, 0)
        sc.abort(n)
    cpu.alignment_fault = alignment_fault
    # exclusive monitors: the oracles of the model
    cpu.is_exclusive_local = lambda *a: bool(inputs.get('excl.local', False))
    cpu.is_exclusive_global = lambda *a: bool(inputs.get('excl.global', False))
    instr = inputs['instr']
    oplen = 16 if iset == 'thumb16' else 32
    fetch_abort = bool((inputs.get('__mem__') or {}).get('fetch_abort', False))

    def fetch():
        if fetch_abort:
            sc.abort(0)
        cpu.opcode = instr
        cpu.opcode_len = oplen
        return instr
    cpu.fetch_instruction = fetch
    return sc


def _find(qn):
    """qualified name -> (owner object, attribute name, function)"""
    parts = qn.split('.')
    for i in range(len(parts) - 1, 0, -1):
        try:
            mod = importlib.import_module('.'.join(parts[:i]))
        except ImportError:
            continue
        o = mod
        for p in parts[i:-1]:
            o = getattr(o, p)
        return o, parts[-1], getattr(o, parts[-1])
    raise LookupError(qn)


def _native_pre(qn, args):
    """evaluate the contract precondition natively on concrete call arguments"""
    owner, name, fn = _find(qn)
    from pyvc.unit import bind
    l1 = registry.l1()
    c = l1.get(fn)
    if c is None:
        c = _ORIG.get(qn)
    if c is not None and c.requires is not None:
        a = bind(c.fn, args, {})
        return bool(c.requires(None, *a) if c.engine else c.requires(*a))
    # L2/L5 contracts: value / address range requirements
    if name in ('set', 'set_rmode', 'set_spsr', 'branch_to'):
        v = args[-1]
        return isinstance(v, int) and 0 <= v <= 0xFFFFFFFF
    if name.startswith('mem_') or name == 'translate_address':
        addr = args[1]
        ok = isinstance(addr, int) and 0 <= addr <= 0xFFFFFFFF
        if name.endswith('_set'):
            v, size = args[-1], args[2]
            ok = ok and isinstance(v, int) and 0 <= v < (1 << (8 * size))
        return ok
    if name in ('__setitem__', '_set_at'):
        self, item, value = args
        if isinstance(item, slice):
            return isinstance(value, int) and item.start >= item.stop >= 0 and 0 <= int(value) < (1 << (item.start - item.stop + 1))
        return isinstance(value, int) and item >= 0 and 0 <= int(value) <= 1
    if name in ('__getitem__', '_at'):
        return True
    return True


_ORIG = {}


def cur_cond_native(iset, instr, cpsr):
    from .step import cur_cond_spec
    return cur_cond_spec(iset, instr, 16 if iset == 'thumb16' else 32, cpsr)


def replay(iset, memarch, nregions, inputs, ob):
    from . import step as STEP
    m = registry.mods()
    cpu = MC.native_cpu(memarch, nregions, fresh=True)
    inputs = dict(inputs)
    tbit = 0 if iset == 'arm' else 1
    inputs['cpsr'] = (inputs.get('cpsr', 0) & ~((1 << 24) | (1 << 5))) | (tbit << 5)      # as constructed by the unit
    MC.install_native(cpu, inputs, memarch, nregions)
    init = MC.read_native(cpu, memarch, nregions)
    sc = install_stubs(cpu, inputs, iset)
    lines = ['state: instr=%s cpsr=%s pc=%s mode=%s config: %s' % (
        hex(inputs['instr']), hex(init['cpsr']), hex(init['R.PC']), hex(init['cpsr'] & 0x1F),
        {k[4:]: (v + 4 if k == 'cfg.arch_version' else v) for k, v in inputs.items() if k.startswith('cfg.') and v})]
    kind = ob['kind']
    pre_bad = []
    undo = []
    if kind == 'pre@callsite':
        pre_bad, undo = watch_precondition(ob['label'])
    exc = None
    snap0 = module_state_snapshot()
    taken = []
    for nm_ in ('take_svc_exception', 'take_smc_exception', 'take_hyp_trap_exception', 'take_undef_instr_exception', 'take_data_abort_exception'):
        def wrap(nm_=nm_, real_=getattr(cpu.registers, nm_)):
            def f(*a):
                taken.append(nm_)
                return real_(*a)
            return f
        setattr(cpu.registers, nm_, wrap())
    gates = []
    for nm_, pos_ in (('coproc_accepted', 0), ('coproc_get_word_to_store', 0), ('coproc_done_storing', 0), ('coproc_done_loading', 0),
                      ('coproc_send_loaded_word', 1), ('coproc_send_two_words', 2), ('coproc_get_two_words', 0), ('coproc_internal_operation', 0),
                      ('coproc_send_one_word', 1), ('coproc_get_one_word', 0)):
        def wrapg(nm_=nm_, pos_=pos_, real_=getattr(cpu, nm_)):
            def f(*a):
                gates.append((nm_, a[pos_] if len(a) > pos_ else None))
                return real_(*a)
            return f
        setattr(cpu, nm_, wrapg())
    try:
        try:
            cpu.emulate_cycle()
        except BaseException as e:     # noqa
            exc = e
    finally:
        for o, k2, v2 in undo:
            setattr(o, k2, v2)
    snap1 = module_state_snapshot()
    globals_changed = sorted(k for k in snap1 if snap0.get(k) != snap1[k])
    final = MC.read_native(cpu, memarch, nregions)
    for ln in sc.log[:8]:
        lines.append('  access ' + ln)
    eo = cpu.executed_opcode
    lines.append('executed opcode: %s   outcome: %s' % (type(eo).__name__, 'returned' if exc is None else '%s: %s' % (type(exc).__name__, exc)))
    changed = {k: (init[k], final[k]) for k in final if final[k] != init[k] and not k.startswith('chg[')}
    lines.append('changed leaves: ' + ', '.join('%s %s->%s' % (k, _h(a), _h(b)) for k, (a, b) in sorted(changed.items())[:14]))
    bad = False
    xrows = []
    if kind in ('post', 'post.exc') and eo is not None:
        from spec import encodings as ENC0
        want0 = 'arm' if iset == 'arm' else ('t16' if iset == 'thumb16' else 't32')
        xrows = [r for r in ENC0.rows_for(type(eo).__name__) if r.iset == want0 and r.match(inputs['instr']) and getattr(r, 'exc', None) is not None]
    mrows = []
    if kind == 'post' and eo is not None and isinstance(exc, NotImplementedError):
        from spec import encodings as ENC1
        want1 = 'arm' if iset == 'arm' else ('t16' if iset == 'thumb16' else 't32')
        mrows = [r for r in ENC1.rows_for(type(eo).__name__) if r.iset == want1 and r.match(inputs['instr']) and getattr(r, 'mock', False)]
    if kind == 'safe.host' and 'LSInstructionSyndrome' in ob.get('label', ''):
        try:
            iss = cpu.ls_instruction_syndrome()
            lines.append('LSInstructionSyndrome() of the decoded instruction = %r' % (iss,))
            bad = not (isinstance(iss, int) and 0 <= iss <= 0x1FF)
        except Exception as e2:      # noqa
            lines.append('LSInstructionSyndrome() raised %s: %s' % (type(e2).__name__, e2))
            bad = True
    elif kind in ('safe.host', 'safe.escape'):
        bad = exc is not None and not isinstance(exc, NotImplementedError)
    elif kind == 'post.gate':
        hooks = [g for g in gates if g[0] != 'coproc_accepted']
        lines.append('coprocessor calls in order: %s' % gates)
        diff = {k: (_h(init[k]), _h(final[k])) for k in final if k not in STEP.SCRATCH and final[k] != init[k]}
        if hooks:
            lines.append('leaves changed before the hook: %s' % diff)
        bad = bool(hooks) and (gates[0][0] != 'coproc_accepted' or gates[0][1] != hooks[0][1] or (bool(diff) and 'take_hyp_trap_exception' not in taken))
    elif mrows:
        # a hint stopped at its mock hook: the condition passed and nothing has changed by then
        from spec.cpu import Cpu
        from spec import psr as PSR
        r = mrows[0]
        oplen = 16 if iset == 'thumb16' else 32
        st0 = dict(init)
        cfgs = registry.mods().configurations.configurations.configs
        for k in MC.CFG_BOOL + list(MC.CFG_INT):
            st0['cfg.' + k] = cfgs.get(k)
        base = Cpu(dict(st0), 'arm' if iset == 'arm' else 'thumb', inputs['instr'], oplen)
        f_ = r.extract(inputs['instr'])
        u_enc = bool(r.sbz_violated(inputs['instr'])) or bool(r.unpred(f_, base) if r.unpred is not None else False)
        passed, cu = (True, False) if getattr(r, 'unconditional', False) else PSR.condition_passed('arm' if iset == 'arm' else 'thumb', inputs['instr'], oplen, init['cpsr'])
        diff = {k: (_h(init[k]), _h(final[k])) for k in final if k not in STEP.SCRATCH and final[k] != init[k]}
        lines.append('stopped at the mock hook of a hint: condition passed=%s ; leaves changed before the hook: %s%s' % (
            bool(passed), diff, ' ; UNPREDICTABLE encoding: not compared' if (u_enc or cu) else ''))
        bad = not (u_enc or cu) and (bool(diff) or not passed or bool(sc.writes))
    elif xrows:
        # exception-generating instruction (SVC, SMC): which exception, and the architectural entry from the initial state
        from spec.cpu import Cpu
        from spec import exceptions as EXC
        from spec import psr as PSR
        st0 = dict(init)
        cfgs = registry.mods().configurations.configurations.configs
        for k in MC.CFG_BOOL + list(MC.CFG_INT):
            st0['cfg.' + k] = cfgs.get(k)
        oplen = 16 if iset == 'thumb16' else 32
        r = xrows[0]
        base = Cpu(dict(st0), 'arm' if iset == 'arm' else 'thumb', inputs['instr'], oplen)
        f_ = r.extract(inputs['instr'])
        want_kind = next((k_ for c_, k_ in r.exc(base, f_) if c_), None)
        passed, cu = PSR.condition_passed('arm' if iset == 'arm' else 'thumb', inputs['instr'], oplen, init['cpsr'])
        u_enc = bool(r.sbz_violated(inputs['instr'])) or bool(r.unpred(f_, base) if r.unpred is not None else False)
        names = {'take_svc_exception': 'svc', 'take_smc_exception': 'smc', 'take_hyp_trap_exception': 'hyptrap', 'take_undef_instr_exception': 'undef'}
        got_kind = names.get(taken[0]) if len(taken) == 1 else ('none' if not taken else '+'.join(taken))
        lines.append('condition passed: %s ; the instruction specifies: %s ; real: %s' % (bool(passed), want_kind, got_kind))
        if u_enc or cu or want_kind == 'unpred' or exc is not None:
            lines.append('UNPREDICTABLE encoding / state or the step raised: not compared')
        elif not passed:
            bad = bool(taken)
        elif got_kind != want_kind:
            bad = True
        else:
            exp = dict(st0)
            if want_kind in ('hyptrap', 'svc'):
                exp['hsr'] = final['hsr']
            {'svc': EXC.take_svc, 'smc': EXC.take_smc, 'hyptrap': EXC.take_hyp_trap, 'undef': EXC.take_undef_instr}[want_kind](exp)
            diff = {k: (_h(final[k]), _h(exp[k])) for k in final if k not in STEP.SCRATCH and final[k] != exp[k]}
            lines.append('leaf differences (real, architectural entry from the initial state): %s' % diff)
            bad = bool(diff)
    elif kind == 'pre@callsite':
        nm = ob['label'].rsplit('.', 1)[-1]
        if nm in sc.pre_bad:
            pre_bad.extend(sc.pre_bad[nm])
        bad = bool(pre_bad)
        lines.append('call-site arguments violating the precondition of %s: %s' % (ob['label'], pre_bad[:3]))
    elif kind == 'inv.range':
        viol = {k: v for k, v in final.items() if (k.startswith('R.') or k.startswith('spsr_') or k in ('cpsr', 'elr_hyp'))
                and not (isinstance(v, int) and 0 <= v <= 0xFFFFFFFF)}
        lines.append('out-of-range registers: %s' % {k: _h(v) for k, v in viol.items()})
        bad = bool(viol)
    elif kind == 'inv.align':
        c1, pc1 = final['cpsr'], final['R.PC']
        t, j = (c1 >> 5) & 1, (c1 >> 24) & 1
        bad = (t == 0 and j == 0 and pc1 & 3 != 0) or (t == 1 and pc1 & 1 != 0)
        lines.append('final PC %s in %s state' % (_h(pc1), 'ARM' if (t, j) == (0, 0) else 'Thumb' if t else 'Jazelle'))
    elif kind == 'safe.noop':
        cond, cu = cur_cond_native(iset, inputs['instr'], init['cpsr'])
        c0 = init['cpsr']
        passed = P.ConditionHolds(cond, (c0 >> 31) & 1, (c0 >> 30) & 1, (c0 >> 29) & 1, (c0 >> 28) & 1)
        oplen = 2 if iset == 'thumb16' else 4
        exp = dict(init)
        exp['R.PC'] = (init['R.PC'] + oplen) & 0xFFFFFFFF
        exp['cpsr'] = ST.cpsr_with(c0, it=STEP.it_advance_spec(ST.cpsr_field(c0, 'it')))
        diff = {k: (exp[k], final[k]) for k in final if k not in STEP.SCRATCH and final[k] != exp[k]}
        wrote = [l for l in sc.log if '_set' in l]
        lines.append('condition %s %s; differences from a no-op: %s %s' % (
            bin(cond), 'PASSED' if passed else 'FAILED', {k: (_h(a), _h(b)) for k, (a, b) in diff.items()}, wrote[:2]))
        bad = (not passed) and (bool(diff) or bool(wrote) or exc is not None) and not cu
    elif kind == 'safe.user':
        c0, c1 = init['cpsr'], final['cpsr']
        if c0 & 0x1F != 0x10:
            bad = False
        else:
            if c1 & 0x1F != 0x10:
                # must be a proper exception entry
                m1 = c1 & 0x1F
                spsr = {0x13: 'spsr_svc', 0x1B: 'spsr_und', 0x17: 'spsr_abt', 0x16: 'spsr_mon', 0x1A: 'spsr_hyp'}.get(m1)
                bad = spsr is None or (final[spsr] & 0x1F) != 0x10
                lines.append('left User mode to %s; SPSR.M=%s' % (hex(m1), hex(final[spsr] & 0x1F) if spsr else None))
            else:
                diff = {k: (init[k], final[k]) for k in final if k not in STEP.USER_WRITABLE and final[k] != init[k]
                        and not (sc.pos and k in STEP.ABORT_REGS)}
                if (c1 >> 6) & 7 != (c0 >> 6) & 7:
                    diff['cpsr.AIF'] = ((c0 >> 6) & 7, (c1 >> 6) & 7)
                lines.append('privileged leaves changed from User mode: %s' % {k: (_h(a), _h(b)) for k, (a, b) in diff.items()})
                bad = bool(diff)
    elif kind == 'post.abort':
        # registers other than the abort mode's LR/SPSR and the fault registers must be as before
        keep = {k: (_h(init[k]), _h(final[k])) for k in final if k.startswith('R.') and final[k] != init[k] and k not in ('R.PC', 'R.LRabt', 'R.LRmon', 'R.LRusr')}
        lines.append('registers changed although the access aborted: %s' % keep)
        bad = bool(keep) or bool(sc.writes and not type(eo).__name__.startswith('Strd'))
    elif kind == 'decode.total':
        from spec import encodings as ENC
        from spec.cpu import Cpu
        want = 'arm' if iset == 'arm' else ('t16' if iset == 'thumb16' else 't32')
        instr = inputs['instr']
        st0 = dict(init)
        cfgs = registry.mods().configurations.configurations.configs
        for k in MC.CFG_BOOL + list(MC.CFG_INT):
            st0['cfg.' + k] = cfgs.get(k)

        class ZeroMem:
            def read(self, *a):
                return 0

            def write(self, *a):
                pass
        st0['oracle.excl_pass'] = False
        base = Cpu(st0, 'arm' if iset == 'arm' else 'thumb', instr, 16 if iset == 'thumb16' else 32, ZeroMem())
        valid = []
        for r in ENC.TABLE.rows:
            if r.iset == want and r.match(instr):
                unp, und = STEP.row_unpred_undef(r, instr, base)
                if not unp and not und:
                    valid.append(r.cls)
        lines.append('no opcode object was built (Undefined Instruction exception) for a word the table assigns to: %s' % valid)
        bad = bool(valid) and eo is None
    elif kind == 'post.exc':
        from spec import encodings as ENC
        from spec import stepspec as SS
        kname = type(eo).__name__
        want = 'arm' if iset == 'arm' else ('t16' if iset == 'thumb16' else 't32')
        instr = inputs['instr']
        st0 = dict(init)
        cfgs = registry.mods().configurations.configurations.configs
        for k in MC.CFG_BOOL + list(MC.CFG_INT):
            st0['cfg.' + k] = cfgs.get(k)
        st0['oracle.excl_pass'] = False

        class ZMem:
            def read(self, *a):
                return 0

            def write(self, *a):
                pass
        took_exc = final['cpsr'] & 0x1F != init['cpsr'] & 0x1F or any('take_' in l for l in sc.log)
        for r in [r for r in ENC.rows_for(kname) if r.iset == want and r.match(instr) and r.op is not None and r.opfields is None]:
            _, s_unpred, s_undef = SS.spec_step(r, st0, instr, 'arm' if iset == 'arm' else 'thumb', 16 if iset == 'thumb16' else 32, mem=ZMem())
            lines.append('architecture: exception expected=%s unpredictable=%s ; real mode %s -> %s' % (bool(s_undef), bool(s_unpred), hex(init['cpsr'] & 31), hex(final['cpsr'] & 31)))
            bad = bad or (not s_undef and not s_unpred and (final['cpsr'] & 0x1F) in (0x1A, 0x1B) and (init['cpsr'] & 0x1F) != (final['cpsr'] & 0x1F))
    elif kind in ('decode.fields', 'decode.exec'):
        from spec import encodings as ENC
        from spec.cpu import Cpu
        kname = type(eo).__name__
        want = 'arm' if iset == 'arm' else ('t16' if iset == 'thumb16' else 't32')
        instr = inputs['instr']
        for r in [r for r in ENC.rows_for(kname) if r.iset == want and r.match(instr) and r.opfields is not None]:
            f = r.extract(instr)
            st0 = dict(init)
            cfgs = registry.mods().configurations.configurations.configs
            for k in MC.CFG_BOOL + list(MC.CFG_INT):
                st0['cfg.' + k] = cfgs.get(k)
            base = Cpu(st0, 'arm' if iset == 'arm' else 'thumb', instr, 16 if iset == 'thumb16' else 32)
            unp = bool(r.sbz_violated(instr)) or (bool(r.unpred(f, base)) if r.unpred is not None else False)
            exp = r.opfields(f)
            got = {k: getattr(eo, k, None) for k in exp}
            lines.append('decoded fields %s ; architectural fields %s%s' % (got, exp, ' (UNPREDICTABLE encoding)' if unp else ''))
            if kind == 'decode.fields':
                bad = bad or (not unp and any((bool(got[k]) != bool(exp[k])) if isinstance(exp[k], bool) else (got[k] != exp[k]) for k in exp))
            else:
                from props import c03
                bad = bad or type(eo).execute is not c03.klass(r.exec_class).execute
    elif kind in ('decode.class', 'post', 'post.unpred', 'post.pc', 'post.banks', 'post.it'):
        from spec import encodings as ENC
        from spec import stepspec as SS
        kname = type(eo).__name__
        want = 'arm' if iset == 'arm' else ('t16' if iset == 'thumb16' else 't32')
        rows = [r for r in ENC.rows_for(kname) if r.iset == want]
        instr = inputs['instr']
        matching = [r for r in rows if r.match(instr)]
        lines.append('decoder selected %s; table rows of that class: %s; rows matching the word: %d' % (
            kname, [r.pattern for r in rows], len(matching)))
        if kind == 'decode.class':
            allm = [r.cls for r in ENC.TABLE.rows if r.iset == want and r.match(instr)]
            lines.append('table rows matching the word: %s' % allm)
            bad = bool(rows) and not matching
        else:
            st0 = dict(init)
            cfgs = registry.mods().configurations.configurations.configs
            for k in MC.CFG_BOOL + list(MC.CFG_INT):
                st0['cfg.' + k] = cfgs.get(k)
            shs = sorted(k for k in inputs if k.startswith('xlat') and k.endswith('.shareable'))
            shareable = bool(inputs.get(shs[0])) if shs else False
            st0['oracle.excl_pass'] = bool(inputs.get('excl.local')) and (not shareable or bool(inputs.get('excl.global')))
            st0['oracle.unknown_store'] = sc.writes[0][2] if sc.writes else 0
            bad = False

            class NativeMem:
                """the spec's view of memory in a replay: reads return the scripted values, writes are logged"""

                def __init__(self):
                    self.used = set()
                    self.writes = []
                    self.reads = []

                def read(self, kind, priv, addr, size):
                    self.reads.append((addr, size, kind, bool(priv)))
                    for j, e in enumerate(sc.accesses):
                        if e is not None and j not in self.used and e[1] == 'R' and e[2] == addr and e[3] == size:
                            self.used.add(j)
                            return e[4] if e[4] is not None else unscripted(addr, size)
                    return unscripted(addr, size)

                def write(self, kind, priv, addr, size, value):
                    self.writes.append((addr, size, value, kind, bool(priv)))
            real_writes = []
            for l in sc.log:
                if '_set' in l:
                    real_writes.append(l)
            for r in matching:
                nm = NativeMem()
                exp, s_unpred, s_undef = SS.spec_step(r, st0, instr, 'arm' if iset == 'arm' else 'thumb', 16 if iset == 'thumb16' else 32, mem=nm)
                if kind == 'post.unpred':
                    lines.append('spec: UNDEFINED=%s ; real executed normally=%s' % (bool(s_undef), exc is None))
                    bad = bad or (bool(s_undef) and exc is None)
                    continue
                if s_unpred or s_undef:
                    lines.append('spec: architecturally %s for this input' % ('UNPREDICTABLE' if s_unpred else 'UNDEFINED'))
                    continue
                unk = exp.get('__unkmask__', {})
                diff = {k: (_h(final[k]), _h(exp[k])) for k in final if k not in STEP.SCRATCH and
                        (final[k] != exp.get(k) if not unk.get(k) else (final[k] & ~unk[k]) != (exp[k] & ~unk[k]))}
                lines.append('leaf differences (real, spec): %s' % diff)
                rw = sorted(sc.writes)
                sw = sorted(nm.writes)
                fmt = lambda ws: [(hex(w[0]), w[1], hex(w[2]), 'MemA' if w[3] == 0 else 'MemU', 'privileged' if w[4] else 'unprivileged') for w in ws]
                if rw != sw:
                    lines.append('memory writes real %s spec %s' % (fmt(rw), fmt(sw)))
                # reads: the specification may read more than the code does (both arms of a conditional), so every real read
                # has to be one the specification makes with the same kind and privilege
                rr = [x for x in sc.reads if x not in nm.reads]
                if rr:
                    lines.append('memory reads of the real run that the specification does not make (address, size, kind, privileged): %s ; spec reads %s' % (
                        [(hex(a), s_, k_, p_) for a, s_, k_, p_ in rr], [(hex(a), s_, k_, p_) for a, s_, k_, p_ in nm.reads]))
                bad = bad or bool(diff) or exc is not None or rw != sw or bool(rr)
    elif kind == 'frame.own':
        lines.append('module-level mutable state changed by the step: %s' % (globals_changed,))
        lines.append(ob.get('detail', ''))
        bad = bool(globals_changed)
    elif kind == 'frame':
        bad = set(vars(cpu)) - {'mem_a_get', 'mem_u_get', 'mem_u_unpriv_get', 'mem_a_set', 'mem_u_set', 'mem_u_unpriv_set',
                                'translate_address', 'alignment_fault', 'fetch_instruction'} != MC.KNOWN_CPU_ATTRS
    else:
        lines.append('replay for obligation kind %s not implemented' % kind)
        return False, '\n'.join(lines)
    return bool(bad), '\n'.join(lines)


def _h(v):
    return hex(v) if isinstance(v, int) and not isinstance(v, bool) else repr(v)


def watch_precondition(qn):
    """patch the callee `qn` in every namespace of the package with a wrapper that evaluates its contract's
    precondition natively on the actual arguments -> (list collecting violating argument tuples, undo list)"""
    pre_bad = []
    undo = []
    owner, name, fn = _find(qn)
    c0 = registry.l1().get(fn)
    if c0 is not None:
        _ORIG[qn] = c0
    is_static = isinstance(owner.__dict__.get(name), staticmethod) if isinstance(owner, type) else False

    def wrapper(*a, **k):
        try:
            ok = _native_pre(qn, list(a))
        except Exception as e:      # noqa
            ok = False
        if not ok:
            pre_bad.append([x if isinstance(x, (int, bool, slice)) else type(x).__name__ for x in a])
        return fn(*a, **k)
    import sys
    for mod in list(sys.modules.values()):
        if mod is None or not getattr(mod, '__name__', '').startswith('armulator'):
            continue
        for k2, v2 in list(vars(mod).items()):
            if v2 is fn:
                undo.append((mod, k2, v2))
                setattr(mod, k2, wrapper)
    if isinstance(owner, type):
        undo.append((owner, name, owner.__dict__[name]))
        setattr(owner, name, staticmethod(wrapper) if is_static else wrapper)
    return pre_bad, undo


def module_state_snapshot():
    """repr of every module-level mutable object (dict/list/set/bytearray/plain instance) of the armulator package,
    except the configuration singleton's own state holder handled by C20's creation unit"""
    import sys
    import types
    import enum
    out = {}
    for mn, mod in list(sys.modules.items()):
        if mod is None or not mn.startswith('armulator'):
            continue
        for k, v in list(vars(mod).items()):
            if k.startswith('__'):
                continue
            if isinstance(v, (dict, list, set, bytearray)):
                out['%s.%s' % (mn, k)] = repr(v)[:2000]
            elif hasattr(v, '__dict__') and not isinstance(v, (type, types.ModuleType, types.FunctionType, enum.Enum)) and not callable(v):
                out['%s.%s' % (mn, k)] = repr(sorted(vars(v).items(), key=lambda kv: kv[0]))[:4000]
    return out
