"""C10 — register file integrity.

(a) Every L2 accessor of Registers (banked get/set by current and explicit mode, SPSR selection, branch_to,
    mode predicates) is verified against the sidecar contract that all higher layers use at call sites; the
    contract is the single banking table of spec/state.py, so each write has a single-physical-register frame.
(b) The range invariant is the family of pre@callsite obligations of the writers in every step unit plus the
    final-state check inv.range (props/step.py).
"""
from contracts import registry
from pyvc.unit import U, R
from . import step
from .common import method_unit

DEPENDENTS = ['C01', 'C02', 'C03', 'C04', 'C05', 'C06', 'C07', 'C08', 'C09', 'C11', 'C12', 'C13', 'C14', 'C18', 'C19', 'C20']

ASSUMPTIONS = step.ASSUMPTIONS + [
    'histories: banks untouched across mode switches follow by induction from the single-register frames proved here',
]


def l2_units():
    m = registry.mods()
    Rg = m.registers.Registers
    C2 = registry.l2()
    base = {}
    base.update(registry.l1())
    base.update(registry.regview())
    out = []

    def mu(fn, doms, **kw):
        out.append(method_unit('C10', fn, doms, on='regs', contract=C2[fn], contracts=base, **kw))
    n14 = ('n', R(0, 15))
    mode = ('mode', U(5))
    val = ('value', U(32))
    mu(Rg.get_rmode, [n14, mode])
    mu(Rg.set_rmode, [n14, mode, val])
    mu(Rg.get, [('n', R(0, 16))])
    mu(Rg.set, [n14, val])
    mu(Rg.branch_to, [('address', U(32))])
    mu(Rg.get_spsr, [])
    mu(Rg.set_spsr, [val])
    mu(Rg.is_secure, [])
    mu(Rg.bad_mode, [mode])
    mu(Rg.current_mode_is_not_user, [])
    mu(Rg.current_mode_is_hyp, [])
    mu(Rg.current_mode_is_user_or_system, [])
    mu(Rg.current_instr_set, [])
    for u in out:
        u.props = ['C10'] + [p for p in DEPENDENTS if p != 'C10']
    return out


def units(tier):
    return l2_units() + step.units(tier)
