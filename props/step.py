"""Whole-step units: ArmV6.emulate_cycle explored symbolically over an instruction-word cube.

The real emulate_cycle / decode / from_bitarray / execute / exception-entry code is interpreted; below it the
L1/L2 contracts and the abstract memory contracts of L5 are used.  Uniform (spec-free) obligations:

  safe.host   C18  no host-level error escapes the step, on any path incl. UNPREDICTABLE ones
  inv.range   C10  every core register / SPSR / PC ends in 0..2^32-1 (via pre@callsite of the writers + final check)
  inv.align   C04  PC halfword-aligned in Thumb state, word-aligned in ARM state after the step
  safe.noop   C05  if the architectural condition fails, nothing changes but PC (+len) and ITSTATE (advance)
  safe.user   C19  from User mode: still User with privileged state unchanged, or an exception was taken
"""
import os

from contracts import registry
from contracts import absmem as AM
from pyvc.unit import Unit, Contract, values_eq
from pyvc.interp import PyRaise, Obj, HOST_ERRORS
from pyvc import sym
from pyvc.sym import land, lor, lnot, ite, implies
from spec import state as ST
from spec import prims as P
from spec.rt import bits, bit
from . import machine as MC
from . import families as FAM
from spec import encodings as ENC
from spec import stepspec as SS
from spec import exceptions as EXC
from spec import psr as PSR

ASSUMPTIONS = [
    'L5 abstraction: memory accessors are uninterpreted functions (MemRead/MemWrite/MemFault) of an abstract memory token; '
    'their meaning is proved separately at L4',
    'instruction fetch returns an arbitrary word (fetch_instruction contract); mock hooks raise NotImplementedError',
]

ARCH_EXC = ('SVCException', 'SMCException', 'DataAbortException', 'HypTrapException', 'UndefinedInstructionException',
            'EndOfInstruction')
SCRATCH = {'cpu.opcode', 'cpu.opcode_len', 'it_state_restored'} | {'chg[%d]' % i for i in range(16)}
USER_WRITABLE = {'R.PC', 'cpsr', 'mem', 'event_register', 'cpu.is_wait_for_event', 'cpu.is_wait_for_interrupt',
                 'cpu.run'} | {'R.R%dusr' % i for i in range(13)} | {'R.SPusr', 'R.LRusr'} | SCRATCH
ABORT_REGS = {'dfsr', 'dfar', 'hsr', 'hdfar', 'hpfar'}


def all_contracts():
    C = {}
    C.update(registry.l1())
    C.update(registry.regview())
    C.update(registry.l2())
    C.update(registry.l5())
    return C


def cur_cond_spec(iset, instr, oplen, cpsr):
    """CurrentCond() per Appendix C of DESIGN.md. returns (cond, unpredictable)"""
    it = ST.cpsr_field(cpsr, 'it')
    itcond = ite(bits(it, 3, 0) != 0, bits(it, 7, 4), 0b1110)
    it_unpred = land(bits(it, 3, 0) == 0, it != 0)
    if iset == 'arm':
        return bits(instr, 31, 28), False
    if iset == 'thumb16':
        is_b_t1 = land(bits(instr, 15, 12) == 0b1101, bits(instr, 11, 9) != 0b111)
        return ite(is_b_t1, bits(instr, 11, 8), itcond), land(lnot(is_b_t1), it_unpred)
    is_b_t3 = land(bits(instr, 31, 27) == 0b11110, bits(instr, 15, 14) == 0b10, bit(instr, 12) == 0,
                   bits(instr, 25, 23) != 0b111)
    return ite(is_b_t3, bits(instr, 25, 22), itcond), land(lnot(is_b_t3), it_unpred)


def it_advance_spec(it):
    return ite(bits(it, 2, 0) == 0, 0, (it & 0xE0) | ((it << 1) & 0x1F))


def make_unit(iset, cube_name, cube_pred, memarch='PMSA', nregions=1, props=('C18', 'C10', 'C04', 'C05', 'C19', 'C01', 'C02', 'C03', 'C06', 'C07', 'C08', 'C09', 'C11', 'C12', 'C13', 'C14', 'C20')):
    m = registry.mods()
    A = m.arm_v6.ArmV6
    Rg = m.registers.Registers
    uid = 'STEP/%s/%s/%s' % (iset, memarch.lower(), cube_name)
    tbit = 0 if iset == 'arm' else 1

    def symbolic(eng):
        mem = AM.AbsMem(eng)
        fixed = {'cpsr': lambda e, lf: (e.fresh_int('cpsr', 32) & ~((1 << 24) | (1 << 5))) | (tbit << 5)}
        mach = MC.SymMachine(eng, memarch, nregions, fixed=fixed, mem=mem)
        cpu, regs = mach.cpu, mach.regs
        init = dict(mach.init)
        cfg = mach.configs
        cpsr0 = init['cpsr']
        mode0 = bits(cpsr0, 4, 0)
        # ---- ValidState
        eng.assume(lnot(ST.bad_mode(mode0, cfg['have_security_ext'], cfg['have_virt_ext'])))
        eng.assume(bits(init['R.PC'], 1 if iset == 'arm' else 0, 0) == 0)
        it0_ = ST.cpsr_field(cpsr0, 'it')
        if iset == 'arm':
            eng.assume(it0_ == 0)       # ITSTATE is zero outside Thumb state
        else:
            eng.assume(implies(bits(it0_, 3, 0) == 0, it0_ == 0))      # the only ITSTATE with an empty mask is 0
        eng.assume(bits(cpsr0, 23, 20) == 0)      # CPSR<23:20> reserved, RAZ (kept by every step: inv.cpsr below)
        for nm in ('hvbar', 'mvbar', 'vbar'):
            eng.assume(bits(init[nm], 4, 0) == 0)
        eng.assume(bits(init['mpuir'], 15, 8) <= nregions)
        # ---- instruction word
        oplen = 16 if iset == 'thumb16' else 32
        instr = cube_pred(eng, oplen)
        if not eng.prefix:
            eng.cover('ValidState and instruction cube satisfiable')
        events = eng.register([])

        def hook(model):
            acc = []
            for (kind, what, addr, size, value) in mem.accesses:
                acc.append([kind, what, sym.evaluate(addr, model), size, sym.evaluate(value, model) if value is not None else None])
            return {'__mem__': {'accesses': acc, 'fetch_abort': 'fetch-abort' in events}}
        eng.model_hook = hook

        def fetch_spec(e, c):
            # abstract fetch: may abort; otherwise yields the arbitrary word `instr`
            if e.istrue(AM.mem_fault(mem.term, AM.KIND_A, mode0 != ST.USR, init['R.PC'], oplen // 8, False)):
                events.append('fetch-abort')
                registry.l5_raise_abort()(e, c, AM.KIND_A)
            c.attrs['opcode'] = instr
            c.attrs['opcode_len'] = oplen
            e.wrote()
            return instr
        contracts = dict(all_contracts())
        contracts[A.fetch_instruction] = Contract(A.fetch_instruction, fetch_spec, engine=True)
        # exclusive monitors: their state lives outside the machine state; the answers are oracles of the unit
        excl = {}

        def excl_oracle(which):
            def spec(e, c, paddress, processorid, size):
                if which not in excl:
                    excl[which] = e.fresh_bool('excl.' + which)
                return excl[which]
            return spec
        contracts[A.is_exclusive_local] = Contract(A.is_exclusive_local, excl_oracle('local'), engine=True)
        contracts[A.is_exclusive_global] = Contract(A.is_exclusive_global, excl_oracle('global'), engine=True)
        # record exception entries (bodies are still interpreted)
        for nm in ('take_svc_exception', 'take_smc_exception', 'take_data_abort_exception', 'take_hyp_trap_exception',
                   'take_undef_instr_exception'):
            fn = getattr(Rg, nm)

            def mk(fn, nm):
                def spec(e, *a):
                    events.append(nm)
                    return e.run_function(fn, list(a), {})
                return Contract(fn, spec, engine=True)
            contracts[fn] = mk(fn, nm)
        # coprocessor instructions: the (mock) transfer hooks are reached only through Coproc_Accepted() for the same coprocessor
        gates = eng.register([])

        def gate(fn, nm, pos_cp):
            def spec(e, *a):
                gates.append((nm, a[pos_cp] if len(a) > pos_cp else None))
                return e.run_function(fn, list(a), {})
            return Contract(fn, spec, engine=True)
        contracts[A.coproc_accepted] = gate(A.coproc_accepted, 'coproc_accepted', 1)
        for nm, pos in (('coproc_get_word_to_store', 1), ('coproc_done_storing', 1), ('coproc_done_loading', 1), ('coproc_send_loaded_word', 2),
                        ('coproc_send_two_words', 3), ('coproc_get_two_words', 1), ('coproc_internal_operation', 1), ('coproc_send_one_word', 2),
                        ('coproc_get_one_word', 1)):
            contracts[getattr(A, nm)] = gate(getattr(A, nm), nm, pos)
        eng.contracts = contracts
        outcome = 'ok'
        exc = None
        try:
            eng.call(A.emulate_cycle, [cpu])
        except PyRaise as r:
            exc = r.exc
            outcome = exc.cls.__name__
        final = mach.read()
        eo_ = cpu.attrs['executed_opcode']
        fam = FAM.family_of_class(eo_.cls) if isinstance(eo_, Obj) else ('C06' if iset == 'arm' else 'C07')
        for ob in eng.obligations:
            if ob.kind == 'pre@callsite' and ob.props is None:
                ob.props = [callsite_prop(ob.label, fam)]
        eo = cpu.attrs['executed_opcode']
        kname = eo.cls.__name__ if isinstance(eo, Obj) else 'none'
        tag = '%s' % kname
        unpred = eng.path.unpred
        # ---- C18
        if exc is not None:
            if issubclass(exc.cls, NotImplementedError):
                pass        # explicitly unimplemented feature: accepted outcome
            else:
                ob = eng.oblige('safe.host', '%s: step raises %s' % (tag, outcome), False,
                                detail=str(exc.attrs.get('args')))
                ob.props = ['C18']
                if eng.foreign_writes or eng.foreign_reads:
                    # (state kept outside the instance often shows first as a host error of the model - the engine does not let a
                    # write to a foreign object take effect -: the ownership obligations are stated on this path as well)
                    ob = eng.oblige('frame.own', '%s: no access to mutable state outside the processor instance' % tag, False,
                                    detail='; '.join(list(eng.foreign_writes[:3]) + sorted(eng.foreign_reads)[:3]))
                    ob.props = ['C20']
                return
        ok18 = eng.oblige('safe.host', '%s: step completes or takes an architectural exception' % tag, True)
        ok18.props = ['C18']
        if exc is not None:
            # stopped at a mock hook (NotImplementedError): what happened up to there still has to respect the range,
            # privilege-confinement and ownership obligations
            cpsr1 = final['cpsr']
            rng = [land(v >= 0, v <= 0xFFFFFFFF) if sym.is_intlike(v) else False for k, v in final.items()
                   if k.startswith('R.') or k.startswith('spsr_') or k in ('cpsr', 'elr_hyp')]
            ob = eng.oblige('inv.range', '%s: registers, SPSRs, PC in 0..2^32-1 when a mock hook stops the step' % tag, land(*rng))
            ob.props = ['C10']
            if sym.is_intlike(cpsr1):
                same = [bits(cpsr1, 4, 0) == ST.USR, bits(cpsr1, 8, 6) == bits(cpsr0, 8, 6)]
                for k, v in final.items():
                    if k in USER_WRITABLE or k.startswith('cfg.') or ('fetch-abort' in events and k in ABORT_REGS):
                        continue
                    same.append(values_eq(v, init[k]))
                took_ = [e for e in events if e != 'fetch-abort']
                ob = eng.oblige('safe.user', '%s: User mode cannot change privileged state (stopped at a mock hook)' % tag,
                                implies(mode0 == ST.USR, lor(bool(took_), land(*same))))
                ob.props = ['C19']
            ob = eng.oblige('frame.own', '%s: no write to an object outside the processor instance' % tag, not eng.foreign_writes,
                            detail='; '.join(eng.foreign_writes[:4]))
            ob.props = ['C20']
            hooks = [g_ for g_ in gates if g_[0] != 'coproc_accepted']
            if hooks:
                acc = [g_ for g_ in gates if g_[0] == 'coproc_accepted']
                okg = bool(acc) and gates[0][0] == 'coproc_accepted'
                ob = eng.oblige('post.gate', '%s: the coprocessor hook %s is reached only after Coproc_Accepted()' % (tag, hooks[0][0]), okg)
                ob.props = ['C12', 'C19']
                if okg:
                    # (where Coproc_Accepted() itself took a Hyp trap - CP14 ThumbEE registers under HSTR.TTEE - the implementation falls
                    # through to the hook with the trap entered: recorded in DESIGN.md 14.14, outside every claim like the hooks themselves)
                    trapped = 'take_hyp_trap_exception' in events
                    ob = eng.oblige('post.gate', '%s: Coproc_Accepted() was asked about the coprocessor the transfer goes to, and nothing changed before the hook' % tag,
                                    land(values_eq(acc[0][1], hooks[0][1]), *([] if trapped else [values_eq(v, init[k]) for k, v in final.items() if k not in SCRATCH])))
                    ob.props = ['C12', 'C19']
            # hints and barriers (rows marked mock): the hook is reached only when the condition passes, and nothing has changed by then
            want_ = 'arm' if iset == 'arm' else ('t16' if iset == 'thumb16' else 't32')
            for r in [r_ for r_ in ENC.rows_for(kname) if r_.iset == want_ and getattr(r_, 'mock', False)]:
                if getattr(r, 'unconditional', False):
                    passed_m, cu_m = True, False
                else:
                    passed_m, cu_m = PSR.condition_passed('arm' if iset == 'arm' else 'thumb', instr, oplen, init['cpsr'])
                from spec.cpu import Cpu
                f_m = r.extract(instr)
                base_m = Cpu(dict(init), 'arm' if iset == 'arm' else 'thumb', instr, oplen)
                waive_m = lor(lnot(r.match(instr)), unpred, cu_m, r.sbz_violated(instr), r.unpred(f_m, base_m) if r.unpred is not None else False)
                named = [(k, lor(waive_m, values_eq(v, init[k]))) for k, v in final.items() if k not in SCRATCH]
                named.append(('mem', lor(waive_m, sym.SymBool(mem.term == mem.init))))
                named.append(('condition', lor(waive_m, passed_m)))
                ob = eng.oblige_all('post', '%s: the hint reaches its (mock) hook only when its condition passes, with the state untouched' % tag, named)
                ob.props = fams(r, fam)
            return
        # ---- C10 range invariant on every core register, SPSR, PC
        rng = []
        for k, v in final.items():
            if k.startswith('R.') or k.startswith('spsr_') or k in ('cpsr', 'elr_hyp'):
                if sym.is_intlike(v):
                    rng.append(land(v >= 0, v <= 0xFFFFFFFF))
                else:
                    rng.append(False)
        ob = eng.oblige('inv.range', '%s: registers, SPSRs, PC in 0..2^32-1 after the step' % tag, land(*rng))
        ob.props = ['C10']
        # ---- C04 alignment of the final PC for the final instruction set state
        cpsr1 = final['cpsr']
        if sym.is_intlike(cpsr1):
            ob = eng.oblige('inv.cpsr', '%s: the reserved bits CPSR<23:20> stay zero' % tag, bits(cpsr1, 23, 20) == 0)
            ob.props = ['C10']
        pc1 = final['R.PC']
        if sym.is_intlike(cpsr1) and sym.is_intlike(pc1):
            is_arm = ST.iset(cpsr1) == ST.ISET_ARM
            is_thumb = lor(ST.iset(cpsr1) == ST.ISET_THUMB, ST.iset(cpsr1) == ST.ISET_THUMBEE)
            al = land(implies(is_arm, bits(pc1, 1, 0) == 0), implies(is_thumb, bit(pc1, 0) == 0))
            ob = eng.oblige('inv.align', '%s: final PC aligned for the final instruction set' % tag, lor(unpred, al))
            ob.props = ['C04']
        took = [e for e in events if e != 'fetch-abort']
        # ---- C05 failed condition => no-op
        if not events:
            cond, cu = cur_cond_spec(iset, instr, oplen, cpsr0)
            passed = P.ConditionHolds(cond, bit(cpsr0, 31), bit(cpsr0, 30), bit(cpsr0, 29), bit(cpsr0, 28))
            it0 = ST.cpsr_field(cpsr0, 'it')
            exp_cpsr = ST.cpsr_with(cpsr0, it=it_advance_spec(it0))
            same = []
            skip = lor(passed, unpred, cu, _is_bkpt(iset, instr), land(bits(it0, 3, 0) != 0, _unpred_in_it_block(iset, instr)))
            for k, v in final.items():
                if k in SCRATCH:
                    continue
                if k == 'R.PC':
                    same.append((k, lor(skip, values_eq(v, (init['R.PC'] + oplen // 8) & 0xFFFFFFFF))))
                elif k == 'cpsr':
                    same.append((k, lor(skip, values_eq(v, exp_cpsr))))
                else:
                    same.append((k, lor(skip, values_eq(v, init[k]))))
            same.append(('mem', lor(skip, sym.SymBool(mem.term == mem.init))))
            ob = eng.oblige_all('safe.noop', '%s: failed condition leaves everything but PC/ITSTATE unchanged' % tag, same)
            ob.props = ['C05']
        elif 'fetch-abort' not in events and took:
            # SVC / SMC / Hyp trap / data abort raised by the instruction itself: only when its condition passes.
            # An UNDEFINED *encoding* (no row of the table, or a row's decode-time UNDEFINED) may take its exception
            # whether or not the condition passes (IMPLEMENTATION DEFINED); an Undefined Instruction exception the
            # *operation* generates (zero-divide trap, UNDEFINED in this mode) sits inside ConditionPassed().
            cond, cu = cur_cond_spec(iset, instr, oplen, cpsr0)
            passed = P.ConditionHolds(cond, bit(cpsr0, 31), bit(cpsr0, 30), bit(cpsr0, 29), bit(cpsr0, 28))
            it0 = ST.cpsr_field(cpsr0, 'it')
            waive = lor(passed, cu, _is_bkpt(iset, instr), land(bits(it0, 3, 0) != 0, _unpred_in_it_block(iset, instr)))
            if kname != 'none':
                waive = lor(waive, unpred)
            # (a word rejected by the decoder - no opcode object - is judged by the table alone: that the code printed
            # 'unpredictable' while rejecting it is not evidence that the architecture makes it UNPREDICTABLE)
            if all(e == 'take_undef_instr_exception' for e in took):
                if not eng.prove(sym.zb(waive)):
                    waive = lor(waive, table_decode_undefined(iset, instr, oplen, init, mem.init))
            elif kname == 'none':
                waive = lor(waive, unpred)
            ob = eng.oblige('safe.noop', '%s: an instruction whose condition fails raises no exception (%s)' % (tag, ','.join(took)), waive)
            ob.props = ['C05']
        # ---- C19 privilege confinement
        was_user = mode0 == ST.USR
        if took:
            m1 = bits(cpsr1, 4, 0)
            okm = lor(m1 == ST.SVC, m1 == ST.UND, m1 == ST.ABT, m1 == ST.MON, m1 == ST.HYP)
            spsr_m = bits(ST.spsr_get(final, m1), 4, 0)
            conf = land(okm, spsr_m == ST.USR)
        else:
            same = [bits(cpsr1, 4, 0) == ST.USR, bits(cpsr1, 8, 6) == bits(cpsr0, 8, 6)]
            for k, v in final.items():
                if k in USER_WRITABLE or k.startswith('cfg.'):
                    continue
                if 'fetch-abort' in events and k in ABORT_REGS:
                    continue
                same.append(values_eq(v, init[k]))
            conf = land(*same)
        ob = eng.oblige('safe.user', '%s: User mode cannot change privileged state (%s)' % (tag, 'exception' if took else 'no exception'),
                        implies(was_user, conf))
        ob.props = ['C19']
        ob = eng.oblige('frame', '%s: object graph shape unchanged' % tag, mach.shape_ok())
        ob.props = ['C18']
        # ---- C20 ownership: the step reads and writes nothing but the instance's own state (the symbolic machine,
        # its memory and the configuration) and immutable program constants
        ob = eng.oblige('frame.own', '%s: no write to an object outside the processor instance' % tag, not eng.foreign_writes,
                        detail='; '.join(eng.foreign_writes[:4]))
        ob.props = ['C20']
        ob = eng.oblige('frame.own', '%s: no read of mutable state outside the processor instance' % tag, not eng.foreign_reads,
                        detail='; '.join(sorted(eng.foreign_reads)[:4]))
        ob.props = ['C20']
        # ---- functional specification of the executed encoding (decode + operation), where a row exists
        rows = ENC.rows_for(kname)
        if rows and events and 'fetch-abort' not in events:
            # the instruction raised an exception of its own (SVC, SMC, abort, UNDEFINED in this mode ...): class selection still applies
            dprop = 'C06' if iset == 'arm' else 'C07'
            want = 'arm' if iset == 'arm' else ('t16' if iset == 'thumb16' else 't32')
            rws = [r for r in rows if r.iset == want]
            belongs = lor(*[r.match(instr) for r in rws]) if rws else False
            if not eng.prove(sym.zb(belongs)):
                belongs = lor(belongs, table_unpredictable(iset, instr, oplen, init, mem.init))
            ob = eng.oblige('decode.class', '%s: the word belongs to the architectural encoding of the selected class' % tag, belongs)
            ob.props = [dprop]
            if ob.status != 'proved':
                misdecoded_families(eng, tag, kname, iset, instr, oplen, init, mem.init, belongs, dprop)
            # exception-generating instructions (SVC, SMC): the exception taken is the one the instruction specifies for this
            # state (SMC: Hyp trap under HCR.TSC, UNDEFINED in User mode / without Security Extensions / when SCR.SCD disables
            # it), and the state afterwards is the architectural entry from the state the instruction started in
            for r in rws:
                if r.exc is None or len(took) != 1:
                    continue
                from spec.cpu import Cpu
                base = Cpu(dict(init), 'arm' if iset == 'arm' else 'thumb', instr, oplen)
                f_ = r.extract(instr)
                u_enc = lor(r.sbz_violated(instr), r.unpred(f_, base) if r.unpred is not None else False)
                kinds, none_before = {}, True
                for c_, k_ in r.exc(base, f_):
                    kinds[k_] = lor(kinds.get(k_, False), land(none_before, c_))
                    none_before = land(none_before, lnot(c_))
                waive = lor(lnot(r.match(instr)), u_enc, unpred, kinds.get('unpred', False))
                name_of = {'take_svc_exception': 'svc', 'take_smc_exception': 'smc', 'take_hyp_trap_exception': 'hyptrap',
                           'take_undef_instr_exception': 'undef'}
                k_took = name_of.get(took[0])
                ob = eng.oblige('post.exc', '%s: the exception taken (%s) is the one the instruction specifies in this state' % (tag, took[0]),
                                lor(waive, kinds.get(k_took, False)))
                ob.props = fams(r, fam) + ['C11']
                exp = dict(init)
                if k_took == 'hyptrap':
                    exp['hsr'] = final['hsr']           # the syndrome is WriteHSR()'s business; the exception class is checked below
                if k_took == 'svc':
                    # CallSupervisor(): the syndrome is written only where the call is going to be taken to Hyp mode
                    to_hyp = lor(mode0 == ST.HYP, land(init['cfg.have_virt_ext'], lnot(ST.is_secure(init)), mode0 == ST.USR, bit(init['hcr'], 27) == 1))
                    exp['hsr'] = ite(to_hyp, final['hsr'], init['hsr'])
                {'svc': EXC.take_svc, 'smc': EXC.take_smc, 'hyptrap': EXC.take_hyp_trap, 'undef': EXC.take_undef_instr}.get(k_took, lambda s_: None)(exp)
                named = [(k, lor(waive, values_eq(v, exp[k]))) for k, v in final.items() if k not in SCRATCH]
                named.append(('mem', lor(waive, sym.SymBool(mem.term == mem.init))))
                if k_took == 'hyptrap' and sym.is_intlike(final['hsr']):
                    named.append(('HSR.EC', lor(waive, bits(final['hsr'], 31, 26) == 0b010011)))
                ob = eng.oblige_all('post', '%s: the state after %s is the architectural entry from the initial state; nothing else changes' % (tag, took[0]), named)
                ob.props = fams(r, fam) + ['C11']
            # an exception raised by the operation itself (Hyp trap, UNDEFINED in this mode/state) only where the operation's
            # specification has one; data aborts depend on the abstract memory
            if took and all(e in ('take_hyp_trap_exception', 'take_undef_instr_exception') for e in took):
                for r in rws:
                    if r.op is None or r.opfields is not None:
                        continue
                    st0 = dict(init)
                    st0['mem'] = mem.init
                    st0['oracle.excl_pass'] = False
                    _, s_unpred, s_undef = SS.spec_step(r, st0, instr, 'arm' if iset == 'arm' else 'thumb', oplen)
                    ob = eng.oblige('post.exc', '%s: takes %s only where the architecture specifies an exception' % (tag, ','.join(took)),
                                    lor(lnot(r.match(instr)), s_undef, s_unpred, unpred))
                    ob.props = fams(r, fam) + ['C11', dprop]
        if rows and not events:
            dprop = 'C06' if iset == 'arm' else 'C07'
            want = 'arm' if iset == 'arm' else ('t16' if iset == 'thumb16' else 't32')
            rows = [r for r in rows if r.iset == want]
            belongs = lor(*[r.match(instr) for r in rows]) if rows else False
            if not eng.prove(sym.zb(belongs)):
                # words the architecture makes UNPREDICTABLE (under whichever encoding claims them) may decode as anything
                belongs = lor(belongs, table_unpredictable(iset, instr, oplen, init, mem.init))
            ob = eng.oblige('decode.class', '%s: the word belongs to the architectural encoding of the selected class' % tag, belongs)
            ob.props = [dprop]
            if ob.status != 'proved':
                misdecoded_families(eng, tag, kname, iset, instr, oplen, init, mem.init, belongs, dprop)
            for r in rows:
                if r.exc is not None:
                    passed_x, cu_x = PSR.condition_passed('arm' if iset == 'arm' else 'thumb', instr, oplen, init['cpsr'])
                    from spec.cpu import Cpu
                    base = Cpu(dict(init), 'arm' if iset == 'arm' else 'thumb', instr, oplen)
                    f_ = r.extract(instr)
                    u_enc = lor(r.sbz_violated(instr), r.unpred(f_, base) if r.unpred is not None else False)
                    kx, nb = False, True
                    for c_, k_ in r.exc(base, f_):
                        if k_ == 'unpred':
                            kx = lor(kx, land(nb, c_))
                        nb = land(nb, lnot(c_))
                    ob = eng.oblige('post.exc', '%s: completes without an exception only when its condition fails' % tag,
                                    lor(lnot(r.match(instr)), lnot(passed_x), cu_x, u_enc, unpred, kx))
                    ob.props = fams(r, fam) + ['C11']

            def fix(name, w, v):
                # small decoded fields that the path condition already determines are handed to the spec as constants
                if w > 2 or not sym.is_sym(v):
                    return v
                for k in range(1 << w):
                    if eng.prove(sym.zb(v == k)):
                        return k
                return v
            # ExclusiveMonitorsPass() as seen by this path: local monitor, and the global monitor for shareable memory
            sh = [v for k, v in eng.all_inputs.items() if k.startswith('xlat') and k.endswith('.shareable')]
            shareable = sym.SymBool(sh[0]) if sh else False
            excl_pass = land(excl.get('local', False), lor(lnot(shareable), excl.get('global', False)))
            for r in rows:
                if r.opfields is not None:
                    # operation verified at function level (props/c03.py, loop cut): here decode must hand exactly the
                    # architectural fields to the execute() of the verified abstract class
                    from spec.cpu import Cpu
                    f = r.extract(instr)
                    base = Cpu(dict(init), 'arm' if iset == 'arm' else 'thumb', instr, oplen)
                    d_unpred = lor(r.sbz_violated(instr), r.unpred(f, base) if r.unpred is not None else False)
                    skip = lor(lnot(r.match(instr)), d_unpred, unpred)
                    named = []
                    for k, v in r.opfields(f).items():
                        if k not in eo.attrs:
                            raise sym.OutOfSubset('opcode object of %s has no field %r (the decode contract names it)' % (kname, k))
                        got = eo.attrs.get(k)
                        if isinstance(v, bool) or isinstance(v, sym.SymBool) or isinstance(got, (bool, sym.SymBool)):
                            named.append((k, lor(skip, sym.eq(sym.truth(got), sym.truth(v)))))
                        else:
                            named.append((k, lor(skip, values_eq(got, v))))
                    ob = eng.oblige_all('decode.fields', '%s: decoded operands == architectural fields of the encoding' % tag, named)
                    ob.props = fams(r, fam) + [dprop]
                    import importlib
                    absmod = importlib.import_module('props.c03')
                    K = absmod.klass(r.exec_class)
                    ob = eng.oblige('decode.exec', '%s: runs the execute() of %s verified at function level' % (tag, r.exec_class),
                                    getattr(eo.cls, 'execute', None) is K.execute)
                    ob.props = fams(r, fam)
                    continue
                if r.op is None:
                    continue            # decode-only row
                st0 = dict(init)
                st0['mem'] = mem.init
                st0['oracle.excl_pass'] = excl_pass
                # where the architecture stores an UNKNOWN value, the value (only) is taken from the implementation
                wr = [a_ for a_ in mem.accesses if a_[1] == 'W']
                st0['oracle.unknown_store'] = wr[0][4] if wr and sym.is_intlike(wr[0][4]) else 0
                exp, s_unpred, s_undef = SS.spec_step(r, st0, instr, 'arm' if iset == 'arm' else 'thumb', oplen, fix=fix)
                skip = lor(lnot(r.match(instr)), s_unpred, s_undef)
                named = []
                unk = exp.get('__unkmask__', {})
                for k, v in final.items():
                    if k in SCRATCH:
                        continue
                    if k in unk and sym.is_intlike(v):
                        keep = unk[k] ^ 0xFFFFFFFF          # bits with an architecturally UNKNOWN value are not compared
                        named.append((k, lor(skip, values_eq(v & keep, exp[k] & keep))))
                    else:
                        named.append((k, lor(skip, values_eq(v, exp[k]))))
                named.append(('mem', lor(skip, sym.SymBool(mem.term == exp['mem']))))
                ob = eng.oblige_all('post', '%s: final state == architectural decode+operation (all leaves; frame)' % tag, named)
                ob.props = fams(r, fam) + [dprop]
                whole = ob.status == 'proved'
                # slices of the same comparison that other properties talk about, as obligations of their own (when the whole
                # comparison is proved they are conjuncts of a proved conjunction and need no solver call):
                # control flow (C04): the final PC and instruction-set state
                flow = [n_ for n_ in named if n_[0] == 'R.PC']
                if sym.is_intlike(final['cpsr']):
                    flow.append(('instruction set (CPSR.J,T)', lor(skip, values_eq(ST.iset(final['cpsr']), ST.iset(exp['cpsr'])))))
                slices = [('post.pc', '%s: final PC and instruction set == architectural (branch target / interworking / PC + length)' % tag, flow, ['C04'])]
                # register banks (C10): copies of registers / SPSRs that the executing mode does not see change only as specified
                # (an access by explicit mode - SRS, LDM/STM user registers, banked MRS/MSR - reaches exactly the named bank)
                banks = [(k, lor(visible_from(mode0, k), c_)) for k, c_ in named if hidden_possible(k)]
                slices.append(('post.banks', '%s: register copies of other modes change exactly as specified' % tag, banks, ['C10']))
                if iset != 'arm' and sym.is_intlike(final['cpsr']):
                    # IT state (C08): advanced / retired / loaded exactly as specified; 16-bit instructions in an IT block leave the flags
                    keep = (unk.get('cpsr', 0) ^ 0xFFFFFFFF) if sym.is_intlike(unk.get('cpsr', 0)) else 0xFFFFFFFF
                    itc = [('CPSR.IT', lor(skip, values_eq(ST.cpsr_field(final['cpsr'], 'it'), ST.cpsr_field(exp['cpsr'], 'it'))))]
                    if iset == 'thumb16':
                        fm = 0xF80F0000
                        itc.append(('flags inside an IT block', lor(skip, bits(ST.cpsr_field(init['cpsr'], 'it'), 3, 0) == 0,
                                                                    values_eq(final['cpsr'] & fm & keep, exp['cpsr'] & fm & keep))))
                    slices.append(('post.it', '%s: IT state after the instruction (and flags of a 16-bit instruction inside an IT block) == architectural' % tag, itc, ['C08']))
                for kind_, label_, conj_, props_ in slices:
                    if not conj_:
                        continue
                    ob = eng.oblige(kind_, label_, True) if whole else eng.oblige_all(kind_, label_, conj_)
                    ob.props = props_ + fams(r, fam) + [dprop]
                ob = eng.oblige('post.unpred', '%s: not executed normally where the architecture says UNDEFINED / takes an exception' % tag,
                                lor(lnot(r.match(instr)), lnot(s_undef)))
                ob.props = fams(r, fam) + [dprop]
        # ---- decode totality: a word taken as UNDEFINED (no opcode object built) is not a valid, predictable encoding
        # of any row of the table
        if kname == 'none' and took == ['take_undef_instr_exception'] and 'fetch-abort' not in events:
            import z3
            from spec.cpu import Cpu
            dprop = 'C06' if iset == 'arm' else 'C07'
            want = 'arm' if iset == 'arm' else ('t16' if iset == 'thumb16' else 't32')
            base = Cpu(dict(init), 'arm' if iset == 'arm' else 'thumb', instr, oplen)
            base.st['mem'] = mem.init
            base.st['oracle.excl_pass'] = False
            claims = {}
            for r, mt in live_rows(iset, instr):
                unp, und = row_unpred_undef(r, instr, base)
                # grouped by the functional family of the row: rejecting a valid encoding of a family also breaks that family's
                # property (the instruction does not have its architectural effect)
                claims.setdefault(tuple(fams(r, None)) if r.family else (), []).append((r.cls, lnot(land(mt, lnot(unp), lnot(und)))))
            for fs, cl in sorted(claims.items()):
                ob = eng.oblige_all('decode.total', 'undefined: the word is no valid (predictable, defined) encoding of the table', cl)
                ob.props = [dprop] + list(fs)
        # ---- abort clause (C02/C14): a data abort raised by the instruction's own access leaves the registers as
        # they were (no data transferred, no base write-back) and enters the abort handler architecturally
        if rows and events == ['take_data_abort_exception'] and mem.fault_info is not None and not unpred_possible(unpred):
            if 'C02' in fams(rows[0], fam):
                info = mem.fault_info
                st = dict(init)
                for nm in ABORT_REGS:
                    st[nm] = info[nm]
                EXC.take_data_abort(st, info['is_align'], info['second'])
                passed_c, cu_c = PSR.condition_passed('arm' if iset == 'arm' else 'thumb', instr, oplen, init['cpsr'])
                dual_store = kname.startswith('Strd')
                if kname.startswith('Ldrd'):
                    # an instruction that loads more than one register leaves UNKNOWN values in its destination
                    # registers (other than the PC and the base) when it aborts (B1.9.8)
                    t1 = bits(instr, 15, 12)
                    t2 = (t1 + 1) & 15 if iset == 'arm' else bits(instr, 11, 8)
                    Rf = {k[2:]: v for k, v in final.items() if k.startswith('R.')}
                    for tt in (t1, t2):
                        Rs = {k[2:]: v for k, v in st.items() if k.startswith('R.')}
                        ok = tt <= 14
                        tts = ite(ok, tt, 0)
                        new = ST.rset(Rs, tts, mode0, ST.rget(Rf, tts, mode0))
                        for k, v in new.items():
                            st['R.' + k] = ite(ok, v, st['R.' + k]) if v is not st['R.' + k] else v
                named = []
                for k, v in final.items():
                    if k in SCRATCH:
                        continue
                    named.append((k, lor(unpred, cu_c, values_eq(v, st[k]))))
                if not dual_store:
                    named.append(('mem', lor(unpred, sym.SymBool(mem.term == mem.init))))
                ob = eng.oblige_all('post.abort', '%s: on a data abort no register is loaded or written back and the abort entry is architectural' % tag, named)
                ob.props = ['C02', 'C14']
        # ---- the load/store syndrome of the decoded instruction (LSInstructionSyndrome(), read when a stage 2 abort is reported:
        # that path itself is outside the units) is computable for every decoded instruction: no host error, 9 bits
        if isinstance(eo, Obj) and not events:
            try:
                iss = eng.call(A.ls_instruction_syndrome, [cpu])
                ob = eng.oblige('safe.host', '%s: LSInstructionSyndrome() of the decoded instruction is a 9-bit value' % tag,
                                land(iss >= 0, iss <= 0x1FF) if sym.is_intlike(iss) else False)
                ob.props = ['C18']
            except PyRaise as r_:
                ob = eng.oblige('safe.host', '%s: LSInstructionSyndrome() raises %s' % (tag, r_.exc.cls.__name__), False,
                                detail=str(r_.exc.attrs.get('args')))
                ob.props = ['C18']
        return None

    def replay(inputs, ob):
        from . import step_replay
        return step_replay.replay(iset, memarch, nregions, inputs, ob)

    return Unit(uid, list(props), symbolic, replay,
                {'contracts': {}, 'merge_calls': merge_set(), 'max_paths': 60000, 'mul_uf': True},
                meta={'cube': cube_name, 'iset': iset})


def live_rows(iset, instr):
    """rows of the instruction set whose fixed bits are not syntactically excluded by the cube"""
    import z3
    want = 'arm' if iset == 'arm' else ('t16' if iset == 'thumb16' else 't32')
    for r in ENC.TABLE.rows:
        if r.iset != want:
            continue
        mt = r.match(instr)
        if mt is False or (sym.is_sym(mt) and z3.is_false(z3.simplify(sym.zb(mt)))):
            continue
        yield r, mt


def table_unpredictable(iset, instr, oplen, init, mem0):
    """some row of the table matches the word and declares it UNPREDICTABLE (should-be bits, operand restrictions)"""
    from spec.cpu import Cpu
    base = Cpu(dict(init), 'arm' if iset == 'arm' else 'thumb', instr, oplen)
    base.st['mem'] = mem0
    base.st['oracle.excl_pass'] = False
    out = []
    for r, mt in live_rows(iset, instr):
        out.append(land(mt, row_unpred_undef(r, instr, base)[0]))
    return lor(*out) if out else False


def table_decode_undefined(iset, instr, oplen, init, mem0):
    """the word is an UNDEFINED or UNPREDICTABLE *encoding*: no row of the table matches it, a matching row declares it
    UNDEFINED at decode time or UNPREDICTABLE, or the matching row has no operation specification to tell"""
    from spec.cpu import Cpu
    base = Cpu(dict(init), 'arm' if iset == 'arm' else 'thumb', instr, oplen)
    base.st['mem'] = mem0
    base.st['oracle.excl_pass'] = False
    out, matches = [], []
    for r, mt in live_rows(iset, instr):
        matches.append(mt)
        if r.op is None or r.opfields is not None:
            out.append(mt)
            continue
        f = r.extract(instr)
        und = r.undef(f, base) if r.undef is not None else False
        out.append(land(mt, lor(und, row_unpred_undef(r, instr, base)[0])))
    return lor(lnot(lor(*matches)) if matches else True, *out)


def row_unpred_undef(r, instr, base):
    """(UNPREDICTABLE, UNDEFINED) of the word under row r, whether or not its condition passes: should-be bits, the
    row's decode-time restrictions, and the restrictions the row's operation states itself (IT-block rules, PC operands)"""
    f = r.extract(instr)
    unp = lor(r.sbz_violated(instr), r.unpred(f, base) if r.unpred is not None else False)
    und = r.undef(f, base) if r.undef is not None else False
    if r.opfields is None and r.op is not None:
        exe = base.copy()
        mem0 = exe.st.get('mem')
        try:
            r.op(exe, f)
            unp = lor(unp, exe.unpred)
            und = lor(und, exe.undef)
        except NotImplementedError:
            pass
    return unp, und


def unpred_possible(u):
    return u is True


def misdecoded_families(eng, tag, kname, iset, instr, oplen, init, mem0, belongs, dprop):
    """a word decoded to class `kname` although it is no encoding of it: the word is then taken away from the class it is a valid
    encoding of - one obligation per functional family of those classes, so that the violation also counts for the property the
    misdecoded instruction belongs to (an LDRT executed as a POP is checked with the wrong privilege: C19)"""
    from spec.cpu import Cpu
    base = Cpu(dict(init), 'arm' if iset == 'arm' else 'thumb', instr, oplen)
    base.st['mem'] = mem0
    base.st['oracle.excl_pass'] = False
    groups = {}
    for r, mt in live_rows(iset, instr):
        if r.cls == kname or not r.family:
            continue
        unp, und = row_unpred_undef(r, instr, base)
        groups.setdefault(tuple(fams(r, None)), []).append((r.cls, lor(belongs, lnot(land(mt, lnot(unp), lnot(und))))))
    for fs, cl in sorted(groups.items()):
        ob = eng.oblige_all('decode.class', '%s: the word is not a valid encoding of another class' % tag, cl)
        ob.props = [dprop] + list(fs)


def hidden_possible(k):
    """register-file leaves that some mode does not see: banked copies, SPSRs, ELR_hyp"""
    if k.startswith('spsr_') or k == 'elr_hyp':
        return True
    if not k.startswith('R.'):
        return False
    nm = k[2:]
    return nm.startswith(('SP', 'LR')) or (nm[:2] in ('R8', 'R9') or nm[:3] in ('R10', 'R11', 'R12'))


def visible_from(mode, k):
    """the register-file leaf k is the copy that `mode` sees (as R8-R14 or as its SPSR / ELR)"""
    by = {'fiq': ST.FIQ, 'irq': ST.IRQ, 'svc': ST.SVC, 'mon': ST.MON, 'abt': ST.ABT, 'hyp': ST.HYP, 'und': ST.UND}
    if k.startswith('spsr_'):
        return mode == by[k[5:]]
    if k == 'elr_hyp':
        return mode == ST.HYP
    nm = k[2:]
    bank = nm[-3:]
    if nm.startswith('SP'):
        return mode == by[bank] if bank != 'usr' else land(*[mode != m_ for m_ in by.values()])
    if nm.startswith('LR'):
        if bank != 'usr':
            return mode == by[bank]
        return land(*[mode != m_ for b_, m_ in by.items() if b_ != 'hyp'])
    return mode == ST.FIQ if bank == 'fiq' else mode != ST.FIQ


def fams(r, fam):
    """the functional properties an encoding row belongs to ('C03+C12': RFE is a block load and an exception return)"""
    return (r.family or fam or 'C09').split('+')


def callsite_prop(qn, fam):
    """which property a violated callee precondition belongs to"""
    name = qn.rsplit('.', 1)[-1]
    if name in ('set', 'set_rmode', 'set_spsr', 'branch_to'):
        return 'C10'          # register file holds 32-bit values
    if name.startswith('mem_') or name == 'translate_address':
        return fam if fam in ('C02', 'C03') else 'C02'   # address arithmetic wraps modulo 2^32 / data fits the size
    return fam or 'C18'       # helper used outside its domain: the instruction's result is not the architectural one


def _unpred_in_it_block(iset, instr):
    """encodings the architecture makes UNPREDICTABLE inside an IT block and that carry no condition of their own
    (CBZ/CBNZ, IT, CPS, SETEND; ENTERX/LEAVEX)"""
    if iset == 'thumb16':
        cbz = land(bits(instr, 15, 12) == 0b1011, bit(instr, 10) == 0, bit(instr, 8) == 1)
        it = land(bits(instr, 15, 8) == 0b10111111, bits(instr, 3, 0) != 0)
        cps_setend = bits(instr, 15, 6) == 0b1011011001
        return lor(cbz, it, cps_setend)
    if iset == 'thumb32':
        return land(bits(instr, 31, 20) == 0xF3B, bits(instr, 15, 14) == 0b10, bit(instr, 12) == 0, bits(instr, 7, 5) == 0)
    return False


def _is_bkpt(iset, instr):
    if iset == 'arm':
        return land(bits(instr, 27, 20) == 0b00010010, bits(instr, 7, 4) == 0b0111)
    if iset == 'thumb16':
        return bits(instr, 15, 8) == 0b10111110
    return False


def merge_set():
    m = registry.mods()
    A = m.arm_v6.ArmV6
    Rg = m.registers.Registers
    return {A.current_cond, A.condition_passed, Rg.exc_vector_base, A.encode_pmsafsr, A.encode_sdfsr, A.encode_ldfsr}


def composite(eng, width, fixed_hi, fixed_lo, value):
    """instruction word symbol 'instr' of `width` bits whose bits fixed_hi..fixed_lo are the constant `value`.
    Built as a z3 Concat so that bit-field tests on the fixed bits simplify syntactically; the model still reports
    the full word under the name 'instr'."""
    import z3
    v = z3.BitVec('instr', width)
    eng.inputs['instr'] = v
    eng.all_inputs['instr'] = v
    parts = []
    if fixed_hi < width - 1:
        parts.append(z3.Extract(width - 1, fixed_hi + 1, v))
    parts.append(z3.BitVecVal(value, fixed_hi - fixed_lo + 1))
    if fixed_lo > 0:
        parts.append(z3.Extract(fixed_lo - 1, 0, v))
    t = z3.Concat(*parts) if len(parts) > 1 else parts[0]
    eng.path.pc.append(z3.Extract(fixed_hi, fixed_lo, v) == z3.BitVecVal(value, fixed_hi - fixed_lo + 1))
    return sym.SymInt(z3.ZeroExt(1, t), 0, (1 << width) - 1)


def cubes(iset, tier):
    out = []
    if iset == 'arm':
        for op in range(256):
            out.append(('op%02x' % op, (lambda eng, w, op=op: composite(eng, 32, 27, 20, op))))
    elif iset == 'thumb16':
        for op in range(64):
            if (op >> 1) in (0b11101, 0b11110, 0b11111):
                continue
            out.append(('op%02x' % op, (lambda eng, w, op=op: composite(eng, 16, 15, 10, op))))
    else:
        for op in range(3 * 64):
            v = ((0b11101 + (op // 64)) << 6) | (op % 64)
            out.append(('op%03x' % v, (lambda eng, w, v=v: composite(eng, 32, 31, 21, v))))
    return out


def jstate_unit(tbit, memarch='PMSA', nregions=1):
    """A step that starts with CPSR.J == 1 (Jazelle state when T == 0, ThumbEE state when T == 1).  The emulator executes
    neither: its fetch reads nothing and the step ends in the Undefined Instruction exception.  The uniform obligations hold for
    these states as for ARM and Thumb state (no host error, register ranges, privilege confinement, ownership), and the entry
    taken is the architectural Undefined Instruction entry from the state the step started in."""
    m = registry.mods()
    A = m.arm_v6.ArmV6
    Rg = m.registers.Registers
    name = 'thumbee' if tbit else 'jazelle'
    uid = 'STEP/%s/%s/any' % (name, memarch.lower())

    def symbolic(eng):
        mem = AM.AbsMem(eng)
        fixed = {'cpsr': lambda e, lf: (e.fresh_int('cpsr', 32) & ~(1 << 5)) | (1 << 24) | (tbit << 5)}
        mach = MC.SymMachine(eng, memarch, nregions, fixed=fixed, mem=mem)
        cpu = mach.cpu
        init = dict(mach.init)
        cfg = mach.configs
        cpsr0 = init['cpsr']
        mode0 = bits(cpsr0, 4, 0)
        eng.assume(lnot(ST.bad_mode(mode0, cfg['have_security_ext'], cfg['have_virt_ext'])))
        eng.assume(bits(init['R.PC'], 0, 0) == 0)
        it0_ = ST.cpsr_field(cpsr0, 'it')
        eng.assume(implies(bits(it0_, 3, 0) == 0, it0_ == 0))
        eng.assume(bits(cpsr0, 23, 20) == 0)
        for nm in ('hvbar', 'mvbar', 'vbar'):
            eng.assume(bits(init[nm], 4, 0) == 0)
        eng.assume(bits(init['mpuir'], 15, 8) <= nregions)
        if not eng.prefix:
            eng.cover('ValidState with CPSR.J == 1 satisfiable')
        events = eng.register([])
        contracts = dict(all_contracts())
        for nm in ('take_svc_exception', 'take_smc_exception', 'take_data_abort_exception', 'take_hyp_trap_exception',
                   'take_undef_instr_exception'):
            fn = getattr(Rg, nm)

            def mk(fn, nm):
                def spec(e, *a):
                    events.append(nm)
                    return e.run_function(fn, list(a), {})
                return Contract(fn, spec, engine=True)
            contracts[fn] = mk(fn, nm)
        eng.contracts = contracts
        tag = 'step in %s state' % ('ThumbEE' if tbit else 'Jazelle')
        try:
            eng.call(A.emulate_cycle, [cpu])
        except PyRaise as r:
            ob = eng.oblige('safe.host', '%s raises %s' % (tag, r.exc.cls.__name__), issubclass(r.exc.cls, NotImplementedError),
                            detail=str(r.exc.attrs.get('args')))
            ob.props = ['C18']
            return
        ob = eng.oblige('safe.host', '%s completes or takes an architectural exception' % tag, True)
        ob.props = ['C18']
        final = mach.read()
        rng = [land(v >= 0, v <= 0xFFFFFFFF) if sym.is_intlike(v) else False for k, v in final.items()
               if k.startswith('R.') or k.startswith('spsr_') or k in ('cpsr', 'elr_hyp')]
        ob = eng.oblige('inv.range', '%s: registers, SPSRs, PC in 0..2^32-1 after the step' % tag, land(*rng))
        ob.props = ['C10']
        ob = eng.oblige('frame', '%s: object graph shape unchanged' % tag, mach.shape_ok())
        ob.props = ['C18']
        ob = eng.oblige('frame.own', '%s: no write to an object outside the processor instance' % tag, not eng.foreign_writes,
                        detail='; '.join(eng.foreign_writes[:4]))
        ob.props = ['C20']
        ob = eng.oblige('frame.own', '%s: no read of mutable state outside the processor instance' % tag, not eng.foreign_reads,
                        detail='; '.join(sorted(eng.foreign_reads)[:4]))
        ob.props = ['C20']
        # the one outcome: Undefined Instruction exception, entered architecturally from the initial state
        ob = eng.oblige('post.exc', '%s: the only outcome is the Undefined Instruction exception' % tag, events == ['take_undef_instr_exception'],
                        detail=','.join(events))
        ob.props = ['C18', 'C11']
        if events == ['take_undef_instr_exception']:
            exp = dict(init)
            EXC.take_undef_instr(exp)
            named = [(k, values_eq(v, exp[k])) for k, v in final.items() if k not in SCRATCH]
            named.append(('mem', sym.SymBool(mem.term == mem.init)))
            ob = eng.oblige_all('post', '%s: the Undefined Instruction entry is architectural (mode, LR, SPSR, masks, vector); nothing else changes' % tag, named)
            ob.props = ['C11', 'C19', 'C08']
            cpsr1 = final['cpsr']
            m1 = bits(cpsr1, 4, 0)
            ob = eng.oblige('safe.user', '%s: from User mode the step ends in Undefined mode with SPSR.M recording User' % tag,
                            implies(mode0 == ST.USR, land(lor(m1 == ST.UND, m1 == ST.HYP), bits(ST.spsr_get(final, m1), 4, 0) == ST.USR)))
            ob.props = ['C19']

    def replay(inputs, ob):
        cpu = MC.native_cpu(memarch, nregions, fresh=True)
        ins = dict(inputs)
        ins['cpsr'] = (ins.get('cpsr', 0) & ~(1 << 5)) | (1 << 24) | (tbit << 5)
        MC.install_native(cpu, ins, memarch, nregions)
        init = MC.read_native(cpu, memarch, nregions)
        cfgs = registry.mods().configurations.configurations.configs
        for k in MC.CFG_BOOL + list(MC.CFG_INT):
            init['cfg.' + k] = cfgs.get(k)
        import io
        import contextlib
        exc = None
        try:
            with contextlib.redirect_stdout(io.StringIO()):
                cpu.emulate_cycle()
        except Exception as e:      # noqa
            exc = e
        lines = ['cpsr=%s pc=%s mode=%s' % (hex(init['cpsr']), hex(init['R.PC']), hex(init['cpsr'] & 31))]
        if exc is not None:
            lines.append('emulate_cycle raised %s: %s' % (type(exc).__name__, exc))
            return not isinstance(exc, NotImplementedError), '\n'.join(lines)
        final = MC.read_native(cpu, memarch, nregions)
        exp = dict(init)
        EXC.take_undef_instr(exp)
        diff = {k: (hex(final[k]) if isinstance(final[k], int) else final[k], hex(exp[k]) if isinstance(exp[k], int) else exp[k])
                for k in final if k not in SCRATCH and k in exp and final[k] != exp[k]}
        lines.append('leaf differences (real, architectural Undefined Instruction entry): %s' % diff)
        return bool(diff), '\n'.join(lines)
    return Unit(uid, ['C18', 'C10', 'C19', 'C20', 'C11', 'C08'], symbolic, replay,
                {'contracts': {}, 'merge_calls': merge_set(), 'max_paths': 60000}, meta={'cube': 'any', 'iset': name})


def units(tier):
    out = [jstate_unit(0), jstate_unit(1)]
    for iset in ('arm', 'thumb16', 'thumb32'):
        for name, pred in cubes(iset, tier):
            out.append(make_unit(iset, name, pred))
    return out
