"""C11 — exception entry.  Every take_*_exception / enter_*_mode / take_reset body against the B1.8/B1.9
pseudocode transcribed in spec/exceptions.py, for an arbitrary ValidState, configuration and routing state."""
from contracts import registry
from pyvc.unit import U, R, Dom
from pyvc.interp import Obj
from spec import exceptions as EX
from spec import state as ST
from spec.rt import bits, lnot, land, implies
from .common import method_unit

ASSUMPTIONS = [
    'IsExternalAbort/IsAsyncAbort/DebugException are the constant False of the implementation (mock hooks)',
    'HSR is documented UNKNOWN on IRQ/FIQ taken to Hyp mode; the implementation value 0 is accepted as the spec value',
]


class AbortDom(Dom):
    """a DataAbortException object with arbitrary (alignment?, second stage?) attributes"""

    def fresh(self, eng, name):
        m = registry.mods()
        al = eng.fresh_bool(name + '.is_alignment')
        sec = eng.fresh_bool(name + '.second_stage')
        D = m.enums.DAbort
        typ = D.ALIGNMENT if eng.istrue(al) else D.PERMISSION
        o = Obj(m.arm_exceptions.DataAbortException, {'args': (), 'abort_type': typ, 'is_second_stage': sec})
        o.tag = (typ is D.ALIGNMENT, sec)
        return o

    def concrete(self, inputs, name):
        m = registry.mods()
        D = m.enums.DAbort
        al = bool(inputs.get(name + '.is_alignment'))
        e = m.arm_exceptions.DataAbortException(D.ALIGNMENT if al else D.PERMISSION, bool(inputs.get(name + '.second_stage')))
        e._spec = (al, bool(inputs.get(name + '.second_stage')))
        return e


def valid(init, *args):
    c = init['cpsr']
    m = bits(c, 4, 0)
    it = ST.cpsr_field(c, 'it')
    return land(lnot(ST.bad_mode(m, init['cfg.have_security_ext'], init['cfg.have_virt_ext'])),
                implies(bits(it, 3, 0) == 0, it == 0),
                bits(init['hvbar'], 4, 0) == 0, bits(init['mvbar'], 4, 0) == 0, bits(init['vbar'], 4, 0) == 0)


def units(tier):
    m = registry.mods()
    Rg = m.registers.Registers
    A = m.arm_v6.ArmV6
    base = {}
    base.update(registry.l1())
    base.update(registry.regview())
    base.update(registry.l2())
    out = []
    merge = {Rg.exc_vector_base}
    ign = ()

    def mu(fn, spec, doms=(), on='regs', need=(), **kw):
        def pre(init, *args):
            return land(valid(init, *args), *[init['cfg.' + k] for k in need])
        out.append(method_unit('C11', fn, list(doms), on=on, spec=spec, contracts=base, assume=pre, merge_calls=merge,
                               ignore=ign, **kw))
    mu(Rg.take_undef_instr_exception, EX.take_undef_instr)
    mu(Rg.take_svc_exception, EX.take_svc)
    mu(Rg.take_smc_exception, EX.take_smc, need=['have_security_ext'])
    mu(Rg.take_hyp_trap_exception, EX.take_hyp_trap, need=['have_virt_ext', 'have_security_ext'])
    mu(Rg.take_physical_irq_exception, EX.take_physical_irq)
    mu(Rg.take_physical_fiq_exception, EX.take_physical_fiq)
    mu(Rg.take_data_abort_exception, EX.take_data_abort, doms=[('dabort', AbortDom())], spec_args=lambda a: list(a[0].tag if isinstance(a[0], Obj) else a[0]._spec))
    mu(Rg.enter_hyp_mode, lambda st, a, b, c: (EX.enter_hyp_mode(st, a, b, c), (None, False, None))[1],
       doms=[('new_spsr_value', U(32)), ('preferred_exceptn_return', U(32)), ('vect_offset', R(0, 28))],
       need=['have_virt_ext', 'have_security_ext'])
    mu(Rg.enter_monitor_mode, lambda st, a, b, c: (EX.enter_monitor_mode(st, a, b, c), (None, False, None))[1],
       doms=[('new_spsr_value', U(32)), ('new_lr_value', U(32)), ('vect_offset', R(0, 28))], need=['have_security_ext'])
    mu(Rg.exc_vector_base, lambda st: (EX.exc_vector_base(st), False, None))
    vbar_reset = int(m.configurations.configurations.configs.get('reset_values', {}).get('VBAR', '0'), 0) if \
        m.configurations.configurations.configs else 0
    mu(A.take_reset, lambda st: EX.take_reset(st, vbar_reset), on='cpu')
    # dependency units: C08 (the IT state is advanced where specified, saved in the SPSR and cleared on every entry) and C12
    # (exception entry followed by the standard return: the round-trip lemma of C12 starts from the entry specification)
    for u in out:
        u.props = ['C11', 'C08', 'C12']
    return out
