"""Machine state schema: one description of the leaves of an ArmV6 object graph, used to

  * mirror a natively constructed ArmV6 into the engine heap with symbolic leaves,
  * install a concrete assignment into a native ArmV6 (replay),
  * read the leaves back (both worlds) for leaf-by-leaf postconditions.

Leaf names:  R.<RName>  cpsr  spsr_<m>  elr_hyp  <register attr>  <list attr>[i]  chg[i]
             cpu.<attr>  event_register  cfg.<key>
"""
import json
import os
import tempfile

from contracts import registry

W64 = {'httbr', 'ttbr0_64', 'ttbr1_64', 'vttbr'}
CFG_BOOL = ['have_security_ext', 'have_virt_ext', 'jazelle_accepts_execution', 'have_lpae', 'have_mp_ext',
            'have_adv_simd_or_vfp', 'have_thumbee', 'have_jazelle', 'implementation_supports_transient',
            'is_armv7r_profile', 'has_imp_def_reset_vector', 'write_hsr_hsr_value_24', 'write_hsr_23_22_cond',
            'data_abort_pmsa_change_dfar', 'translation_walk_sd_l1descaddr_attrs_10',
            'translation_walk_sd_l1descaddr_hints_01', 'coproc_accepted_pl0_undefined']
CFG_INT = {'arch_version': (3, 7), 'dfsr_string_12': (1, 1), 'data_abort_hsr_9': (1, 1), 'impdef_reset_vector': (32, None),
           'impdef_irq_vector': (32, None), 'impdef_fiq_vector': (32, None), 'processor_id': (4, None)}
CPU_BOOL = ['is_wait_for_event', 'is_wait_for_interrupt', 'run']

_native_cache = {}


def config_dict(memarch='PMSA', nregions=12, overrides=None):
    m = registry.mods()
    shipped = os.path.join(os.path.dirname(m.arm_v6.__file__), 'arm_configurations.json')
    cfg = json.load(open(shipped))
    cfg['memory_system_architecture'] = memarch
    cfg['number_of_mpu_regions'] = nregions
    cfg.update(overrides or {})
    return cfg


def native_cpu(memarch='PMSA', nregions=12, overrides=None, fresh=False):
    """natively constructed ArmV6 for a configuration variant"""
    key = (memarch, nregions, json.dumps(overrides or {}, sort_keys=True))
    if not fresh and key in _native_cache:
        return _native_cache[key]
    m = registry.mods()
    cfg = config_dict(memarch, nregions, overrides)
    fd, path = tempfile.mkstemp(suffix='.json', prefix='verif_cfg_')
    with os.fdopen(fd, 'w') as f:
        json.dump(cfg, f)
    try:
        cpu = m.arm_v6.ArmV6(path)
    finally:
        os.unlink(path)
    if not fresh:
        _native_cache[key] = cpu
    return cpu


class Leaf:
    __slots__ = ('name', 'kind', 'bits', 'hi', 'get', 'set')

    def __init__(self, name, kind, bits, get, set_, hi=None):
        self.name = name
        self.kind = kind      # 'int' | 'bool'
        self.bits = bits
        self.hi = hi
        self.get = get        # get(world_cpu, acc) -> value
        self.set = set_       # set(world_cpu, acc, value)


class Acc:
    """attribute/item access that works on native objects and on engine Obj records"""

    @staticmethod
    def attr(o, name):
        if hasattr(o, 'attrs') and hasattr(o, 'cls'):
            return o.attrs[name]
        return o.__dict__[name] if name in getattr(o, '__dict__', {}) else getattr(o, name)

    @staticmethod
    def setattr(o, name, v):
        if hasattr(o, 'attrs') and hasattr(o, 'cls'):
            o.attrs[name] = v
        else:
            o.__dict__[name] = v


def leaves(memarch='PMSA', nregions=12):
    """list of Leaf for the configuration variant (shape is determined by a native instance)"""
    m = registry.mods()
    cpu = native_cpu(memarch, nregions)
    regs = cpu.registers
    AR = m.abstract_register.AbstractRegister
    RName = m.registers.RName
    out = []
    A = Acc

    def regs_of(c):
        return A.attr(c, 'registers')

    for rn in RName:
        out.append(Leaf('R.' + rn.name, 'int', 32,
                        (lambda c, rn=rn: A.attr(regs_of(c), '_R')[rn]),
                        (lambda c, v, rn=rn: A.attr(regs_of(c), '_R').__setitem__(rn, v))))
    for i in range(16):
        out.append(Leaf('chg[%d]' % i, 'bool', 1,
                        (lambda c, i=i: A.attr(regs_of(c), 'changed_registers')[i]),
                        (lambda c, v, i=i: A.attr(regs_of(c), 'changed_registers').__setitem__(i, v))))
    for name, val in vars(regs).items():
        if name in ('_R', 'changed_registers'):
            continue
        if isinstance(val, AR):
            out.append(Leaf(name, 'int', 32,
                            (lambda c, name=name: A.attr(A.attr(regs_of(c), name), 'value')),
                            (lambda c, v, name=name: A.setattr(A.attr(regs_of(c), name), 'value', v))))
        elif isinstance(val, bool):
            out.append(Leaf(name, 'bool', 1, (lambda c, name=name: A.attr(regs_of(c), name)),
                            (lambda c, v, name=name: A.setattr(regs_of(c), name, v))))
        elif isinstance(val, int):
            out.append(Leaf(name, 'int', 64 if name in W64 else 32, (lambda c, name=name: A.attr(regs_of(c), name)),
                            (lambda c, v, name=name: A.setattr(regs_of(c), name, v))))
        elif isinstance(val, list):
            for i, x in enumerate(val):
                if isinstance(x, AR):
                    out.append(Leaf('%s[%d]' % (name, i), 'int', 32,
                                    (lambda c, name=name, i=i: A.attr(A.attr(regs_of(c), name)[i], 'value')),
                                    (lambda c, v, name=name, i=i: A.setattr(A.attr(regs_of(c), name)[i], 'value', v))))
                else:
                    out.append(Leaf('%s[%d]' % (name, i), 'int', 32,
                                    (lambda c, name=name, i=i: A.attr(regs_of(c), name)[i]),
                                    (lambda c, v, name=name, i=i: A.attr(regs_of(c), name).__setitem__(i, v))))
        else:
            raise RuntimeError('unhandled Registers attribute %s: %r' % (name, type(val)))
    for name in CPU_BOOL:
        out.append(Leaf('cpu.' + name, 'bool', 1, (lambda c, name=name: A.attr(c, name)),
                        (lambda c, v, name=name: A.setattr(c, name, v))))
    out.append(Leaf('cpu.opcode', 'int', 32, (lambda c: A.attr(c, 'opcode')), (lambda c, v: A.setattr(c, 'opcode', v))))
    out.append(Leaf('cpu.opcode_len', 'int', 6, (lambda c: A.attr(c, 'opcode_len')), (lambda c, v: A.setattr(c, 'opcode_len', v))))
    return out


KNOWN_CPU_ATTRS = {'registers', 'run', 'opcode', 'opcode_len', 'mem', 'is_wait_for_event', 'is_wait_for_interrupt',
                   'executed_opcode'}


class SymMachine:
    """Engine-side mirror of an ArmV6 with symbolic leaves."""

    def __init__(self, eng, memarch='PMSA', nregions=12, fixed=None, mem=None, cfg_fixed=None):
        from pyvc.interp import Obj
        m = registry.mods()
        self.eng = eng
        self.memarch = memarch
        self.nregions = nregions
        ncpu = native_cpu(memarch, nregions)
        if set(vars(ncpu)) != KNOWN_CPU_ATTRS:
            raise RuntimeError('ArmV6 instance attributes changed: %s' % sorted(set(vars(ncpu)) ^ KNOWN_CPU_ATTRS))
        self.leaves = leaves(memarch, nregions)
        fixed = fixed or {}
        AR = m.abstract_register.AbstractRegister
        # ---- configuration object
        cfg = config_dict(memarch, nregions)
        configs = {}
        for k, v in cfg.items():
            if cfg_fixed and k in cfg_fixed:
                configs[k] = cfg_fixed[k]
            elif k in CFG_BOOL:
                configs[k] = eng.fresh_bool('cfg.' + k)
            elif k in CFG_INT:
                bits, _ = CFG_INT[k]
                if k == 'arch_version':
                    configs[k] = eng.fresh_int('cfg.arch_version', 2) + 4
                else:
                    configs[k] = eng.fresh_int('cfg.' + k, bits)
            else:
                configs[k] = v
        eng.register(configs)
        self.configs = configs
        C = m.configurations
        self.cfg_obj = eng.new_obj(C.Configurations, {'configs': configs}, tag='configurations')
        eng.subst[id(C.configurations)] = self.cfg_obj
        eng.cfg = configs
        # ---- registers
        nregs = ncpu.registers
        rattrs = {}
        for name, val in vars(nregs).items():
            if name == '_R':
                rattrs[name] = eng.register({rn: 0 for rn in val})
            elif name == 'changed_registers':
                rattrs[name] = eng.register([False] * 16)
            elif isinstance(val, AR):
                a = {k: v for k, v in vars(val).items()}
                rattrs[name] = eng.new_obj(type(val), a, tag=name)
            elif isinstance(val, list):
                lst = []
                for i, x in enumerate(val):
                    if isinstance(x, AR):
                        lst.append(eng.new_obj(type(x), dict(vars(x)), tag='%s[%d]' % (name, i)))
                    else:
                        lst.append(x)
                rattrs[name] = eng.register(lst)
            else:
                rattrs[name] = val
        self.regs = eng.new_obj(type(nregs), rattrs, tag='registers')
        self.mem = mem
        self.cpu = eng.new_obj(type(ncpu), {'registers': self.regs, 'run': True, 'opcode': 0, 'opcode_len': 0, 'mem': mem,
                                            'is_wait_for_event': False, 'is_wait_for_interrupt': False,
                                            'executed_opcode': None}, tag='cpu')
        # ---- symbolic leaves
        self.init = {}
        for lf in self.leaves:
            if lf.name in fixed:
                v = fixed[lf.name]
                if callable(v):
                    v = v(eng, lf)
            elif lf.kind == 'bool':
                v = eng.fresh_bool(lf.name)
            else:
                v = eng.fresh_int(lf.name, lf.bits)
            lf.set(self.cpu, v)
            self.init[lf.name] = v
        for k, v in configs.items():
            if k in CFG_BOOL or k in CFG_INT:
                self.init['cfg.' + k] = v

    def read(self):
        """current values of all leaves"""
        out = {lf.name: lf.get(self.cpu) for lf in self.leaves}
        for k, v in self.configs.items():
            if k in CFG_BOOL or k in CFG_INT:
                out['cfg.' + k] = v
        return out

    def shape_ok(self):
        """structural frame: no attribute added/removed on cpu/registers (new attributes would be state the schema
        does not see)"""
        ncpu = native_cpu(self.memarch, self.nregions)
        return set(self.cpu.attrs) == KNOWN_CPU_ATTRS and set(self.regs.attrs) == set(vars(ncpu.registers))


def install_native(cpu, inputs, memarch='PMSA', nregions=12):
    """set leaves of a native ArmV6 from a model; configuration keys go into the live configurations singleton"""
    m = registry.mods()
    for lf in leaves(memarch, nregions):
        if lf.name in inputs:
            v = inputs[lf.name]
            lf.set(cpu, bool(v) if lf.kind == 'bool' else int(v))
    cfgs = m.configurations.configurations.configs
    for k in CFG_BOOL:
        if 'cfg.' + k in inputs:
            cfgs[k] = bool(inputs['cfg.' + k])
    for k in CFG_INT:
        if 'cfg.' + k in inputs:
            cfgs[k] = int(inputs['cfg.' + k]) + (4 if k == 'arch_version' else 0)
    return cpu


def read_native(cpu, memarch='PMSA', nregions=12):
    return {lf.name: lf.get(cpu) for lf in leaves(memarch, nregions)}
