"""C20 — determinism and isolation, as frame / ownership contracts.

(1) Every step (whole-step units, all instruction words): `frame.own` — the code reads and writes only the processor
    instance's own state (the symbolic machine: registers, memory hub, scratch fields) and the configuration, plus
    immutable program constants (classes, functions, enum members, numbers, tuples).  The engine interprets a
    deterministic subset of Python (no clock, randomness, identity or hash-order dependent operation is modelled:
    using one is out-of-subset and reported undecided), so the final state is a function of exactly the unit's
    symbolic inputs; with `frame.own` those inputs are the instance's configuration, architectural state and memory:
    re-running from an identical snapshot gives an identical result, whatever ran before, and steps of different
    instances commute as long as they share no object.
(2) Instance creation: `ArmV6.__init__` must write only the new instance.  It does not: it reloads the module-level
    configuration singleton that every instance consults at run time (known finding KF-CONFIG-SINGLETON).
"""
from contracts import registry
from pyvc.unit import Unit, Contract
from pyvc.interp import PyRaise, Obj
from . import step

ASSUMPTIONS = step.ASSUMPTIONS + [
    'determinism: pyvc interprets a deterministic subset of Python; library calls outside its models are out-of-subset (undecided), never assumed deterministic',
    'two instances share no object other than program constants and the configuration singleton: follows from construction by '
    'Registers() / MemoryControllerHub.from_memory_list(), which build fresh objects (constructors under contract, not verified)',
]


class FileModel:
    is_resource_model = True
    sym_class = object


def init_unit():
    m = registry.mods()
    A = m.arm_v6.ArmV6
    CF = m.configurations
    Rg = m.registers.Registers
    Hub = m.memory_controller_hub.MemoryControllerHub
    import json

    def symbolic(eng):
        # the module-level configuration singleton: engine object, marked as not owned by the instance under construction
        single = eng.new_obj(CF.Configurations, {'configs': eng.register({})}, tag='configuration singleton (module level)')
        eng.subst[id(CF.configurations)] = single
        eng.foreign_objs = {id(single)}
        new_regs = lambda e, *a, **k: None
        contracts = {
            Rg.__init__: Contract(Rg.__init__, lambda e, self_: None, engine=True),
            Hub.from_memory_list: Contract(Hub.from_memory_list, lambda e, lst: e.new_obj(Hub, {'memories': e.register([])}), engine=True),
            open: Contract(open, lambda e, *a, **k: FileModel(), engine=True),
            json.load: Contract(json.load, lambda e, *a, **k: e.register({'memory_list': e.register([])}), engine=True),
        }
        eng.contracts = contracts
        inst = eng.new_obj(A, {}, tag='new instance')
        if not eng.prefix:
            eng.cover('creation of an instance is explored')
        try:
            eng.call(A.__init__, [inst, 'some-configuration.json'])
        except PyRaise as e:
            eng.oblige('safe.host', 'ArmV6.__init__ raises %s' % e.exc.cls.__name__, False, detail=str(e.exc.attrs.get('args')))
            return
        cfgw = [w for w in eng.foreign_writes if 'Configurations' in w]
        other = [w for w in eng.foreign_writes if 'Configurations' not in w]
        eng.oblige('frame.own', 'ArmV6.__init__ does not rewrite the module-level configuration that other instances consult', not cfgw,
                   detail='; '.join(cfgw[:4]))
        eng.oblige('frame.own', 'ArmV6.__init__ writes no other object outside the new instance', not other, detail='; '.join(other[:4]))
        eng.oblige('post', 'ArmV6.__init__ initialises the per-step scratch fields', all(k in inst.attrs for k in (
            'registers', 'run', 'opcode', 'opcode_len', 'mem', 'is_wait_for_event', 'is_wait_for_interrupt', 'executed_opcode')))

    def replay(inputs, ob):
        """two instances with different configuration files: the first one's view of the configuration changes"""
        import json as js
        import os
        import tempfile
        m2 = registry.mods()
        base = os.path.join(os.path.dirname(m2.arm_v6.__file__), 'arm_configurations.json')
        cfg = js.load(open(base))
        d = tempfile.mkdtemp(prefix='c20_')
        try:
            pa, pb = os.path.join(d, 'a.json'), os.path.join(d, 'b.json')
            ca = dict(cfg, arch_version=6)
            cb = dict(cfg, arch_version=7)
            js.dump(ca, open(pa, 'w'))
            js.dump(cb, open(pb, 'w'))
            a = m2.arm_v6.ArmV6(pa)
            before = m2.configurations.arch_version()
            m2.arm_v6.ArmV6(pb)
            after = m2.configurations.arch_version()
            text = 'instance A created with arch_version=6 sees arch_version()=%s; after creating instance B with arch_version=7 it sees %s' % (before, after)
            return before != after, text
        finally:
            import shutil
            shutil.rmtree(d, ignore_errors=True)
            m2.arm_v6.ArmV6()          # restore the default configuration for whatever runs next in this process

    return Unit('C20/fn:%s.ArmV6.__init__' % A.__module__, ['C20'], symbolic, replay, {'contracts': {}},
                meta={'function': '%s.ArmV6.__init__' % A.__module__})


def regs_init_unit():
    """Registers.__init__ (with every register class's constructor): builds the register file of one instance from the
    configuration only - no object other than the new instance is written, nothing mutable outside the instance and the
    configuration is read, and no two fields of the new register file are the same mutable object (ArmV6.__init__ above uses
    this constructor by contract)."""
    m = registry.mods()
    CF = m.configurations
    Rg = m.registers.Registers

    def symbolic(eng):
        from . import machine as MC
        real = MC.config_dict('PMSA', 1)            # the shipped configuration file (reset values included)
        cfgs = eng.register(dict(real))
        if isinstance(real.get('reset_values'), dict):
            cfgs['reset_values'] = eng.register(dict(real['reset_values']))
        single = eng.new_obj(CF.Configurations, {'configs': cfgs}, tag='configuration singleton (module level)')
        eng.subst[id(CF.configurations)] = single
        eng.foreign_objs = {id(single)}
        eng.contracts = {}
        inst = eng.new_obj(Rg, {}, tag='new register file')
        if not eng.prefix:
            eng.cover('creation of a register file is explored')
        try:
            eng.call(Rg.__init__, [inst])
        except PyRaise as e:
            eng.oblige('safe.host', 'Registers.__init__ raises %s' % e.exc.cls.__name__, False, detail=str(e.exc.attrs.get('args')))
            if eng.foreign_writes or eng.foreign_reads:
                eng.oblige('frame.own', 'Registers.__init__ touches no mutable state outside the new register file and the configuration', False,
                           detail='; '.join(list(eng.foreign_writes[:3]) + sorted(eng.foreign_reads)[:3]))
            return
        eng.oblige('frame.own', 'Registers.__init__ writes no object outside the new register file', not eng.foreign_writes,
                   detail='; '.join(eng.foreign_writes[:4]))
        eng.oblige('frame.own', 'Registers.__init__ reads no mutable state outside the new register file and the configuration', not eng.foreign_reads,
                   detail='; '.join(sorted(eng.foreign_reads)[:4]))
        seen, shared = {}, []

        def walk(o, path):
            if isinstance(o, Obj) or isinstance(o, (list, dict)):
                if id(o) in seen:
                    shared.append('%s and %s' % (seen[id(o)], path))
                    return
                seen[id(o)] = path
            if isinstance(o, Obj):
                for k, v in o.attrs.items():
                    walk(v, path + '.' + k)
            elif isinstance(o, list):
                for i, v in enumerate(o):
                    walk(v, '%s[%d]' % (path, i))
            elif isinstance(o, dict):
                for k, v in o.items():
                    walk(v, '%s[%s]' % (path, getattr(k, 'name', k)))
        walk(inst, 'registers')
        eng.oblige('frame.own', 'no two fields of the new register file are the same mutable object', not shared, detail='; '.join(shared[:4]))

    def replay(inputs, ob):
        import json as js
        import os
        import tempfile
        m2 = registry.mods()
        base = os.path.join(os.path.dirname(m2.arm_v6.__file__), 'arm_configurations.json')
        cfg = js.load(open(base))
        d = tempfile.mkdtemp(prefix='c20_')
        try:
            pa, pb = os.path.join(d, 'a.json'), os.path.join(d, 'b.json')
            rv = dict(cfg.get('reset_values', {}))
            rv['VBAR'] = '0x40'
            js.dump(cfg, open(pa, 'w'))
            js.dump(dict(cfg, reset_values=rv), open(pb, 'w'))
            m2.arm_v6.ArmV6(pa)
            b = m2.arm_v6.ArmV6(pb)
            text = 'instance B created (after an instance with the stock configuration) from a configuration with reset value VBAR=0x40 has VBAR=%s' % hex(b.registers.vbar.value)
            return b.registers.vbar.value != 0x40, text
        finally:
            import shutil
            shutil.rmtree(d, ignore_errors=True)
            m2.arm_v6.ArmV6()
    return Unit('C20/fn:%s.Registers.__init__' % Rg.__module__, ['C20'], symbolic, replay, {'contracts': {}},
                meta={'function': '%s.Registers.__init__' % Rg.__module__})


def units(tier):
    return [init_unit(), regs_init_unit()] + step.units(tier)
