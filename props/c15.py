"""C15 — VMSA translation, stage 1, Short-descriptor format and MMU off.

translate_address_v (with fcse_translate, translation_table_walk_sd, remapped_tex_decode, convert_attrs_hints,
check_domain, check_permission, data_abort, encode_sdfsr, translate_address_v_s1_off inlined from the real source) over
an abstract physical memory (HubRead4 uninterpreted: every content of the translation tables) against the B3.19
pseudocode: physical address (40 bits), NS, memory type / shareability / cacheability, or the fault kind with
DFSR.{FS, domain, WnR} and DFAR; nothing else changes."""
from contracts import registry
from pyvc.unit import Unit, values_eq
from pyvc.interp import PyRaise, Obj
from pyvc import sym
from pyvc.sym import land, lor, lnot, ite, implies
from spec import vmsa as VM
from spec import pmsa as PM
from spec import state as ST
from spec.rt import bits, bit
from . import machine as MC
from . import c13
from .common import own_frame, ALSO_MEM
from .c11 import valid
from pyvc.sym import cmp

ASSUMPTIONS = [
    'functional scope: stage 1 - Short-descriptor format or MMU off, Long-descriptor format outside Hyp mode, both with and without the '
    'Virtualization Extensions configured (stage 2 inactive: Secure state or HCR.VM == 0; the Long-descriptor '
    'unit with the extensions present runs in the thorough tier only, about 35 minutes), and the Hyp-mode Long-descriptor walk with HSCTLR.M == 1',
    'no functional specification for the second stage of translation and for Hyp mode with HSCTLR.M == 0: safety units only (no host '
    'error, termination, frame, ownership, 40-bit result) for Hyp mode, for stage 2 with the stage 1 MMU off and for second_stage_translate() '
    'on its own; translate_address_v with stage 1 on AND stage 2 active is not explored as a whole (its parts are: the stage 1 units, '
    'second_stage_translate, the stage 2 walk through the stage-1-off unit)',
    'a configuration with the Virtualization Extensions also has the Security Extensions and LPAE (architectural requirement)',
    'SCTLR.HA == 0 (no hardware management of the access flag); SCTLR.TRE == 1 (with TRE == 0 the implementation calls the mock '
    'remap_regs_have_reset_values() and raises NotImplementedError on every walk)',
    'Long-descriptor faults and aborts taken to Hyp mode end in the mock TLBLookupCameFromCacheMaintenance() (NotImplementedError): '
    '"a fault exactly where specified" is proved there, not the syndrome',
    'physical memory is the abstract hub of C13/C16 (HubRead4/HubRead8 uninterpreted = arbitrary table contents)',
]


def unit(virt=False):
    m = registry.mods()
    A = m.arm_v6.ArmV6
    D = m.enums.DAbort
    MT = m.memory_attributes.MemType
    tcode = {MT.NORMAL: PM.NORMAL, MT.DEVICE: PM.DEVICE, MT.STRONGLY_ORDERED: PM.STRONGLY_ORDERED}
    kcode = {D.TRANSLATION: VM.TRANSLATION, D.ACCESS_FLAG: VM.ACCESS_FLAG, D.DOMAIN: VM.DOMAIN, D.PERMISSION: VM.PERMISSION,
             D.ALIGNMENT: VM.ALIGNMENT}
    uid = 'C15/fn:%s.ArmV6.translate_address_v[stage1,short-descriptor%s]' % (A.__module__, ',virt-ext present,stage 2 off' if virt else '')

    def symbolic(eng):
        log = eng.register([])
        hub = c13.AbsHub(eng, log)
        mach = MC.SymMachine(eng, 'VMSA', 1, mem=hub, cfg_fixed=({'have_virt_ext': True, 'have_security_ext': True, 'have_lpae': True} if virt else {'have_virt_ext': False}))
        cpu = mach.cpu
        init = dict(mach.init)
        cfg = mach.configs
        mode0 = bits(init['cpsr'], 4, 0)
        eng.assume(lnot(ST.bad_mode(mode0, cfg['have_security_ext'], cfg['have_virt_ext'])))
        eng.assume(mode0 != ST.HYP)
        if virt:
            # stage 2 inactive: Secure state, or HCR.VM == 0 (the second stage is outside every unit, DESIGN 14.16)
            eng.assume(lor(ST.is_secure(init), bit(init['hcr'], 0) == 0))
        eng.assume(bit(init['ttbcr'], 31) == 0)                      # EAE
        eng.assume(bit(init['sctlr'], 17) == 0)                      # HA
        eng.assume(bit(init['sctlr'], 28) == 1)                      # TRE
        va = eng.fresh_int('va', 32)
        ispriv = eng.fresh_bool('ispriv')
        iswrite = eng.fresh_bool('iswrite')
        wasaligned = eng.fresh_bool('wasaligned')
        size = 4
        if not eng.prefix:
            eng.cover('VMSA state satisfiable')

        spec_reads = []

        def hook(model):
            return {'__reads__': [[sym.evaluate(pa, model), sym.evaluate(v, model)] for (k, pa, sz, v) in log if k == 'hubR'] +
                                 [[sym.evaluate(pa, model), sym.evaluate(v, model)] for (pa, v) in spec_reads]}
        eng.model_hook = hook
        contracts = {}
        contracts.update(registry.l1())
        contracts.update(registry.regview())
        contracts.update(registry.l2())
        eng.contracts = contracts
        exc = None
        r = None
        try:
            r = eng.call(A.translate_address_v, [cpu, va, ispriv, iswrite, size, wasaligned])
        except PyRaise as e:
            exc = e.exc
        final = mach.read()
        own_frame(eng, 'translate_address_v')
        if r is not None and not (isinstance(r, Obj) and isinstance(r.attrs.get('paddress'), Obj) and isinstance(r.attrs.get('memattrs'), Obj)):
            # (e.g. a descriptor object shared between translations instead of one built for this request)
            eng.oblige('frame.own', 'the descriptor returned is an object built by this translation (not one shared with other translations)', False, detail=type(r).__name__)
            return
        def rd(pa):
            v = c13.hub_read(hub.init, pa, 4)
            spec_reads.append((pa, v))            # the specification's own descriptor fetches (for faithful replays)
            return v
        sp = VM.translate_v(init, va, ispriv, iswrite, wasaligned, rd)
        dc = lor(sp['unpred'], sp['impdef'])
        if exc is not None and issubclass(exc.cls, NotImplementedError):
            # mock hooks: TLBLookupCameFromCacheMaintenance() is consulted when a fault is reported on an LPAE implementation
            eng.oblige('post', 'the not-implemented outcome only for the IMPLEMENTATION DEFINED TEX remap region or the mock hook of fault reporting (LPAE)',
                       lor(dc, land(cfg['have_lpae'], sp['kind'] != VM.NONE)))
            return
        if exc is not None and not issubclass(exc.cls, m.arm_exceptions.DataAbortException):
            eng.oblige('safe.host', 'translate_address_v raises %s' % exc.cls.__name__, False, detail=str(exc.attrs.get('args')))
            return
        if exc is not None:
            dtype = exc.attrs.get('abort_type')
            k = kcode.get(dtype)
            eng.oblige('post', 'fault kind %s exactly when the tables / DACR / AP say so' % getattr(dtype, 'name', dtype),
                       lor(dc, sp['kind'] == k) if k is not None else dc)
            exp = dict(init)
            exp['dfar'] = sp['mva']
            val, unk = VM.sd_dfsr(init['dfsr'], sp['kind'], sp['level'], sp['domain'], iswrite, cfg['have_lpae'])
            named = []
            for leaf, v in final.items():
                if leaf == 'dfsr':
                    keep = unk ^ 0xFFFFFFFF
                    named.append((leaf, lor(dc, values_eq(v & keep, val & keep))))
                else:
                    named.append((leaf, lor(dc, values_eq(v, exp[leaf]))))
            eng.oblige_all('post', 'DFSR.{FS (kind, level), domain, WnR} and DFAR identify the fault; nothing else changes', named)
            eng.oblige('frame', 'a faulting translation writes no memory', sym.SymBool(hub.term == hub.init))
            return
        eng.oblige('post', 'translation succeeds only when no fault is specified', lor(dc, sp['kind'] == VM.NONE))
        eng.oblige_all('frame', 'a successful translation changes no state', [(k, values_eq(v, init[k])) for k, v in final.items()] +
                       [('memory', sym.SymBool(hub.term == hub.init))])
        pa = r.attrs['paddress'].attrs['physicaladdress']
        eng.oblige('post', 'physical address == descriptor output address : untranslated low bits (40 bits; flat when the MMU is off)',
                   lor(dc, values_eq(pa, sp['pa'])))
        eng.oblige('post', 'NS attribute of the output address', lor(dc, values_eq(r.attrs['paddress'].attrs['ns'], sp['ns'])))
        ma = r.attrs['memattrs']
        mem = sp['mem']
        on = sp['mmu_on']
        ty = ma.attrs['type']
        exp_type = ite(on, mem['type'], PM.STRONGLY_ORDERED)
        eng.oblige('post', 'memory type from TEX remap (PRRR) / Strongly-ordered when the MMU is off',
                   lor(dc, land(on, lnot(mem['type_known'])), exp_type == tcode[ty]))
        named = [('shareable', lor(dc, land(on, lnot(mem['share_known'])), sym.eq(sym.truth(ma.attrs['shareable']), sym.truth(ite(on, mem['shareable'], True))))),
                 ('outershareable', lor(dc, land(on, lnot(mem['share_known'])), sym.eq(sym.truth(ma.attrs['outershareable']), sym.truth(ite(on, mem['outershareable'], True)))))]
        for f in ('innerattrs', 'innerhints', 'outerattrs', 'outerhints'):
            named.append((f, lor(dc, lnot(on), lnot(mem['attrs_known']), values_eq(ma.attrs[f], mem[f]))))
        eng.oblige_all('post', 'shareability and cacheability attributes (PRRR/NMRR remap)', named)

    def replay(inputs, ob):
        MC.leaves('VMSA', 1)       # (constructs the schema's own instance first: every constructor reloads the configuration singleton)
        cpu = MC.native_cpu('VMSA', 1, overrides=({'have_virt_ext': True, 'have_security_ext': True, 'have_lpae': True} if virt else {'have_virt_ext': False}), fresh=True)
        ins = dict(inputs)
        MC.install_native(cpu, ins, 'VMSA', 1)
        init = MC.read_native(cpu, 'VMSA', 1)
        cfgs = registry.mods().configurations.configurations.configs
        for k in MC.CFG_BOOL + list(MC.CFG_INT):
            init['cfg.' + k] = cfgs.get(k)
        table = {pa: v for pa, v in ins.get('__reads__', [])}

        class Mem:
            def __getitem__(self, key):
                desc, size = key
                return table.get(desc.paddress.physicaladdress, 0)

            def set_bits(self, *a):
                raise NotImplementedError()          # as the real hub's mock
        cpu.mem = Mem()
        va, ispriv, iswrite, wasal = ins.get('va', 0), bool(ins.get('ispriv')), bool(ins.get('iswrite')), bool(ins.get('wasaligned'))
        import io
        import contextlib
        buf = io.StringIO()
        exc = r = None
        try:
            with contextlib.redirect_stdout(buf):
                r = cpu.translate_address_v(va, ispriv, iswrite, 4, wasal)
        except Exception as e:      # noqa
            exc = e
        final = MC.read_native(cpu, 'VMSA', 1)
        sp = VM.translate_v(init, va, ispriv, iswrite, wasal, lambda pa: table.get(pa, 0))
        lines = ['va=%s priv=%s write=%s aligned=%s sctlr=%s ttbcr=%s ttbr0=%s ttbr1=%s dacr=%s descriptors read=%s' % (
            hex(va), ispriv, iswrite, wasal, hex(init['sctlr']), hex(init['ttbcr']), hex(init['ttbr0_64']), hex(init['ttbr1_64']),
            hex(init['dacr']), {hex(a): hex(v) for a, v in table.items()})]
        want = VM.KIND_NAMES[sp['kind']]
        got = 'ok' if exc is None else getattr(getattr(exc, 'abort_type', None), 'name', type(exc).__name__)
        lines.append('real outcome %s ; architectural outcome %s (level %s, domain %s)%s' % (
            got, want, sp['level'], sp['domain'], ' (UNPREDICTABLE / IMPLEMENTATION DEFINED input)' if (sp['unpred'] or sp['impdef']) else ''))
        if sp['unpred'] or sp['impdef']:
            return False, '\n'.join(lines)
        bad = got != want
        if not bad and exc is None:
            pa = r.paddress.physicaladdress
            lines.append('real PA %s NS %s type %s ; spec PA %s NS %s type %s' % (hex(pa), r.paddress.ns, r.memattrs.type.name, hex(sp['pa']), sp['ns'],
                                                                                   PM.MEMTYPE_NAMES[sp['mem']['type'] if sp['mmu_on'] else PM.STRONGLY_ORDERED]))
            bad = pa != sp['pa'] or r.paddress.ns != sp['ns']
            if sp['mmu_on'] and sp['mem']['type_known']:
                bad = bad or r.memattrs.type.name != PM.MEMTYPE_NAMES[sp['mem']['type']]
                if sp['mem']['share_known']:
                    bad = bad or bool(r.memattrs.shareable) != bool(sp['mem']['shareable'])
                    lines.append('real shareable/outershareable %s/%s ; spec %s/%s' % (bool(r.memattrs.shareable), bool(r.memattrs.outershareable),
                                                                                         bool(sp['mem']['shareable']), bool(sp['mem']['outershareable'])))
                    bad = bad or bool(r.memattrs.outershareable) != bool(sp['mem']['outershareable'])
                if sp['mem'].get('attrs_known'):
                    got_a = tuple(getattr(r.memattrs, f_) for f_ in ('innerattrs', 'innerhints', 'outerattrs', 'outerhints'))
                    want_a = tuple(sp['mem'][f_] for f_ in ('innerattrs', 'innerhints', 'outerattrs', 'outerhints'))
                    lines.append('real inner/outer attrs+hints %s ; spec %s' % (got_a, want_a))
                    bad = bad or got_a != want_a
        elif not bad:
            val, unk = VM.sd_dfsr(init['dfsr'], sp['kind'], sp['level'], sp['domain'], iswrite, init['cfg.have_lpae'])
            lines.append('real DFSR %s DFAR %s ; spec DFSR %s (unknown bits %s) DFAR %s' % (hex(final['dfsr']), hex(final['dfar']), hex(val), hex(unk), hex(sp['mva'])))
            bad = (final['dfsr'] & ~unk) != (val & ~unk) or final['dfar'] != sp['mva']
        return bad, '\n'.join(lines)

    return Unit(uid, ['C15'], symbolic, replay, {'contracts': {}, 'max_paths': 50000, 'merge_calls': {A.encode_sdfsr, A.convert_attrs_hints}},
                meta={'function': '%s.ArmV6.translate_address_v' % A.__module__, 'also': ALSO_MEM})


def unit_ld(virt=False, hyp=False):
    """stage 1, Long-descriptor format (TTBCR.EAE == 1), outside Hyp mode, no Virtualization Extensions"""
    m = registry.mods()
    A = m.arm_v6.ArmV6
    MT = m.memory_attributes.MemType
    tcode = {MT.NORMAL: PM.NORMAL, MT.DEVICE: PM.DEVICE, MT.STRONGLY_ORDERED: PM.STRONGLY_ORDERED}
    uid = 'C15/fn:%s.ArmV6.translate_address_v[stage1,long-descriptor%s]' % (A.__module__, ',Hyp mode' if hyp else (',virt-ext present,stage 2 off' if virt else ''))

    def symbolic(eng):
        log = eng.register([])
        hub = c13.AbsHub(eng, log)
        mach = MC.SymMachine(eng, 'VMSA', 1, mem=hub, cfg_fixed=({'have_virt_ext': True, 'have_security_ext': True, 'have_lpae': True} if virt else {'have_virt_ext': False}))
        cpu = mach.cpu
        init = dict(mach.init)
        cfg = mach.configs
        mode0 = bits(init['cpsr'], 4, 0)
        eng.assume(lnot(ST.bad_mode(mode0, cfg['have_security_ext'], cfg['have_virt_ext'])))
        eng.assume((mode0 == ST.HYP) if hyp else (mode0 != ST.HYP))
        if virt and not hyp:
            # stage 2 inactive: Secure state, or HCR.VM == 0
            eng.assume(lor(ST.is_secure(init), bit(init['hcr'], 0) == 0))
        if hyp:
            eng.assume(lnot(ST.is_secure(init)))                         # Hyp mode exists in Non-secure state only
            eng.assume(bit(init['hsctlr'], 0) == 1)                      # HSCTLR.M (off: flat map, safety unit)
        else:
            eng.assume(bit(init['ttbcr'], 31) == 1)                      # EAE
            eng.assume(bit(init['sctlr'], 0) == 1)                       # MMU on (off: the short-descriptor unit)
        va = eng.fresh_int('va', 32)
        ispriv = eng.fresh_bool('ispriv')
        iswrite = eng.fresh_bool('iswrite')
        wasaligned = eng.fresh_bool('wasaligned')
        if not eng.prefix:
            eng.cover('VMSA/LPAE state satisfiable')

        spec_reads = []

        def hook(model):
            return {'__reads__': [[sym.evaluate(pa, model), sym.evaluate(v, model)] for (k, pa, sz, v) in log if k == 'hubR'] +
                                 [[sym.evaluate(pa, model), sym.evaluate(v, model)] for (pa, v) in spec_reads]}
        eng.model_hook = hook
        contracts = {}
        contracts.update(registry.l1())
        contracts.update(registry.regview())
        contracts.update(registry.l2())
        eng.contracts = contracts
        exc = None
        r = None
        try:
            r = eng.call(A.translate_address_v, [cpu, va, ispriv, iswrite, 4, wasaligned])
        except PyRaise as e:
            exc = e.exc
        except sym.OutOfSubset as e:
            if 'unwinding bound' not in str(e):
                raise
            # the walk has at most three levels: more iterations on a feasible path = the loop does not terminate as specified
            if getattr(e, 'pc', None) is not None:
                eng.path.pc = list(e.pc)
            eng.oblige('term', 'the table walk finishes within three levels (lookup loop terminates)', False, detail=str(e))
            return
        final = mach.read()
        own_frame(eng, 'translate_address_v')
        if r is not None and not (isinstance(r, Obj) and isinstance(r.attrs.get('paddress'), Obj) and isinstance(r.attrs.get('memattrs'), Obj)):
            # (e.g. a descriptor object shared between translations instead of one built for this request)
            eng.oblige('frame.own', 'the descriptor returned is an object built by this translation (not one shared with other translations)', False, detail=type(r).__name__)
            return
        def rd8(pa):
            v = c13.hub_read(hub.init, pa, 8)
            spec_reads.append((pa, v))
            return v
        sp = VM.translate_v_ld(init, va, ispriv, iswrite, wasaligned, rd8, hyp)
        dc = sp['unpred']
        if exc is not None and issubclass(exc.cls, NotImplementedError):
            # Long-descriptor fault reporting consults the mock TLBLookupCameFromCacheMaintenance(); IMPLEMENTATION DEFINED MAIR
            # encodings leave the memory type unset
            eng.oblige('post', 'the not-implemented outcome only where a fault is specified (mock hook of LPAE fault reporting) or the MAIR encoding is IMPLEMENTATION DEFINED',
                       lor(dc, sp['kind'] != VM.NONE, lnot(sp['type_defined'])))
            return
        if exc is not None:
            eng.oblige('safe.host', 'translate_address_v raises %s' % exc.cls.__name__, False, detail=str(exc.attrs.get('args')))
            return
        eng.oblige('post', 'translation succeeds only when no fault is specified', lor(dc, sp['kind'] == VM.NONE))
        eng.oblige_all('frame', 'a successful translation changes no state', [(k, values_eq(v, init[k])) for k, v in final.items()] +
                       [('memory', sym.SymBool(hub.term == hub.init))])
        pa = r.attrs['paddress'].attrs['physicaladdress']
        eng.oblige('post', 'physical address == output address of the block/page descriptor : untranslated low bits (40 bits)',
                   lor(dc, values_eq(pa, sp['pa'])))
        eng.oblige('post', 'NS attribute of the output address', lor(dc, values_eq(r.attrs['paddress'].attrs['ns'], sp['ns'])))
        ma = r.attrs['memattrs']
        ty = ma.attrs['type']
        eng.oblige('post', 'memory type from MAIRn.Attr<AttrIndx>', lor(dc, lnot(sp['type_defined']), sp['mtype'] == tcode[ty]))
        eng.oblige_all('post', 'shareability from the descriptor SH field', [
            ('shareable', lor(dc, lnot(sp['type_defined']), sym.eq(sym.truth(ma.attrs['shareable']), sym.truth(sp['shareable'])))),
            ('outershareable', lor(dc, lnot(sp['type_defined']), sym.eq(sym.truth(ma.attrs['outershareable']), sym.truth(sp['outershareable']))))])

    def replay(inputs, ob):
        MC.leaves('VMSA', 1)       # (constructs the schema's own instance first: every constructor reloads the configuration singleton)
        cpu = MC.native_cpu('VMSA', 1, overrides=({'have_virt_ext': True, 'have_security_ext': True, 'have_lpae': True} if virt else {'have_virt_ext': False}), fresh=True)
        ins = dict(inputs)
        MC.install_native(cpu, ins, 'VMSA', 1)
        init = MC.read_native(cpu, 'VMSA', 1)
        cfgs = registry.mods().configurations.configurations.configs
        for k in MC.CFG_BOOL + list(MC.CFG_INT):
            init['cfg.' + k] = cfgs.get(k)
        table = {pa: v for pa, v in ins.get('__reads__', [])}

        class Mem:
            def __getitem__(self, key):
                desc, size = key
                return table.get(desc.paddress.physicaladdress, 0)

            def set_bits(self, *a):
                raise NotImplementedError()          # as the real hub's mock
        cpu.mem = Mem()
        va, ispriv, iswrite, wasal = ins.get('va', 0), bool(ins.get('ispriv')), bool(ins.get('iswrite')), bool(ins.get('wasaligned'))
        import io
        import contextlib
        import signal

        def on_alarm(signum, frame):
            raise TimeoutError('translation did not terminate within 5 s')
        buf = io.StringIO()
        exc = r = None
        signal.signal(signal.SIGALRM, on_alarm)
        signal.alarm(5)
        try:
            with contextlib.redirect_stdout(buf):
                r = cpu.translate_address_v(va, ispriv, iswrite, 4, wasal)
        except Exception as e:      # noqa
            exc = e
        finally:
            signal.alarm(0)
        sp = VM.translate_v_ld(init, va, ispriv, iswrite, wasal, lambda pa: table.get(pa, 0), hyp)
        lines = ['va=%s priv=%s write=%s aligned=%s sctlr=%s ttbcr=%s ttbr0=%s ttbr1=%s mair0=%s descriptors read=%s' % (
            hex(va), ispriv, iswrite, wasal, hex(init['sctlr']), hex(init['ttbcr']), hex(init['ttbr0_64']), hex(init['ttbr1_64']),
            hex(init['mair0']), {hex(a): hex(v) for a, v in table.items()})]
        want = VM.KIND_NAMES[sp['kind']]
        got = 'ok' if exc is None else type(exc).__name__
        lines.append('real outcome %s ; architectural outcome %s (level %s)%s' % (got, want, sp['level'], ' (UNPREDICTABLE input)' if sp['unpred'] else ''))
        if sp['unpred']:
            return False, '\n'.join(lines)
        if ob.get('kind') == 'term':
            return isinstance(exc, TimeoutError), '\n'.join(lines)
        if exc is not None:
            bad = not (isinstance(exc, NotImplementedError) and (sp['kind'] != VM.NONE or not sp['type_defined']))
            return bad, '\n'.join(lines)
        bad = sp['kind'] != VM.NONE
        if not bad:
            pa = r.paddress.physicaladdress
            lines.append('real PA %s NS %s type %s ; spec PA %s NS %s type %s' % (hex(pa), r.paddress.ns, getattr(r.memattrs.type, 'name', r.memattrs.type),
                                                                                   hex(sp['pa']), sp['ns'], PM.MEMTYPE_NAMES[sp['mtype']]))
            bad = pa != sp['pa'] or r.paddress.ns != sp['ns']
            if sp['type_defined']:
                bad = bad or getattr(r.memattrs.type, 'name', None) != PM.MEMTYPE_NAMES[sp['mtype']] or bool(r.memattrs.shareable) != bool(sp['shareable'])
        return bad, '\n'.join(lines)

    return Unit(uid, ['C15'], symbolic, replay, {'contracts': {}, 'max_paths': 50000, 'merge_calls': {A.encode_ldfsr, A.convert_attrs_hints}, 'loop_bound': 8},
                meta={'function': '%s.ArmV6.translate_address_v' % A.__module__, 'also': ALSO_MEM})


def unit_safety(which):
    """Hyp mode and the second stage of translation (Virtualization Extensions): no functional specification, but the
    contracts every caller relies on -- C18: no host error (an architectural Data Abort, the documented not-implemented
    outcome of a mock hook, or a descriptor); C19/C20: a successful translation changes no register and no memory, a fault
    changes only the fault-reporting registers (DFSR, DFAR, HSR, HDFAR, HPFAR and, for prefetch-style reporting, IFSR/IFAR),
    the walk terminates, the descriptor returned is built by this translation and has a 40-bit physical address."""
    m = registry.mods()
    A = m.arm_v6.ArmV6
    MT = m.memory_attributes.MemType
    uid = 'C15/fn:%s.ArmV6.translate_address_v[safety;%s]' % (A.__module__, which)
    FAULT_REGS = ('dfsr', 'dfar', 'hsr', 'hdfar', 'hpfar', 'ifsr', 'ifar')
    CFG = {'have_virt_ext': True, 'have_security_ext': True, 'have_lpae': True}

    def symbolic(eng):
        log = eng.register([])
        hub = c13.AbsHub(eng, log)
        mach = MC.SymMachine(eng, 'VMSA', 1, mem=hub, cfg_fixed=CFG)
        cpu = mach.cpu
        init = dict(mach.init)
        cfg = mach.configs
        mode0 = bits(init['cpsr'], 4, 0)
        eng.assume(lnot(ST.bad_mode(mode0, cfg['have_security_ext'], cfg['have_virt_ext'])))
        eng.assume(valid(init))
        if which == 'hyp':
            eng.assume(mode0 == ST.HYP)
            eng.assume(lnot(ST.is_secure(init)))                        # Hyp mode exists in Non-secure state only
        else:
            eng.assume(mode0 != ST.HYP)
            eng.assume(land(lnot(ST.is_secure(init)), bit(init['hcr'], 0) == 1))     # stage 2 active
            eng.assume((bit(init['sctlr'], 0) == 1) if which == 'stage2,s1 on' else (bit(init['sctlr'], 0) == 0))
        va = eng.fresh_int('va', 32)
        ispriv = eng.fresh_bool('ispriv')
        iswrite = eng.fresh_bool('iswrite')
        wasaligned = eng.fresh_bool('wasaligned')
        if not eng.prefix:
            eng.cover('state satisfiable')

        def hook(model):
            return {'__reads__': [[sym.evaluate(pa, model), sym.evaluate(v, model)] for (k, pa, sz, v) in log if k == 'hubR']}
        eng.model_hook = hook
        contracts = {}
        contracts.update(registry.l1())
        contracts.update(registry.regview())
        contracts.update(registry.l2())
        eng.contracts = contracts
        exc = None
        r = None
        try:
            r = eng.call(A.translate_address_v, [cpu, va, ispriv, iswrite, 4, wasaligned])
        except PyRaise as e:
            exc = e.exc
        except sym.OutOfSubset as e:
            if 'unwinding bound' not in str(e):
                raise
            if getattr(e, 'pc', None) is not None:
                eng.path.pc = list(e.pc)
            eng.oblige('term', 'every table walk finishes within three levels (lookup loop terminates)', False, detail=str(e))
            return
        final = mach.read()
        own_frame(eng, 'translate_address_v')
        if exc is not None and issubclass(exc.cls, NotImplementedError):
            return          # a mock hook of the implementation (fault syndrome bit, access flag update, ...): accepted outcome
        if exc is not None and not issubclass(exc.cls, m.arm_exceptions.DataAbortException):
            eng.oblige('safe.host', 'translate_address_v raises %s' % exc.cls.__name__, False, detail=str(exc.attrs.get('args')))
            return
        mem_same = ('memory', sym.SymBool(hub.term == hub.init))
        if exc is not None:
            eng.oblige_all('frame', 'a faulting translation changes only the fault-reporting registers',
                           [(k, values_eq(v, init[k])) for k, v in final.items() if k not in FAULT_REGS] + [mem_same])
            return
        eng.oblige_all('frame', 'a successful translation changes no state', [(k, values_eq(v, init[k])) for k, v in final.items()] + [mem_same])
        ok_shape = isinstance(r, Obj) and isinstance(r.attrs.get('paddress'), Obj) and isinstance(r.attrs.get('memattrs'), Obj)
        eng.oblige('frame.own', 'the descriptor returned is an object built by this translation', ok_shape, detail=type(r).__name__)
        if not ok_shape:
            return
        pa = r.attrs['paddress'].attrs['physicaladdress']
        eng.oblige('inv.range', 'the physical address is a 40-bit value', land(cmp('>=', pa, 0), cmp('<', pa, 1 << 40)) if sym.is_intlike(pa) else False)
        ty = r.attrs['memattrs'].attrs.get('type')
        eng.oblige('safe.host', 'the memory type of the result is a MemType member', isinstance(ty, MT) or (isinstance(ty, Obj) and ty.cls is MT) or type(ty).__name__ == 'MemType',
                   detail=repr(ty)[:80])

    def replay(inputs, ob):
        MC.leaves('VMSA', 1)       # (constructs the schema's own instance first: every constructor reloads the configuration singleton)
        cpu = MC.native_cpu('VMSA', 1, overrides=CFG, fresh=True)
        ins = dict(inputs)
        MC.install_native(cpu, ins, 'VMSA', 1)
        init = MC.read_native(cpu, 'VMSA', 1)
        table = {pa: v for pa, v in ins.get('__reads__', [])}
        writes = []

        class Mem:
            def __getitem__(self, key):
                desc, size = key
                return table.get(desc.paddress.physicaladdress, 0)

            def __setitem__(self, key, value):
                writes.append(key)

            def set_bits(self, *a):
                raise NotImplementedError()
        cpu.mem = Mem()
        va, ispriv, iswrite, wasal = ins.get('va', 0), bool(ins.get('ispriv')), bool(ins.get('iswrite')), bool(ins.get('wasaligned'))
        import io
        import contextlib
        import signal

        def on_alarm(signum, frame):
            raise TimeoutError('translation did not terminate within 5 s')
        exc = r = None
        signal.signal(signal.SIGALRM, on_alarm)
        signal.alarm(5)
        try:
            with contextlib.redirect_stdout(io.StringIO()):
                r = cpu.translate_address_v(va, ispriv, iswrite, 4, wasal)
        except Exception as e:      # noqa
            exc = e
        finally:
            signal.alarm(0)
        final = MC.read_native(cpu, 'VMSA', 1)
        lines = ['va=%s priv=%s write=%s aligned=%s cpsr=%s scr=%s hcr=%s sctlr=%s hsctlr=%s vtcr=%s descriptors read=%s' % (
            hex(va), ispriv, iswrite, wasal, hex(init['cpsr']), hex(init['scr']), hex(init['hcr']), hex(init['sctlr']), hex(init['hsctlr']),
            hex(init['vtcr']), {hex(a): hex(v) for a, v in table.items()})]
        lines.append('real outcome: %s' % ('descriptor' if exc is None else '%s: %s' % (type(exc).__name__, exc)))
        if ob.get('kind') == 'term':
            return isinstance(exc, TimeoutError), '\n'.join(lines)
        if isinstance(exc, NotImplementedError):
            return False, '\n'.join(lines)
        DA = registry.mods().arm_exceptions.DataAbortException
        if exc is not None and not isinstance(exc, DA):
            return True, '\n'.join(lines)
        diff = [k for k in final if final[k] != init[k] and (exc is None or k not in FAULT_REGS)]
        lines.append('state changed: %s ; memory writes: %d' % (diff, len(writes)))
        bad = bool(diff) or bool(writes)
        if exc is None and not bad:
            pa = r.paddress.physicaladdress
            bad = not (isinstance(pa, int) and 0 <= pa < (1 << 40)) or not isinstance(r.memattrs.type, MT)
            lines.append('PA %r type %r' % (pa, r.memattrs.type))
        return bad, '\n'.join(lines)

    return Unit(uid, ['C15'], symbolic, replay, {'contracts': {}, 'max_paths': 200000, 'merge_calls': {A.encode_ldfsr, A.convert_attrs_hints}, 'loop_bound': 8},
                meta={'function': '%s.ArmV6.translate_address_v' % A.__module__, 'also': ALSO_MEM})


def unit_s2_of_s1walk():
    """second_stage_translate() on its own: the stage 2 translation of a stage 1 descriptor address (s2fs1walk), with the
    protected-table-walk rule HCR.PTW.  Same safety contract as unit_safety; cheap enough for the quick tier, where the combination
    "stage 1 on + stage 2" (which reaches this function through the stage 1 walk) is not run."""
    m = registry.mods()
    A = m.arm_v6.ArmV6
    MT = m.memory_attributes.MemType
    uid = 'C15/fn:%s.ArmV6.second_stage_translate[safety]' % A.__module__
    FAULT_REGS = ('dfsr', 'dfar', 'hsr', 'hdfar', 'hpfar', 'ifsr', 'ifar')
    CFG = {'have_virt_ext': True, 'have_security_ext': True, 'have_lpae': True}

    def symbolic(eng):
        log = eng.register([])
        hub = c13.AbsHub(eng, log)
        mach = MC.SymMachine(eng, 'VMSA', 1, mem=hub, cfg_fixed=CFG)
        cpu = mach.cpu
        init = dict(mach.init)
        cfg = mach.configs
        mode0 = bits(init['cpsr'], 4, 0)
        eng.assume(lnot(ST.bad_mode(mode0, cfg['have_security_ext'], cfg['have_virt_ext'])))
        eng.assume(valid(init))
        ipa = eng.fresh_int('ipa', 40)
        mva = eng.fresh_int('mva', 32)
        iswrite = eng.fresh_bool('iswrite')
        if not eng.prefix:
            eng.cover('state satisfiable')

        def hook(model):
            return {'__reads__': [[sym.evaluate(pa, model), sym.evaluate(v, model)] for (k, pa, sz, v) in log if k == 'hubR']}
        eng.model_hook = hook
        contracts = {}
        contracts.update(registry.l1())
        contracts.update(registry.regview())
        contracts.update(registry.l2())
        eng.contracts = contracts
        ma = eng.new_obj(m.memory_attributes.MemoryAttributes, {
            'type': MT.NORMAL, 'innerattrs': eng.fresh_int('s1.innerattrs', 2), 'outerattrs': eng.fresh_int('s1.outerattrs', 2),
            'innerhints': eng.fresh_int('s1.innerhints', 2), 'outerhints': eng.fresh_int('s1.outerhints', 2),
            'innertransient': False, 'outertransient': False, 'shareable': eng.fresh_bool('s1.shareable'), 'outershareable': eng.fresh_bool('s1.outershareable')})
        fa = eng.new_obj(m.full_address.FullAddress, {'physicaladdress': ipa, 'ns': 1})
        s1desc = eng.new_obj(m.address_descriptor.AddressDescriptor, {'memattrs': ma, 'paddress': fa})
        exc = None
        r = None
        try:
            r = eng.call(A.second_stage_translate, [cpu, s1desc, mva, 8, iswrite])
        except PyRaise as e:
            exc = e.exc
        except sym.OutOfSubset as e:
            if 'unwinding bound' not in str(e):
                raise
            if getattr(e, 'pc', None) is not None:
                eng.path.pc = list(e.pc)
            eng.oblige('term', 'the stage 2 walk finishes within three levels', False, detail=str(e))
            return
        final = mach.read()
        own_frame(eng, 'second_stage_translate')
        if exc is not None and issubclass(exc.cls, NotImplementedError):
            return
        if exc is not None and not issubclass(exc.cls, m.arm_exceptions.DataAbortException):
            eng.oblige('safe.host', 'second_stage_translate raises %s' % exc.cls.__name__, False, detail=str(exc.attrs.get('args')))
            return
        mem_same = ('memory', sym.SymBool(hub.term == hub.init))
        if exc is not None:
            eng.oblige_all('frame', 'a faulting translation changes only the fault-reporting registers',
                           [(k, values_eq(v, init[k])) for k, v in final.items() if k not in FAULT_REGS] + [mem_same])
            return
        eng.oblige_all('frame', 'a successful translation changes no state', [(k, values_eq(v, init[k])) for k, v in final.items()] + [mem_same])
        ok_shape = isinstance(r, Obj) and isinstance(r.attrs.get('paddress'), Obj) and isinstance(r.attrs.get('memattrs'), Obj)
        eng.oblige('frame.own', 'the descriptor returned is the stage 1 descriptor or one built by this translation', ok_shape, detail=type(r).__name__)
        if not ok_shape:
            return
        pa = r.attrs['paddress'].attrs['physicaladdress']
        eng.oblige('inv.range', 'the physical address is a 40-bit value', land(cmp('>=', pa, 0), cmp('<', pa, 1 << 40)) if sym.is_intlike(pa) else False)

    def replay(inputs, ob):
        MC.leaves('VMSA', 1)
        cpu = MC.native_cpu('VMSA', 1, overrides=CFG, fresh=True)
        ins = dict(inputs)
        MC.install_native(cpu, ins, 'VMSA', 1)
        init = MC.read_native(cpu, 'VMSA', 1)
        table = {pa: v for pa, v in ins.get('__reads__', [])}

        class Mem:
            def __getitem__(self, key):
                return table.get(key[0].paddress.physicaladdress, 0)

            def set_bits(self, *a):
                raise NotImplementedError()
        cpu.mem = Mem()
        mm = registry.mods()
        d = mm.address_descriptor.AddressDescriptor()
        d.paddress.physicaladdress = ins.get('ipa', 0)
        d.paddress.ns = 1
        d.memattrs.type = MT.NORMAL
        for f in ('innerattrs', 'outerattrs', 'innerhints', 'outerhints'):
            setattr(d.memattrs, f, ins.get('s1.' + f, 0))
        d.memattrs.shareable, d.memattrs.outershareable = bool(ins.get('s1.shareable')), bool(ins.get('s1.outershareable'))
        import io
        import contextlib
        exc = r = None
        try:
            with contextlib.redirect_stdout(io.StringIO()):
                r = cpu.second_stage_translate(d, ins.get('mva', 0), 8, bool(ins.get('iswrite')))
        except Exception as e:      # noqa
            exc = e
        final = MC.read_native(cpu, 'VMSA', 1)
        lines = ['ipa=%s mva=%s write=%s cpsr=%s scr=%s hcr=%s vtcr=%s vttbr=%s descriptors read=%s' % (
            hex(ins.get('ipa', 0)), hex(ins.get('mva', 0)), bool(ins.get('iswrite')), hex(init['cpsr']), hex(init['scr']), hex(init['hcr']),
            hex(init['vtcr']), hex(init['vttbr']), {hex(a): hex(v) for a, v in table.items()})]
        lines.append('real outcome: %s' % ('descriptor' if exc is None else '%s: %s' % (type(exc).__name__, exc)))
        if isinstance(exc, NotImplementedError):
            return False, '\n'.join(lines)
        if exc is not None and not isinstance(exc, mm.arm_exceptions.DataAbortException):
            return True, '\n'.join(lines)
        diff = [k for k in final if final[k] != init[k] and (exc is None or k not in FAULT_REGS)]
        lines.append('state changed: %s' % diff)
        return bool(diff), '\n'.join(lines)

    return Unit(uid, ['C15'], symbolic, replay, {'contracts': {}, 'max_paths': 200000, 'merge_calls': {A.encode_ldfsr, A.convert_attrs_hints}, 'loop_bound': 8},
                meta={'function': '%s.ArmV6.second_stage_translate' % A.__module__, 'also': ALSO_MEM})


def units(tier):
    us = [unit(), unit_ld(), unit(True), unit_ld(True, True), unit_s2_of_s1walk()] + [unit_safety(w) for w in ('hyp', 'stage2,s1 off')]
    if tier == 'thorough':
        # the Long-descriptor walk with the Virtualization Extensions present (stage 2 inactive): 5 * 10^5 obligations, about 35 minutes
        us.append(unit_ld(True))
    # (translate_address_v with stage 1 on AND stage 2 active, explored as a whole, exceeds the merge budget of the engine
    # ("merge region with more than 512 outcomes": undecided) and is not registered; tools/wip/modular_stage2.patch holds the
    # modular version in progress - stage 2 walks under the contract S2WALK)
    return us
