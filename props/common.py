"""Shared unit builders."""
from pyvc.unit import Unit, values_eq, bind
from pyvc.interp import PyRaise
from pyvc import sym


def fmt(v):
    if isinstance(v, bool):
        return repr(v)
    if isinstance(v, int):
        return hex(v) if abs(v) > 9 else str(v)
    if isinstance(v, tuple):
        return '(' + ', '.join(fmt(x) for x in v) + ')'
    return repr(v)


def native_eq(a, b):
    if isinstance(a, (tuple, list)) and isinstance(b, (tuple, list)):
        return len(a) == len(b) and all(native_eq(x, y) for x, y in zip(a, b))
    return a == b


def pure_unit(prop, fn, contract, doms, case='', contracts=None, extra_inline=(), spec=None, dontcare=None,
              merge_calls=()):
    """Unit verifying the body of a pure function against its contract.

    doms: list of (argname, Dom).  spec overrides contract.spec (signature spec(*args) -> expected or
    expected; dontcare(*args) -> condition under which any result is accepted (UNPREDICTABLE inputs)."""
    qn = '%s.%s' % (fn.__module__, fn.__qualname__)
    uid = '%s/fn:%s%s' % (prop, qn, '[%s]' % case if case else '')
    the_spec = (lambda e, *a: spec(*a)) if spec else (lambda e, *a: (contract.spec(e, *a) if contract.engine else contract.spec(*a)))

    def symbolic(eng):
        args = [d.fresh(eng, n) for n, d in doms]
        pre = contract.pre(eng, args)
        eng.assume(pre)
        if not eng.prefix:
            eng.cover('%s precondition satisfiable' % qn)
        try:
            r = eng.call(fn, args)
        except PyRaise as e:
            eng.oblige('safe.host', 'body raises %s under its precondition' % e.exc.cls.__name__, False,
                       detail=str(e.exc.attrs.get('args')))
            return
        exp = the_spec(eng, *args)
        dc = dontcare(*args) if dontcare else False
        eng.oblige('post', 'result == spec', sym.lor(dc, values_eq(r, exp)))
        return r

    def replay(inputs, ob):
        args = [d.concrete(inputs, n) for n, d in doms]
        lines = ['function %s' % qn, 'args    %s' % ', '.join('%s=%s' % (n, fmt(a)) for (n, _), a in zip(doms, args))]
        try:
            real = fn(*args)
            lines.append('real    %s' % fmt(real))
        except Exception as e:           # noqa
            real = e
            lines.append('real    raises %s: %s' % (type(e).__name__, e))
        exp = the_spec(None, *args)
        dc = bool(dontcare(*args)) if dontcare else False
        lines.append('spec    %s%s' % (fmt(exp), '  (architecturally UNPREDICTABLE input)' if dc else ''))
        bad = (isinstance(real, Exception) or not native_eq(real, exp)) and not dc
        return bad, '\n'.join(lines)

    def xcheck(inputs):
        args = [d.concrete(inputs, n) for n, d in doms]
        r = fn(*args)
        return r

    opts = {'contracts': contracts if contracts is not None else {}, 'inline': {fn} | set(extra_inline),
            'merge_calls': set(merge_calls)}
    return Unit(uid, [prop], symbolic, replay, opts, meta={'function': qn, 'case': case}, xcheck=xcheck)
