"""Shared unit builders."""
from pyvc.unit import Unit, values_eq, bind
from pyvc.interp import PyRaise
from pyvc import sym


def fmt(v):
    if isinstance(v, bool):
        return repr(v)
    if isinstance(v, int):
        return hex(v) if abs(v) > 9 else str(v)
    if isinstance(v, tuple):
        return '(' + ', '.join(fmt(x) for x in v) + ')'
    return repr(v)


def native_eq(a, b):
    if isinstance(a, (tuple, list)) and isinstance(b, (tuple, list)):
        return len(a) == len(b) and all(native_eq(x, y) for x, y in zip(a, b))
    return a == b


# units of the memory path (accessors, translation, hub): the step-level claims use these functions by contract, so the
# obligations that carry those claims below the contract boundary count for them as well
ALSO_MEM = {'C18': ['safe.host', 'safe.escape', 'pre@callsite'], 'C19': ['frame', 'post.priv'], 'C20': ['frame.own']}


def own_frame(eng, what):
    """ownership (C20): the function under contract keeps no state of its own - no memo table, function attribute, module-level or
    class-level mutable object is read or written (callers are verified against a contract that is a function of the arguments
    and the instance state only)"""
    if eng.foreign_writes:
        eng.oblige('frame.own', '%s: writes no object outside its arguments / the instance' % what, False, detail='; '.join(eng.foreign_writes[:4]))
    if eng.foreign_reads:
        eng.oblige('frame.own', '%s: reads no mutable state outside its arguments / the instance' % what, False, detail='; '.join(sorted(eng.foreign_reads)[:4]))
    if not eng.foreign_writes and not eng.foreign_reads:
        eng.oblige('frame.own', '%s: touches no mutable state outside its arguments / the instance' % what, True)


def pure_unit(prop, fn, contract, doms, case='', contracts=None, extra_inline=(), spec=None, dontcare=None,
              merge_calls=()):
    """Unit verifying the body of a pure function against its contract.

    doms: list of (argname, Dom).  spec overrides contract.spec (signature spec(*args) -> expected or
    expected; dontcare(*args) -> condition under which any result is accepted (UNPREDICTABLE inputs)."""
    qn = '%s.%s' % (fn.__module__, fn.__qualname__)
    uid = '%s/fn:%s%s' % (prop, qn, '[%s]' % case if case else '')
    the_spec = (lambda e, *a: spec(*a)) if spec else (lambda e, *a: (contract.spec(e, *a) if contract.engine else contract.spec(*a)))

    def symbolic(eng):
        args = [d.fresh(eng, n) for n, d in doms]
        pre = contract.pre(eng, args)
        eng.assume(pre)
        if not eng.prefix:
            eng.cover('%s precondition satisfiable' % qn)
        # exceptional clauses of the contract: the body must raise exactly then
        exc_cond = False
        for cnd, cls in contract.raises:
            exc_cond = sym.lor(exc_cond, cnd(*args))
        try:
            r = eng.call(fn, args)
        except PyRaise as e:
            ok = sym.lor(*[sym.land(cnd(*args), issubclass(e.exc.cls, cls)) for cnd, cls in contract.raises]) if contract.raises else False
            eng.oblige('safe.host', 'body raises %s only where the contract says so' % e.exc.cls.__name__, ok,
                       detail=str(e.exc.attrs.get('args')))
            return
        own_frame(eng, qn)
        eng.oblige('raises', 'body raises where the contract says so', sym.lnot(exc_cond))
        eng.assume(sym.lnot(exc_cond))
        exp = the_spec(eng, *args)
        dc = dontcare(*args) if dontcare else False
        if dontcare and (sym.is_intlike(exp) != sym.is_intlike(r) or (exp is None) != (r is None) or
                         (isinstance(exp, (tuple, list)) and (not isinstance(r, (tuple, list)) or len(r) != len(exp)))):
            # also for don't-care (UNPREDICTABLE) inputs the body hands back the kind of value callers are verified against
            eng.oblige('safe.host', 'returns the kind of value its contract promises (also for UNPREDICTABLE inputs)', False,
                       detail='real %s, contract %s' % (type(r).__name__, type(exp).__name__))
            return r
        eng.oblige('post', 'result == spec', sym.lor(dc, values_eq(r, exp)))
        return r

    def replay(inputs, ob):
        args = [d.concrete(inputs, n) for n, d in doms]
        lines = ['function %s' % qn, 'args    %s' % ', '.join('%s=%s' % (n, fmt(a)) for (n, _), a in zip(doms, args))]
        try:
            real = fn(*args)
            lines.append('real    %s' % fmt(real))
        except Exception as e:           # noqa
            real = e
            lines.append('real    raises %s: %s' % (type(e).__name__, e))
        exp = the_spec(None, *args)
        dc = bool(dontcare(*args)) if dontcare else False
        lines.append('spec    %s%s' % (fmt(exp), '  (architecturally UNPREDICTABLE input)' if dc else ''))
        bad = (isinstance(real, Exception) or not native_eq(real, exp)) and not dc
        return bad, '\n'.join(lines)

    def xcheck(inputs):
        args = [d.concrete(inputs, n) for n, d in doms]
        r = fn(*args)
        return r

    opts = {'contracts': contracts if contracts is not None else {}, 'inline': {fn} | set(extra_inline),
            'merge_calls': set(merge_calls)}
    return Unit(uid, [prop], symbolic, replay, opts, meta={'function': qn, 'case': case}, xcheck=xcheck)


# ---------------------------------------------------------------------------------------------------------
# methods of Registers / ArmV6 against a state-transformer spec or against their own sidecar contract

def method_unit(prop, fn, doms, on='regs', spec=None, contract=None, contracts=None, case='', memarch='PMSA', nregions=1,
                assume=None, merge_calls=(), fixed=None, extra_inline=(), label=None, compare_unpred=True, mem=False,
                ignore=(), max_paths=20000, spec_args=None):
    """Verify the body of a method of Registers (on='regs') or ArmV6 (on='cpu') over an arbitrary ValidState.

    spec(st, *args) -> (result, unpredictable, raises)  st is the dict of initial leaves and is updated in place
         (raises: None or an exception class the body must raise)            -- or --
    contract: the sidecar Contract used at call sites; it is run on a second copy of the same symbolic state.
    Obligations: result, every leaf of the final state (frame included), UNPREDICTABLE flag, raised class."""
    from . import machine as MC
    from contracts import absmem as AM
    qn = '%s.%s' % (fn.__module__, fn.__qualname__)
    uid = '%s/fn:%s%s' % (prop, qn, '[%s]' % case if case else '')

    def build(eng):
        memobj = AM.AbsMem(eng) if mem else None
        mach = MC.SymMachine(eng, memarch, nregions, fixed=fixed, mem=memobj)
        return mach

    def symbolic(eng):
        a = build(eng)
        args = [d.fresh(eng, n) for n, d in doms]
        init = dict(a.init)
        if assume is not None:
            eng.assume(assume(init, *args))
        if not eng.prefix:
            eng.cover('%s: state and arguments satisfiable' % qn)
        target = a.regs if on == 'regs' else a.cpu
        raised = None
        r1 = None
        try:
            r1 = eng.call(fn, [target] + args)
        except PyRaise as e:
            raised = e.exc.cls
        u1 = eng.path.unpred
        fin = a.read()
        if a.mem is not None:
            fin['mem'] = a.mem.term
        own_frame(eng, qn)
        # ---- expected
        if spec is not None:
            st = dict(init)
            if a.mem is not None:
                st['mem'] = a.mem.init
            exp_r, u2, exp_raise = spec(st, *(spec_args(args) if spec_args else args))
        else:
            eng.path.unpred = False
            b = build(eng)
            tb = b.regs if on == 'regs' else b.cpu
            exp_raise = None
            exp_r = None
            saved = eng.inline
            eng.inline = set()
            try:
                try:
                    exp_r = contract(eng, tb, *args)
                except PyRaise as e:
                    exp_raise = e.exc.cls
            finally:
                eng.inline = saved
            u2 = eng.path.unpred
            st = b.read()
            if b.mem is not None:
                st['mem'] = b.mem.term
        lab = label or fn.__name__
        if raised is not None or exp_raise is not None:
            ok = raised is not None and exp_raise is not None and issubclass(raised, exp_raise)
            eng.oblige('raises', '%s: raises %s (spec: %s)' % (lab, getattr(raised, '__name__', None), getattr(exp_raise, '__name__', None)), ok)
            if raised is not None and not ok and issubclass(raised, HOST):
                pass
            if not ok:
                return
        dc = u2 if compare_unpred else sym.lor(u1, u2)
        if raised is None:
            # the kind of value the contract hands to callers holds on every path, UNPREDICTABLE ones included: callers are
            # verified against the contract and would otherwise meet a host-level error the contract hides
            if sym.is_intlike(exp_r) != sym.is_intlike(r1) or (exp_r is None) != (r1 is None):
                eng.oblige('safe.host', '%s: returns the kind of value its contract promises (also where UNPREDICTABLE)' % lab, False,
                           detail='real %s, contract %s' % (type(r1).__name__, type(exp_r).__name__))
                return
            eng.oblige('post', '%s: result == spec' % lab, sym.lor(dc, values_eq(r1, exp_r)))
        odd = [k for k, v in fin.items() if k != 'mem' and init.get(k) is not None and
               (sym.is_intlike(init[k]) or isinstance(init[k], (bool, sym.SymBool))) and not (sym.is_intlike(v) or isinstance(v, (bool, sym.SymBool)))]
        if odd:
            eng.oblige('safe.host', '%s: every state leaf keeps its kind (integer / truth value), also where UNPREDICTABLE' % lab, False,
                       detail='leaves holding another kind of value: %s' % odd[:6])
            return
        # what callers rely on even where the contract says UNPREDICTABLE (their safety obligations have no such waiver):
        # the result stays in the range the contract promises and nothing outside the contract's own footprint is written
        if raised is None and isinstance(exp_r, (int, sym.SymInt)) and not isinstance(exp_r, bool) and isinstance(r1, (int, sym.SymInt)) and not isinstance(r1, bool):
            elo, ehi = (exp_r, exp_r) if isinstance(exp_r, int) else (exp_r.lo, exp_r.hi)
            if 0 <= elo and ehi <= 0xFFFFFFFF:
                eng.oblige('safe.range', '%s: result within 0..2^32-1 on every path (also where UNPREDICTABLE)' % lab,
                           sym.land(r1 >= 0, r1 <= 0xFFFFFFFF))
        outside = [(k, values_eq(v, init[k])) for k, v in fin.items()
                   if k not in ignore and k != 'mem' and k in init and st.get(k) is init[k] and not k.startswith('chg[')]
        if outside and spec is None:
            eng.oblige_all('frame.unpred', '%s: leaves outside the contract\'s footprint are untouched on every path (also where UNPREDICTABLE)' % lab, outside)
        named = []
        for k, v in fin.items():
            if k in ignore:
                continue
            e = st.get(k)
            if k == 'mem':
                named.append((k, sym.lor(dc, sym.SymBool(v == e))))
            elif e is UNKNOWN:
                continue
            else:
                named.append((k, sym.lor(dc, values_eq(v, e))))
        eng.oblige_all('post', '%s: final state == spec (all leaves; frame)' % lab, named)
        if compare_unpred:
            eng.oblige('contract.unpred' if spec is None else 'post', '%s: UNPREDICTABLE flagged exactly when the spec says' % lab, sym.eq(sym.truth(u1), sym.truth(u2)))
        eng.oblige('frame', '%s: object graph shape unchanged' % lab, a.shape_ok())
        return None

    def replay(inputs, ob):
        from . import machine as MC2
        from contracts import registry
        cpu = MC2.native_cpu(memarch, nregions, fresh=True)
        ins = dict(inputs)
        if fixed:
            for k, f in fixed.items():
                if not callable(f):
                    ins[k] = f
                else:
                    # a leaf derived from fresh inputs (e.g. CPSR with the T bit of the unit's instruction set): the same
                    # derivation on the concrete model values
                    try:
                        v = f(NativeEng(ins), None)
                        if isinstance(v, (int, bool)):
                            ins[k] = v
                    except Exception:       # noqa
                        pass
        MC2.install_native(cpu, ins, memarch, nregions)
        if fixed and getattr(method_unit, '_fix_native', None):
            pass
        init = MC2.read_native(cpu, memarch, nregions)
        for k, v in ins.items():
            if k.startswith('cfg.'):
                init[k] = (v + 4 if k == 'cfg.arch_version' else v)
        for k in MC2.CFG_BOOL:
            init.setdefault('cfg.' + k, registry.mods().configurations.configurations.configs.get(k))
        for k in MC2.CFG_INT:
            init.setdefault('cfg.' + k, registry.mods().configurations.configurations.configs.get(k))
        args = [d.concrete(ins, n) for n, d in doms]
        target = cpu.registers if on == 'regs' else cpu
        lines = ['%s(%s)  mode=%s cpsr=%s' % (qn, ', '.join(fmt(a) for a in args), hex(init['cpsr'] & 0x1F), hex(init['cpsr']))]
        lines.append('config: %s' % {k[4:]: v for k, v in init.items() if k.startswith('cfg.') and v})
        import io
        import contextlib
        buf = io.StringIO()
        raised = None
        r1 = None
        pre_bad, undo = [], []
        if ob.get('kind') == 'pre@callsite':
            from . import step_replay
            pre_bad, undo = step_replay.watch_precondition(ob['label'])
        try:
            try:
                with contextlib.redirect_stdout(buf):
                    r1 = fn(target, *args)
            except Exception as e:      # noqa
                raised = e
        finally:
            for o_, k_, v_ in undo:
                setattr(o_, k_, v_)
        if ob.get('kind') == 'pre@callsite':
            lines.append('call-site arguments violating the precondition of %s: %s' % (ob['label'], pre_bad[:3]))
            return bool(pre_bad), '\n'.join(lines)
        u1 = 'unpredictable' in buf.getvalue()
        fin = MC2.read_native(cpu, memarch, nregions)
        if spec is None:
            # run the sidecar contract natively on a concrete mirror of the same state
            neng = NativeEng(ins)
            b = MC2.SymMachine(neng, memarch, nregions, fixed=fixed)
            tb = b.regs if on == 'regs' else b.cpu
            exp_raise = None
            exp_r = None
            try:
                exp_r = contract(neng, tb, *args)
            except NativeRaise as e:
                exp_raise = e.cls
            u2 = bool(neng.path.unpred)
            st = b.read()
        else:
            st = dict(init)
            exp_r, u2, exp_raise = spec(st, *(spec_args(args) if spec_args else args))
        lines.append('real: result %s%s unpredictable=%s' % (fmt(r1), ' raised %r' % raised if raised else '', u1))
        lines.append('spec: result %s%s unpredictable=%s' % (fmt(exp_r), ' raises %s' % exp_raise.__name__ if exp_raise else '', bool(u2)))
        bad = False
        if ob.get('kind') == 'safe.host' and raised is None:
            bad = isinstance(r1, int) != isinstance(exp_r, int) or (r1 is None) != (exp_r is None)
            lines.append('result kind: real %s, contract %s' % (type(r1).__name__, type(exp_r).__name__))
            return bad, '\n'.join(lines)
        if (raised is not None) != (exp_raise is not None):
            bad = True
        elif raised is None and not u2:
            if not native_eq(r1, exp_r):
                bad = True
        diffs = {}
        if not u2 and not exp_raise:
            for k, v in fin.items():
                if k in ignore or st.get(k) is UNKNOWN:
                    continue
                if v != st.get(k):
                    diffs[k] = (fmt(v), fmt(st.get(k)))
            if diffs:
                bad = True
        if compare_unpred and bool(u1) != bool(u2) and raised is None:
            bad = True
        lines.append('leaf differences (real, spec): %s' % diffs)
        return bad, '\n'.join(lines)

    opts = {'contracts': contracts if contracts is not None else {}, 'inline': {fn} | set(extra_inline),
            'merge_calls': set(merge_calls), 'max_paths': max_paths}
    return Unit(uid, [prop], symbolic, replay, opts, meta={'function': qn, 'case': case})


class NativeRaise(Exception):
    def __init__(self, cls):
        Exception.__init__(self, cls.__name__)
        self.cls = cls


class _NPath:
    def __init__(self):
        self.unpred = False
        self.pc = []


class NativeEng:
    """Just enough of the engine interface to run sidecar contracts on concrete values (replays)."""

    def __init__(self, inputs):
        self.inputs = inputs
        self.path = _NPath()
        self.subst = {}
        self.cfg = {}
        self.prefix = []
        self.inline = set()

    def fresh_int(self, name, bits, hi=None):
        return int(self.inputs.get(name, 0))

    def fresh_bool(self, name):
        return bool(self.inputs.get(name, False))

    def register(self, o):
        return o

    def new_obj(self, cls, attrs=None, tag=None):
        from pyvc.interp import Obj
        return Obj(cls, attrs, tag)

    def host_check(self, ok, cls, msg):
        if not ok:
            raise NativeRaise(cls)

    def istrue(self, x):
        return bool(x)

    def wrote(self):
        pass

    def assume(self, c):
        pass

    def oblige(self, *a, **k):
        return None

    def mark_unpred(self):
        self.path.unpred = True


class _Unknown:
    def __repr__(self):
        return 'UNKNOWN'


UNKNOWN = _Unknown()
HOST = (AttributeError, TypeError, IndexError, KeyError, AssertionError, UnboundLocalError, NameError, ValueError,
        ZeroDivisionError)
