"""C08 — IT blocks.
(a) it_advance / in_it_block / last_in_it_block against ITAdvance()/InITBlock()/LastInITBlock() for all 256 states;
(b) spec-level lemma (decided exhaustively by the solver over the 8-bit state): after IT firstcond,mask the next k
    instructions see firstcond or its inverse as the mask prescribes, LastInITBlock holds exactly at the k-th, and
    the state is empty afterwards;
(c) the step units (props/step.py) prove that ITSTATE advances exactly once per instruction that does not take an
    exception (safe.noop clause for failed conditions; functional specs for executed ones) and C11 that exception
    entry saves CPSR (with IT) in the SPSR and clears IT.
"""
from contracts import registry
from pyvc.unit import Unit, U
from pyvc import sym
from pyvc.sym import land, lor, lnot, ite, implies
from spec import psr as PSR
from spec import state as ST
from spec.rt import bits, bit
from .c11 import valid
from .common import method_unit

ASSUMPTIONS = ['multi-instruction statement follows by induction over steps from the one-step facts proved here '
               '(meta-argument, premises machine-checked)']


def lemma_unit():
    def symbolic(eng):
        fc = eng.fresh_int('firstcond', 4)
        mask = eng.fresh_int('mask', 4)
        eng.assume(land(fc != 0b1111, mask != 0))
        # AL forms: only "all then" masks are predictable
        eng.assume(implies(fc == 0b1110, lor(mask == 0b1000, mask == 0b0100, mask == 0b0010, mask == 0b0001)))
        eng.cover('legal (firstcond, mask) exists')
        ctz = ite(bit(mask, 0) == 1, 0, ite(bit(mask, 1) == 1, 1, ite(bit(mask, 2) == 1, 2, 3)))
        k = 4 - ctz
        s = (fc << 4) | mask
        conds = []
        for j in range(1, 6):
            active = j <= k
            in_block = bits(s, 3, 0) != 0
            eng.oblige('lemma', 'IT: instruction %d is in the block iff %d <= k' % (j, j), sym.eq(sym.truth(in_block), sym.truth(active)))
            if j == 1:
                exp_low = bit(fc, 0)
            else:
                exp_low = bit(mask, 5 - j) if 5 - j >= 0 else 0
            eng.oblige('lemma', 'IT: condition seen by instruction %d is firstcond<3:1>:then/else bit' % j,
                       implies(active, land(bits(s, 7, 5) == bits(fc, 3, 1), bit(s, 4) == exp_low)))
            eng.oblige('lemma', 'IT: LastInITBlock exactly at the last instruction (%d)' % j,
                       implies(active, sym.eq(sym.truth(bits(s, 3, 0) == 0b1000), sym.truth(k == j))))
            eng.oblige('lemma', 'IT: state is empty after the block (%d)' % j, implies(lnot(active), s == 0))
            s = PSR.it_advance(s)
        return None
    return Unit('C08/lemma:it-sequencing', ['C08'], symbolic, lambda i, o: (True, 'spec-level lemma; inputs %r' % i), {'contracts': {}})


def units(tier):
    m = registry.mods()
    A = m.arm_v6.ArmV6
    Rg = m.registers.Registers
    base = {}
    base.update(registry.l1())
    base.update(registry.regview())
    base.update(registry.l2())
    out = [lemma_unit()]

    def adv(st):
        st['cpsr'] = ST.cpsr_with(st['cpsr'], it=PSR.it_advance(ST.cpsr_field(st['cpsr'], 'it')))
        return None, False, None
    out.append(method_unit('C08', Rg.it_advance, [], on='regs', spec=adv, contracts=base))
    out.append(method_unit('C08', A.in_it_block, [], on='cpu',
                           spec=lambda st: (bits(ST.cpsr_field(st['cpsr'], 'it'), 3, 0) != 0, False, None), contracts=base))
    out.append(method_unit('C08', A.last_in_it_block, [], on='cpu',
                           spec=lambda st: (bits(ST.cpsr_field(st['cpsr'], 'it'), 3, 0) == 0b1000, False, None), contracts=base))
    return out
