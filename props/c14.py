"""C14 — PMSA protection.  translate_address_p (with check_permission, data_abort, encode_pmsafsr,
default_tex_decode, default_memory_attributes inlined from the real source) against the B5 pseudocode for an
arbitrary MPU programming: every DRSR/DRBAR/DRACR value of the N regions, MPUIR.DRegion <= N, SCTLR.{M,BR,AFE,C,V},
any address, direction and privilege.  N is the configured number of regions (a configuration constant; quick
N = 12 as shipped, thorough also 0..16)."""
from contracts import registry
from pyvc.unit import Unit, U, Flag, values_eq
from pyvc.interp import PyRaise, Obj
from pyvc import sym
from pyvc.sym import land, lor, lnot, ite, implies
from spec import pmsa as PM
from spec import state as ST
from spec.rt import bits, bit
from . import machine as MC
from .common import method_unit, own_frame, ALSO_MEM

ASSUMPTIONS = ['region loop: initial accumulators, one inductive step for an arbitrary region and arbitrary accumulators, and the '
               'code after the loop for an arbitrary scan result are proved; equality for every N follows by induction on the range '
               '(meta-argument); unrolled N=0..2 (3 thorough) instances cross-check it',
               'the fault-path clause "no data transferred, no base write-back" of load/store instructions is part of the '
               'step-level obligations of C02/C03 (not built yet for abort paths)']


def _need(env, *names):
    """the region-scan contract names the loop-carried accumulators of translate_address_p; a refactoring that renames them is
    outside the contract's reach (undecided), not a violation"""
    missing = [n for n in names if n not in env]
    if missing:
        raise sym.OutOfSubset('region loop of translate_address_p has no local(s) %s named by the loop contract' % missing)


def spec_translate(st, va, ispriv, iswrite, wasaligned, n, acc=None, scan_unpred=False):
    """-> dict(outcome ('ok'|'BACKGROUND'|'PERMISSION' as conditions), attrs, perms, unpred)
    acc: result of the region scan (given: the tail is specified for an arbitrary scan result)"""
    sctlr = st['sctlr']
    m_on = bit(sctlr, 0) == 1
    br = bit(sctlr, 17) == 1
    afe = bit(sctlr, 29) == 1
    c = bit(sctlr, 2)
    v = bit(sctlr, 13)
    drsr = [st['drsrs[%d]' % i] for i in range(n)]
    drbar = [st['drbars[%d]' % i] for i in range(n)]
    dracr = [st['dracrs[%d]' % i] for i in range(n)]
    dregion = bits(st['mpuir'], 15, 8)
    if acc is None:
        found, texcb, s, ap, xn, unp = PM.region_scan(va, drsr, drbar, dracr, dregion)
    else:
        found, texcb, s, ap, xn, unp = acc['found'], acc['texcb'], acc['s'], acc['ap'], acc['xn'], scan_unpred
    tex, impdef, unp_tex = PM.default_tex_decode(texcb, s)
    dflt = PM.default_memory_attributes(va, c)
    background = land(m_on, lnot(found), lor(lnot(br), lnot(ispriv)))
    use_default = lor(lnot(m_on), land(lnot(found), lnot(background)))
    ap_eff = ite(found, ap, 3)
    xn_eff = ite(found, xn, ite(bits(va, 31, 28) == 15, 1 - v, bit(va, 31)))
    mtype = ite(use_default, dflt['type'], tex['type'])
    perm_abort, unp_perm = PM.check_permission_abort(ap_eff, ispriv, iswrite, afe, False)
    permission = land(m_on, lnot(background), perm_abort)
    unpred = land(m_on, lor(unp, land(found, unp_tex), land(lnot(background), lor(unp_perm, land(lnot(wasaligned), mtype != PM.NORMAL)))))
    return dict(background=background, permission=permission, use_default=use_default, found=found, tex=tex, dflt=dflt,
                impdef=land(found, impdef), unpred=unpred, mtype=mtype)


def translate_unit(n, mode='unrolled'):
    """mode 'unrolled': the region loop is unrolled n times; 'tail': the loop is cut - the code after it is verified for an
    arbitrary scan result (fresh accumulators); see loop_units for the head and the inductive step"""
    m = registry.mods()
    A = m.arm_v6.ArmV6
    D = m.enums.DAbort
    MT = m.memory_attributes.MemType
    tcode = {MT.NORMAL: PM.NORMAL, MT.DEVICE: PM.DEVICE, MT.STRONGLY_ORDERED: PM.STRONGLY_ORDERED}
    uid = 'C14/fn:%s.ArmV6.translate_address_p[%s]' % (A.__module__, 'regions=%d' % n if mode == 'unrolled' else 'after-loop,any-N')

    def symbolic(eng):
        mach = MC.SymMachine(eng, 'PMSA', n)
        cpu = mach.cpu
        init = dict(mach.init)
        cfg = mach.configs
        eng.assume(bits(init['mpuir'], 15, 8) <= n)
        va = eng.fresh_int('va', 32)
        ispriv = eng.fresh_bool('ispriv')
        iswrite = eng.fresh_bool('iswrite')
        wasaligned = eng.fresh_bool('wasaligned')
        if not eng.prefix:
            eng.cover('MPU state satisfiable')
        contracts = {}
        contracts.update(registry.l1())
        contracts.update(registry.regview())
        contracts.update(registry.l2())
        eng.contracts = contracts
        acc = None
        if mode == 'tail':
            acc = {}

            def hook(e, stmt, env, g):
                _need(env, 'region_found', 'texcb', 's', 'perms')
                acc['found'] = e.fresh_bool('scan.region_found')
                acc['texcb'] = e.fresh_int('scan.texcb', 5)
                acc['s'] = e.fresh_int('scan.s', 1)
                acc['ap'] = e.fresh_int('scan.ap', 3)
                acc['xn'] = e.fresh_int('scan.xn', 1)
                env['region_found'] = acc['found']
                env['texcb'] = acc['texcb']
                env['s'] = acc['s']
                perms = env['perms']
                perms.attrs['ap'] = acc['ap']
                perms.attrs['xn'] = acc['xn']
                e.wrote()
                return True
            eng.loop_hooks = {(A.translate_address_p, 0): hook}
        exc = None
        r = None
        try:
            r = eng.call(A.translate_address_p, [cpu, va, ispriv, iswrite, wasaligned])
        except PyRaise as e:
            exc = e.exc
        final = mach.read()
        own_frame(eng, 'translate_address_p')
        sp = spec_translate(init, va, ispriv, iswrite, wasaligned, n, acc=acc if (acc and 'found' in acc) else None)
        dc = sp['unpred']
        if exc is not None and not issubclass(exc.cls, m.arm_exceptions.DataAbortException):
            eng.oblige('safe.host', 'translate_address_p raises %s' % exc.cls.__name__, False, detail=str(exc.attrs.get('args')))
            return
        if exc is not None:
            dtype = exc.attrs.get('abort_type')
            want = {D.BACKGROUND: sp['background'], D.PERMISSION: sp['permission']}.get(dtype, False)
            eng.oblige('post', 'abort kind %s exactly when the region/AP rules deny the access' % getattr(dtype, 'name', dtype), lor(dc, want))
            fs = PM.FS_PMSA.get(getattr(dtype, 'name', ''), 0)
            exp = dict(init)
            exp['dfar'] = va
            exp['dfsr'] = PM.pmsa_dfsr(init['dfsr'], fs, iswrite)
            eng.oblige_all('post', 'DFSR.FS/WnR and DFAR identify the fault; nothing else changes',
                           [(k, lor(dc, values_eq(v, exp[k]))) for k, v in final.items()])
            return
        eng.oblige('post', 'access allowed only when the region/AP/background rules permit it',
                   lor(dc, land(lnot(sp['background']), lnot(sp['permission']))))
        eng.oblige_all('frame', 'successful translation changes no state', [(k, values_eq(v, init[k])) for k, v in final.items()])
        pa = r.attrs['paddress'].attrs['physicaladdress']
        eng.oblige('post', 'flat mapping: physical address == virtual address', values_eq(pa, va))
        ma = r.attrs['memattrs']
        ty = ma.attrs['type']
        eng.oblige('post', 'memory type of the matched region / default map', lor(dc, sp['impdef'], sp['mtype'] == tcode[ty]))
        use_d = sp['use_default']
        tex, dflt = sp['tex'], sp['dflt']
        named = [('shareable', lor(dc, sp['impdef'], sym.eq(sym.truth(ma.attrs['shareable']), sym.truth(ite(use_d, dflt['shareable'], tex['shareable']))))),
                 ('outershareable', lor(dc, sp['impdef'], sym.eq(sym.truth(ma.attrs['outershareable']), sym.truth(ite(use_d, dflt['outershareable'], tex['shareable']))))),
                 ('innerattrs', lor(dc, sp['impdef'], land(lnot(use_d), lnot(tex['attrs_known'])), values_eq(ma.attrs['innerattrs'], ite(use_d, dflt['innerattrs'], tex['innerattrs'])))),
                 ('outerattrs', lor(dc, sp['impdef'], land(lnot(use_d), lnot(tex['attrs_known'])), values_eq(ma.attrs['outerattrs'], ite(use_d, dflt['outerattrs'], tex['outerattrs'])))),
                 ('innerhints', lor(dc, sp['impdef'], use_d, lnot(tex['attrs_known']), values_eq(ma.attrs['innerhints'], tex['innerhints']))),
                 ('outerhints', lor(dc, sp['impdef'], use_d, lnot(tex['attrs_known']), values_eq(ma.attrs['outerhints'], tex['outerhints'])))]
        eng.oblige_all('post', 'memory attributes of the matched region / default map', named)

    def replay(inputs, ob):
        cpu = MC.native_cpu('PMSA', n, fresh=True)
        if mode == 'tail':
            # realise the arbitrary scan result by a single region covering the whole address space (or none)
            inputs = dict(inputs)
            for i in range(n):
                inputs['drsrs[%d]' % i] = 0
            if inputs.get('scan.region_found'):
                inputs['mpuir'] = (inputs.get('mpuir', 0) & ~0xFF00) | (1 << 8)
                inputs['drsrs[0]'] = (31 << 1) | 1
                inputs['drbars[0]'] = 0
                t = inputs.get('scan.texcb', 0)
                inputs['dracrs[0]'] = ((t >> 2) << 3) | (((t >> 1) & 1) << 1) | (t & 1) | (inputs.get('scan.s', 0) << 2) | \
                    (inputs.get('scan.ap', 0) << 8) | (inputs.get('scan.xn', 0) << 12)
        MC.install_native(cpu, inputs, 'PMSA', n)
        init = MC.read_native(cpu, 'PMSA', n)
        va, ispriv, iswrite, wasal = inputs.get('va', 0), bool(inputs.get('ispriv')), bool(inputs.get('iswrite')), bool(inputs.get('wasaligned'))
        import io
        import contextlib
        buf = io.StringIO()
        exc = None
        r = None
        try:
            with contextlib.redirect_stdout(buf):
                r = cpu.translate_address_p(va, ispriv, iswrite, wasal)
        except Exception as e:    # noqa
            exc = e
        final = MC.read_native(cpu, 'PMSA', n)
        sp = spec_translate(init, va, ispriv, iswrite, wasal, n)
        regions = [(i, hex(init['drsrs[%d]' % i]), hex(init['drbars[%d]' % i]), hex(init['dracrs[%d]' % i])) for i in range(n)
                   if init['drsrs[%d]' % i] & 1 and i < ((init['mpuir'] >> 8) & 0xFF)]
        lines = ['va=%s priv=%s write=%s aligned=%s sctlr=%s dregion=%d enabled regions (i, DRSR, DRBAR, DRACR)=%s' % (
            hex(va), ispriv, iswrite, wasal, hex(init['sctlr']), (init['mpuir'] >> 8) & 0xFF, regions)]
        want = 'BACKGROUND' if sp['background'] else 'PERMISSION' if sp['permission'] else 'ok'
        got = 'ok' if exc is None else getattr(getattr(exc, 'abort_type', None), 'name', type(exc).__name__)
        lines.append('real outcome %s ; architectural outcome %s%s' % (got, want, ' (UNPREDICTABLE input)' if sp['unpred'] else ''))
        bad = False
        if exc is not None and not isinstance(exc, m.arm_exceptions.ArmulatorException):
            # a host-level error is never an architectural outcome, UNPREDICTABLE region programming included (C18)
            lines.append('host-level error: %s: %s' % (type(exc).__name__, exc))
            return True, '\n'.join(lines)
        if sp['unpred']:
            return False, '\n'.join(lines)
        if got != want:
            bad = True
        elif exc is not None:
            fs = PM.FS_PMSA.get(got, 0)
            exp = dict(init)
            exp['dfar'] = va
            exp['dfsr'] = PM.pmsa_dfsr(init['dfsr'], fs, iswrite)
            diff = {k: (hex(final[k]), hex(exp[k])) for k in final if final[k] != exp[k]}
            lines.append('fault registers (real, spec): %s' % diff)
            bad = bool(diff)
        else:
            ma = r.memattrs
            use_d = sp['use_default']
            t = sp['dflt']['type'] if use_d else sp['tex']['type']
            sh = sp['dflt']['shareable'] if use_d else sp['tex']['shareable']
            lines.append('real type %s shareable %s ; spec type %s shareable %s' % (ma.type.name, ma.shareable, PM.MEMTYPE_NAMES[t], bool(sh)))
            if not sp['impdef']:
                bad = ma.type.name != PM.MEMTYPE_NAMES[t] or bool(ma.shareable) != bool(sh) or r.paddress.physicaladdress != va
                if not bad and (use_d or sp['tex']['attrs_known']):
                    ia = sp['dflt']['innerattrs'] if use_d else sp['tex']['innerattrs']
                    oa = sp['dflt']['outerattrs'] if use_d else sp['tex']['outerattrs']
                    lines.append('real inner/outer attrs %s/%s spec %s/%s' % (ma.innerattrs, ma.outerattrs, ia, oa))
                    bad = ma.innerattrs != ia or ma.outerattrs != oa
        return bad, '\n'.join(lines)

    return Unit(uid, ['C14'], symbolic, replay, {'contracts': {}, 'max_paths': 50000, 'merge_calls': merge_set()},
                meta={'function': '%s.ArmV6.translate_address_p' % A.__module__, 'also': ALSO_MEM})


def loop_units(n):
    """head: the accumulators at loop entry; step: one iteration for an arbitrary region index and arbitrary
    accumulators equals the spec's region_step.  Code loop and spec scan are then folds of equal steps from equal
    initial values over the same index range, hence equal for every number of regions (induction on the range)."""
    m = registry.mods()
    A = m.arm_v6.ArmV6
    from pyvc.interp import CutPoint
    out = []

    def common(eng):
        mach = MC.SymMachine(eng, 'PMSA', n)
        init = dict(mach.init)
        eng.assume(bits(init['mpuir'], 15, 8) <= n)
        # SCTLR.M = 1: the loop is reached
        eng.assume(bit(init['sctlr'], 0) == 1)
        contracts = {}
        contracts.update(registry.l1())
        contracts.update(registry.regview())
        contracts.update(registry.l2())
        eng.contracts = contracts
        return mach, init

    def head(eng):
        mach, init = common(eng)
        va = eng.fresh_int('va', 32)

        def hook(e, stmt, env, g):
            _need(env, 'region_found', 'texcb', 's', 'perms')
            raise CutPoint(dict(found=env['region_found'], texcb=env['texcb'], s=env['s'], ap=env['perms'].attrs['ap'], xn=env['perms'].attrs['xn'],
                                bound=e.ev(stmt.iter.args[0], env, g)), e)
        eng.loop_hooks = {(A.translate_address_p, 0): hook}
        try:
            eng.call(A.translate_address_p, [mach.cpu, va, eng.fresh_bool('ispriv'), eng.fresh_bool('iswrite'), eng.fresh_bool('wasaligned')])
        except CutPoint as c:
            c.reinstate(eng)
            p = c.payload
            eng.oblige_all('inv.init', 'region scan starts from (no region found, texcb 0, S 0, AP 000, XN 0)',
                           [('found', sym.lnot(p['found'])), ('texcb', values_eq(p['texcb'], 0)), ('s', values_eq(sym.lift(p['s']) if sym.is_sym(p['s']) else int(p['s']), 0)),
                            ('ap', values_eq(p['ap'], 0)), ('xn', values_eq(p['xn'], 0))])
            eng.oblige('inv.init', 'the scan covers regions 0 .. MPUIR.DRegion-1', values_eq(p['bound'], bits(init['mpuir'], 15, 8)))
            eng.oblige('inv.init', 'nothing is UNPREDICTABLE before the scan', sym.lnot(eng.path.unpred))
            eng.oblige_all('frame', 'no state change before the scan', [(k, values_eq(v, init[k])) for k, v in mach.read().items()])
            return
        eng.oblige('inv.init', 'the region loop is reached when SCTLR.M == 1', False)

    def step(eng):
        mach, init = common(eng)
        va = eng.fresh_int('va', 32)
        acc = {}

        def hook(e, stmt, env, g):
            _need(env, 'region_found', 'texcb', 's', 'perms')
            acc['found'] = e.fresh_bool('scan.region_found')
            acc['texcb'] = e.fresh_int('scan.texcb', 5)
            acc['s'] = e.fresh_int('scan.s', 1)
            acc['ap'] = e.fresh_int('scan.ap', 3)
            acc['xn'] = e.fresh_int('scan.xn', 1)
            env['region_found'], env['texcb'], env['s'] = acc['found'], acc['texcb'], acc['s']
            env['perms'].attrs['ap'], env['perms'].attrs['xn'] = acc['ap'], acc['xn']
            r = e.fresh_int('r', 5, max(n - 1, 0))
            e.assume(r < bits(init['mpuir'], 15, 8))
            acc['r'] = r
            e.assign(stmt.target, r, env, g)
            e.path.unpred = False
            e.block(stmt.body, env, g)
            raise CutPoint(dict(found=env['region_found'], texcb=env['texcb'], s=env['s'], ap=env['perms'].attrs['ap'], xn=env['perms'].attrs['xn']), e)
        eng.loop_hooks = {(A.translate_address_p, 0): hook}
        if n == 0:
            return
        try:
            eng.call(A.translate_address_p, [mach.cpu, va, eng.fresh_bool('ispriv'), eng.fresh_bool('iswrite'), eng.fresh_bool('wasaligned')])
        except CutPoint as c:
            c.reinstate(eng)
            p = c.payload
            r = acc['r']
            drsr = sym.sel([init['drsrs[%d]' % i] for i in range(n)], r)
            drbar = sym.sel([init['drbars[%d]' % i] for i in range(n)], r)
            dracr = sym.sel([init['dracrs[%d]' % i] for i in range(n)], r)
            exp, unp = PM.region_step(acc, va, drsr, drbar, dracr)
            dc = unp
            eng.oblige_all('inv.step', 'one iteration of the region loop == one step of the architectural scan (last hit wins)',
                           [('found', sym.lor(dc, sym.eq(sym.truth(p['found']), sym.truth(exp['found'])))), ('texcb', sym.lor(dc, values_eq(p['texcb'], exp['texcb']))),
                            ('s', sym.lor(dc, values_eq(p['s'], exp['s']))), ('ap', sym.lor(dc, values_eq(p['ap'], exp['ap']))), ('xn', sym.lor(dc, values_eq(p['xn'], exp['xn'])))])
            eng.oblige('inv.step', 'UNPREDICTABLE region programming is flagged exactly as the architecture says',
                       sym.eq(sym.truth(eng.path.unpred), sym.truth(unp)))
            eng.oblige_all('frame', 'an iteration changes no register', [(k, values_eq(v, init[k])) for k, v in mach.read().items()])
            return
        eng.oblige('inv.step', 'loop reached', False)

    def nreplay(inputs, ob):
        return False, 'inductive-step obligation of the region loop; replay through the unrolled unit (regions=2)'
    out.append(Unit('C14/loop:translate_address_p/head', ['C14'], head, nreplay, {'contracts': {}}, meta={'function': '%s.ArmV6.translate_address_p' % A.__module__, 'inductive': True, 'also': ALSO_MEM}))
    out.append(Unit('C14/loop:translate_address_p/step', ['C14'], step, nreplay, {'contracts': {}}, meta={'function': '%s.ArmV6.translate_address_p' % A.__module__, 'inductive': True, 'also': ALSO_MEM}))
    return out


def merge_set():
    m = registry.mods()
    A = m.arm_v6.ArmV6
    return {A.encode_pmsafsr, A.convert_attrs_hints}


def alignment_unit():
    """alignment_fault (PMSA): DFSR.FS = 00001, WnR = direction, DFAR = address, Data Abort raised, nothing else changes"""
    m = registry.mods()
    A = m.arm_v6.ArmV6
    uid = 'C14/fn:%s.ArmV6.alignment_fault[pmsa]' % A.__module__

    def symbolic(eng):
        mach = MC.SymMachine(eng, 'PMSA', 1)
        init = dict(mach.init)
        address = eng.fresh_int('address', 32)
        iswrite = eng.fresh_bool('iswrite')
        if not eng.prefix:
            eng.cover('state satisfiable')
        contracts = {}
        contracts.update(registry.l1())
        contracts.update(registry.regview())
        contracts.update(registry.l2())
        eng.contracts = contracts
        exc = None
        try:
            eng.call(A.alignment_fault, [mach.cpu, address, iswrite])
        except PyRaise as e:
            exc = e.exc
        ok = exc is not None and issubclass(exc.cls, m.arm_exceptions.DataAbortException)
        own_frame(eng, 'alignment_fault')
        eng.oblige('post', 'alignment_fault raises the Data Abort', ok)
        if not ok:
            return
        eng.oblige('post', 'the abort is an alignment fault', exc.attrs.get('abort_type') is m.enums.DAbort.ALIGNMENT)
        exp = dict(init)
        exp['dfar'] = address
        exp['dfsr'] = PM.pmsa_dfsr(init['dfsr'], PM.FS_PMSA['ALIGNMENT'], iswrite)
        eng.oblige_all('post', 'DFSR.FS = 00001, DFSR.WnR = direction of the access, DFAR = address; nothing else changes',
                       [(k, values_eq(v, exp[k])) for k, v in mach.read().items()])

    def replay(inputs, ob):
        cpu = MC.native_cpu('PMSA', 1, fresh=True)
        MC.install_native(cpu, dict(inputs), 'PMSA', 1)
        init = MC.read_native(cpu, 'PMSA', 1)
        a, w = inputs.get('address', 0), bool(inputs.get('iswrite'))
        got = None
        try:
            cpu.alignment_fault(a, w)
        except Exception as e:      # noqa
            got = e
        fin = MC.read_native(cpu, 'PMSA', 1)
        exp_dfsr = PM.pmsa_dfsr(init['dfsr'], PM.FS_PMSA['ALIGNMENT'], w)
        text = 'alignment_fault(%s, write=%s): raised %s, DFSR %s (architecture %s), DFAR %s' % (hex(a), w, type(got).__name__, hex(fin['dfsr']), hex(exp_dfsr), hex(fin['dfar']))
        return (type(got).__name__ != 'DataAbortException' or fin['dfsr'] != exp_dfsr or fin['dfar'] != a), text
    return Unit(uid, ['C14'], symbolic, replay, {'contracts': {}, 'merge_calls': merge_set()}, meta={'function': '%s.ArmV6.alignment_fault' % A.__module__, 'also': ALSO_MEM})


def units(tier):
    # unbounded in the number of regions: head + inductive step + the code after the loop for an arbitrary scan result;
    # the small unrolled instances cross-check the cut-point machinery and give replayable counterexamples
    out = loop_units(12) + [translate_unit(12, 'tail'), alignment_unit()]
    for n in ([0, 1, 2, 3] if tier == 'thorough' else [0, 1, 2]):
        out.append(translate_unit(n))
    return out
