#!/usr/bin/env python3
"""(maintenance, not a property check) cross-validate /verif/spec encoding rows against the LLVM disassembler:
for every row sample words that the row claims as valid, disassemble them with llvm-objdump and compare the mnemonic with
the one expected for the row's class.  Prints the disagreements for manual review."""
import os
import random
import re
import subprocess
import sys
import tempfile

HERE = os.path.dirname(os.path.dirname(os.path.abspath(__file__)))
sys.path.insert(0, HERE)
sys.path.insert(0, os.environ.get('VERIF_REPO', '/repo'))
from spec import encodings as ENC      # noqa
from spec.cpu import Cpu               # noqa

SPECIAL = {'BlBlxImmediate': ('bl', 'blx'), 'SubsPcLr': ('subs', 'movs', 'adds', 'ands', 'eors', 'rsbs', 'adcs', 'sbcs', 'rscs', 'orrs', 'bics', 'mvns', 'eret'),
           'Push': ('push', 'stmdb', 'str'), 'PopArm': ('pop', 'ldm', 'ldr'), 'PopThumb': ('pop', 'ldm', 'ldr'), 'TbbTbh': ('tbb', 'tbh'),
           'LdmArm': ('ldm',), 'LdmThumb': ('ldm',), 'LdmUserRegisters': ('ldm', 'ldmda', 'ldmdb', 'ldmib'), 'StmUserRegisters': ('stm', 'stmda', 'stmdb', 'stmib'),
           'LdmExceptionReturn': ('ldm', 'ldmda', 'ldmdb', 'ldmib'), 'SrsArm': ('srsda', 'srsdb', 'srsia', 'srsib'), 'SrsThumb': ('srsdb', 'srsia'), 'Rfe': ('rfeda', 'rfedb', 'rfeia', 'rfeib'),
           'MrsApplication': ('mrs',), 'MrsSystem': ('mrs',), 'MsrRegisterApplication': ('msr',), 'MsrRegisterSystem': ('msr',),
           'MsrImmediateApplication': ('msr',), 'MsrImmediateSystem': ('msr',), 'CpsArm': ('cps', 'cpsie', 'cpsid'), 'CpsThumb': ('cps', 'cpsie', 'cpsid'),
           'CdpCdp2': ('cdp', 'cdp2'), 'McrMcr2': ('mcr', 'mcr2'), 'MrcMrc2': ('mrc', 'mrc2'), 'McrrMcrr2': ('mcrr', 'mcrr2'), 'MrrcMrrc2': ('mrrc', 'mrrc2'),
           'LdcLdc2Immediate': ('ldc', 'ldc2', 'ldcl', 'ldc2l'), 'LdcLdc2Literal': ('ldc', 'ldc2', 'ldcl', 'ldc2l'), 'StcStc2': ('stc', 'stc2', 'stcl', 'stc2l'),
           'EnterxLeavex': ('enterx', 'leavex'), 'Usada8': ('usada8',), 'Usad8': ('usad8',), 'Smla': ('smlabb', 'smlabt', 'smlatb', 'smlatt'),
           'Smul': ('smulbb', 'smulbt', 'smultb', 'smultt'), 'Smlaw': ('smlawb', 'smlawt'), 'Smulw': ('smulwb', 'smulwt'),
           'Smlalxy': ('smlalbb', 'smlalbt', 'smlaltb', 'smlaltt'), 'Smlad': ('smlad', 'smladx'), 'Smuad': ('smuad', 'smuadx'),
           'Smlsd': ('smlsd', 'smlsdx'), 'Smusd': ('smusd', 'smusdx'), 'Smlald': ('smlald', 'smlaldx'), 'Smlsld': ('smlsld', 'smlsldx'),
           'Smmla': ('smmla', 'smmlar'), 'Smmul': ('smmul', 'smmulr'), 'Smmls': ('smmls', 'smmlsr'), 'Pkh': ('pkhbt', 'pkhtb'),
           'Cbz': ('cbz', 'cbnz'), 'It': tuple('it' + a + b + c for a in ('', 't', 'e') for b in ('', 't', 'e') for c in ('', 't', 'e')), 'Setend': ('setend',), 'Bxj': ('bxj',), 'Bx': ('bx',), 'B': ('b',),
           'BlxRegister': ('blx',), 'Adr': ('adr', 'add', 'sub', 'addw', 'subw')}
CONDS = ('eq', 'ne', 'cs', 'hs', 'cc', 'lo', 'mi', 'pl', 'vs', 'vc', 'hi', 'ls', 'ge', 'lt', 'gt', 'le', 'al')


def expected(cls):
    base = re.sub(r'(A|T)\d$', '', cls)
    for k, v in sorted(SPECIAL.items(), key=lambda kv: -len(kv[0])):
        if base == k or (base.startswith(k) and k in ('SubsPcLr', 'CpsArm', 'CpsThumb', 'SrsArm', 'SrsThumb', 'Rfe', 'It', 'EnterxLeavex')):
            return v
    m = re.match(r'([A-Z][a-z0-9]*)', base)
    mn = m.group(1).lower()
    alts = {mn}
    # shifts written as MOV with a shifted operand, ADD SP forms, etc.
    if mn in ('lsl', 'lsr', 'asr', 'ror', 'rrx'):
        alts.add('mov')
    if mn == 'mov':
        alts |= {'lsl', 'lsr', 'asr', 'ror', 'rrx', 'movw', 'cpy'}
    if mn in ('add', 'sub'):
        alts |= {'addw', 'subw', 'adr', 'cmn', 'cmp'}
    if mn in ('ldr', 'str'):
        alts |= {'pop', 'push'}
    if mn in ('and', 'eor', 'sub', 'add'):
        alts |= {'tst', 'teq', 'cmp', 'cmn'}
    if mn in ('ldrb', 'ldrh', 'ldrsb', 'ldrsh') or mn == 'ldr':
        alts |= {'pld', 'pli', 'pldw'}
    if mn == 'pld':
        alts |= {'pldw'}
    if mn == 'dsb':
        alts |= {'ssbb', 'pssbb'}
    if mn in ('stmdb', 'stm'):
        alts |= {'push'}
    if mn in ('uxtab', 'sxtab', 'uxtah', 'sxtah', 'uxtab16', 'sxtab16'):
        pass
    if mn == 'nop':
        alts |= {'hint'}
    return tuple(alts)


def strip(mn):
    mn = mn.split('.')[0]
    for s in ('s',):
        pass
    return mn


def main():
    n = int(sys.argv[1]) if len(sys.argv) > 1 else 6
    rnd = random.Random(1)
    st = {'cpsr': 0x13, 'cfg.arch_version': 7, 'cfg.have_security_ext': True, 'cfg.have_virt_ext': False, 'R.PC': 0, 'sctlr': 0, 'scr': 0, 'nsacr': 0,
          'cfg.have_lpae': False, 'cfg.is_armv7r_profile': False}
    work = {'arm': [], 't16': [], 't32': []}
    for r in ENC.TABLE.rows:
        got = 0
        tries = 0
        while got < n and tries < 400:
            tries += 1
            w = r.value | (rnd.getrandbits(r.width) & ~r.mask)
            for hi, lo, exp in r.sbz:
                w = (w & ~(((1 << (hi - lo + 1)) - 1) << lo)) | (exp << lo)
            if r.iset == 'arm' and (w >> 28) == 15 and not (r.mask >> 28) & 15:
                w = (w & 0x0FFFFFFF) | (14 << 28)
            if not r.match(w):
                continue
            f = r.extract(w)
            base = Cpu(dict(st, cpsr=0x13 if r.iset == 'arm' else 0x33), 'arm' if r.iset == 'arm' else 'thumb', w, r.width)
            if r.unpred is not None and r.unpred(f, base):
                continue
            if r.undef is not None and r.undef(f, base):
                continue
            work[r.iset].append((r, w))
            got += 1
    bad = 0
    total = 0
    for iset, items in work.items():
        if not items:
            continue
        d = tempfile.mkdtemp(prefix='tvl_')
        src = os.path.join(d, 't.s')
        with open(src, 'w') as fh:
            fh.write('.syntax unified\n' + ('.arm\n' if iset == 'arm' else '.thumb\n'))
            for i, (r, w) in enumerate(items):
                fh.write('w%d:\n' % i)
                fh.write({'arm': '.inst 0x%08x\n', 't16': '.inst.n 0x%04x\n', 't32': '.inst.w 0x%08x\n'}[iset] % w)
        triple = 'armv7a' if iset == 'arm' else 'thumbv7a'
        attr = '+virtualization,+trustzone,+mp,+hwdiv,+hwdiv-arm,+dsp,+thumb2'
        subprocess.check_call(['llvm-mc-14', '-triple=' + triple, '-mattr=' + attr, '-filetype=obj', src, '-o', os.path.join(d, 't.o')])
        out = subprocess.run(['llvm-objdump-14', '-d', '--no-show-raw-insn', '--triple=' + triple, '--mattr=' + attr, os.path.join(d, 't.o')],
                             capture_output=True, text=True).stdout
        dis = {}
        cur = None
        for ln in out.splitlines():
            m = re.match(r'[0-9a-f]+ <w(\d+)>:', ln)
            if m:
                cur = int(m.group(1))
                continue
            m = re.match(r'\s+[0-9a-f]+:\s+(\S+)(.*)', ln)
            if m and cur is not None and cur not in dis:
                dis[cur] = (m.group(1), m.group(2).strip())
        for i, (r, w) in enumerate(items):
            total += 1
            mn, ops = dis.get(i, ('?', ''))
            exp = expected(r.cls)
            core = mn.split('.')[0]
            cands = {core}
            for c in CONDS:
                if core.endswith(c) and len(core) > len(c):
                    cands.add(core[:-len(c)])
            more = set()
            for c in cands:
                if c.endswith('s'):
                    more.add(c[:-1])
            cands |= more
            for c in list(cands):
                for cc in CONDS:
                    if c.endswith(cc) and len(c) > len(cc):
                        cands.add(c[:-len(cc)])
            if not (cands & set(exp)):
                bad += 1
                print('%-26s %-4s 0x%08x  llvm: %-10s %-30s expected one of %s' % (r.cls, iset, w, mn, ops[:30], sorted(exp)[:6]))
        import shutil
        shutil.rmtree(d, ignore_errors=True)
    print('%d sampled words, %d disagreements' % (total, bad))


if __name__ == '__main__':
    main()
