#!/usr/bin/env python3
"""Evaluate a seeded property-breaking change: confirm it (suite green with the change, demo fails with it and
passes without), archive it under /verif/seeded/<id>/ and run the given checks against the changed tree.

  python3 tools/seed_eval.py <seed id> <worktree> <property> [check ids ...] [--only globs]
"""
import json
import os
import shutil
import subprocess
import sys

HERE = os.path.dirname(os.path.dirname(os.path.abspath(__file__)))


def sh(cmd, cwd=None, env=None, timeout=3600):
    p = subprocess.run(cmd, shell=True, cwd=cwd, env=env, capture_output=True, text=True, timeout=timeout)
    return p.returncode, p.stdout + p.stderr


def main():
    args = sys.argv[1:]
    only = None
    if '--only' in args:
        i = args.index('--only')
        only = args[i + 1]
        del args[i:i + 2]
    sid, wt, prop = args[0], args[1], args[2]
    checks = args[3:] or [prop]
    env = dict(os.environ, PYTHONDONTWRITEBYTECODE='1')
    out = {'id': sid, 'property': prop, 'worktree': wt}
    rc, o = sh('/venv/bin/python -m pytest -q -p no:cacheprovider 2>&1 | tail -1', cwd=wt, env=env)
    out['suite_with_change'] = o.strip()
    rc1, o1 = sh('/venv/bin/python _seed/demo.py', cwd=wt, env=env)
    out['demo_with_change_rc'] = rc1
    sh('git diff -- armulator > /tmp/_seed_patch_%s.diff' % sid + ' && git checkout -- armulator', cwd=wt)
    rc0, o0 = sh('/venv/bin/python _seed/demo.py', cwd=wt, env=env)
    sh('git apply /tmp/_seed_patch_%s.diff' % sid + '', cwd=wt)
    out['demo_original_rc'] = rc0
    confirmed = ' passed' in out['suite_with_change'] and 'failed' not in out['suite_with_change'] and rc1 != 0 and rc0 == 0
    out['confirmed'] = confirmed
    print('seed %s: suite=%r demo(changed)=%d demo(original)=%d confirmed=%s' % (sid, out['suite_with_change'], rc1, rc0, confirmed))
    d = os.path.join(HERE, 'seeded', sid)
    os.makedirs(d, exist_ok=True)
    _, diff = sh('git diff -- armulator', cwd=wt)
    open(os.path.join(d, 'patch.diff'), 'w').write(diff)
    for f in ('demo.py', 'notes.txt'):
        if os.path.exists(os.path.join(wt, '_seed', f)):
            shutil.copy(os.path.join(wt, '_seed', f), os.path.join(d, f))
    results = {}
    env2 = dict(env, VERIF_REPO=wt)
    for c in checks:
        cmd = 'python3-vt run.py check %s --tier quick' % c
        if only:
            cmd += " --only '%s'" % only
        rc, o = sh(cmd, cwd=HERE, env=env2, timeout=7200)
        viol = [ln for ln in o.splitlines() if ln.startswith('VIOLATION')]
        summ = [ln for ln in o.splitlines() if ln.startswith('property ')]
        obl = sorted(set(ln.strip() for ln in o.splitlines() if ln.strip().startswith('obligation ')))
        results[c] = {'exit': rc, 'violations': len(viol), 'summary': summ[-1] if summ else '', 'obligations': obl[:6]}
        print('  check %s: exit %d, %d VIOLATION lines; %s' % (c, rc, len(viol), '; '.join(obl[:3])))
    out['checks'] = results
    out['detected'] = any(r['exit'] == 1 and r['violations'] > 0 for r in results.values())
    notes = open(os.path.join(d, 'notes.txt')).read() if os.path.exists(os.path.join(d, 'notes.txt')) else ''
    meta = {'id': sid, 'breaks_property': prop, 'needs_to_manifest': notes.strip()[:1500],
            'confirmation': {k: out[k] for k in ('suite_with_change', 'demo_with_change_rc', 'demo_original_rc', 'confirmed')},
            'ran': {'checks': results, 'only': only or 'whole quick check',
                    'how': 'VERIF_REPO=<scratch worktree with the patch applied> python3-vt run.py check <id> --tier quick [--only <ran.only>]'},
            'detected': out['detected']}
    json.dump(meta, open(os.path.join(d, 'meta.json'), 'w'), indent=1)
    return 0


if __name__ == '__main__':
    sys.exit(main())
