#!/usr/bin/env python3
"""(maintenance) regenerate MANIFEST.json from the table below."""
import json
import os

HERE = os.path.dirname(os.path.dirname(os.path.abspath(__file__)))
props = [json.loads(l) for l in open(os.path.join(HERE, 'properties.jsonl'))]

STEP_NOTE = ("trusted: pyvc's model of the Python subset (cross-checked against CPython for pure units), z3; the L5 abstraction of the "
             "memory system as uninterpreted MemRead/MemWrite/MemFault (its meaning is C13-C16); instruction fetch yields an arbitrary word; "
             "hand-transcribed ARM ARM pseudocode and encoding rows in /verif/spec; mock hooks (coprocessor, barriers, hints) raise "
             "NotImplementedError and are outside every claim")
TECH = 'contract-based deductive verification: VCs generated from the AST of the live /repo source, sidecar contracts, discharged by z3 (QF_UFBV)'

CLAIMS = {
 'C01': ("All 153 data-processing encodings (ARM A1/A2, Thumb T1-T4: immediate, register, register-shifted register, SP/PC forms, shifts, "
         "MOVW/MOVT/ADR) are proved equal, leaf by leaf over the whole machine state (frame included), to the ARM ARM decode+operation "
         "pseudocode for all instruction words of the class, all operand values, flags, modes and configurations (arch 4..7); the L1/L2 "
         "callee contracts they rely on are discharged in the same check.", "DESIGN.md 10 C01, 14.2"),
 'C04': ("Whole-step proof over every instruction word: PC advances by the instruction length when no branch is taken (part of the "
         "leaf-wise functional obligation of every specified encoding and of the failed-condition clause), R15 reads as +8/+4 (contract "
         "of Registers.get proved against its body), final PC alignment for the final instruction set on every path, and the branch "
         "encodings B/BL/BLX/BX/BXJ/CBZ/TBB/TBH (ARM and Thumb) equal the architectural offsets, link values and interworking; for every "
         "specified encoding (loads to PC, ALU writes to PC, exception returns included) the final PC and instruction set are an obligation "
         "of their own (post.pc). Known finding: CBZ offset x4 (pinned by a test).", "DESIGN.md 10 C04, 14.2"),
 'C05': ("current_cond/condition_passed proved equal to CurrentCond()/ConditionPassed() for all opcode words, lengths, ITSTATE and NZCV "
         "(16x16 table decided by the solver); and for every instruction word of both instruction sets the whole-step obligation "
         "safe.noop: when the architectural condition fails nothing changes except PC (+length) and ITSTATE (advance).", "DESIGN.md 10 C05"),
 'C08': ("it_advance/in_it_block/last_in_it_block proved against ITAdvance/InITBlock/LastInITBlock for all 256 states; the IT "
         "sequencing lemma (conditions seen by the next 1-4 instructions, LastInITBlock, empty afterwards) decided exhaustively by the "
         "solver for all legal (firstcond, mask); the IT instruction itself, the once-per-instruction advance (post.it: ITSTATE after every "
         "Thumb instruction, flags of 16-bit instructions inside a block; no advance after an exception return), current_cond/condition_passed "
         "(C05 units) and the exception-entry units (IT saved in the SPSR and cleared) are part of this check.",
         "DESIGN.md 10 C08"),
 'C10': ("Every Registers accessor (banked get/set by current and explicit mode, SPSR selection, branch_to, mode predicates) proved "
         "against the single banking table (single-register frames), for all register numbers, modes, values and configurations; range "
         "invariant: value-range preconditions of every register writer at every call site of every instruction path plus the "
         "final-state range check, for every instruction word; post.banks: register copies and SPSRs the executing mode does not see "
         "change exactly as the instruction's specification says (accesses by explicit mode: SRS, LDM/STM user, banked MRS/MSR, RFE).", "DESIGN.md 10 C10"),
 'C11': ("All eleven exception-entry functions (undef, svc, smc, data abort, irq, fiq, hyp trap, enter_hyp/monitor_mode, "
         "exc_vector_base, take_reset) proved equal leaf-by-leaf to the B1.8/B1.9 pseudocode for every source mode, T/J/IT/AIF, "
         "SCTLR/SCR/HCR routing bits, extension configuration and PC; SVC and SMC at step level: the exception the instruction generates in "
         "each state (SMC: UNDEFINED / Hyp trap under HCR.TSC / Monitor call) and the state afterwards == the entry from the initial state; "
         "steps that start with CPSR.J = 1 take the Undefined Instruction entry.", "DESIGN.md 10 C11"),
 'C12': ("cpsr_write_by_instr / spsr_write_by_instr proved equal to CPSRWriteByInstr / SPSRWriteByInstr (per-bit mask formulation) for all "
         "values, byte masks, modes, security state, NMFI, SCR.AW/FW and configurations; MRS, MSR (register/immediate, application and "
         "system), CPS, SETEND, SUBS PC,LR (ARM A1/A2, Thumb), ERET, LDM (exception return), RFE, NOP/WFE/WFI by step-level functional "
         "rows for every instruction word and state (User-mode UNKNOWN bits masked); the entry-then-return round trip (SVC, Undefined, "
         "IRQ, FIQ, Data Abort from ARM and Thumb state, handler in ARM or Thumb) as a lemma over the two verified contracts. "
         "Coproc_Accepted() for the generic coprocessors (NSACR/CPACR by privilege and security state, HCPTR traps with the Virtualization "
         "Extensions) as a function-level unit, and at step level the coprocessor transfer hooks are reached only through it (post.gate); "
         "SVC/SMC outcome and entry, hints and barriers (mock hook reached only when the condition passes, state untouched), UDF, IT, "
         "ENTERX/LEAVEX by step-level rows; the exception-entry units (C11) belong to this check. The CP14 and CP15 branches of Coproc_Accepted() "
         "(instruction form, opc1 / CRn spaces, the User-mode ThumbEE register rules, HSTR.T<n> / HSTR.TTEE / HCR.TIDCP traps with syndrome and "
         "trap entry) as two more function-level units, the register-space decode hooks and InstrIsPL0Undefined() (mocks of the "
         "implementation) under the contract 'an arbitrary boolean, no state change'; two regions are left open there and named in DESIGN 14.17. Known finding: MRS CPSR in "
         "privileged modes returns only the APSR bits (pinned by a test).", "DESIGN.md 10 C12, 14.12"),
 'C13': ("mem_a_with_priv_get/set, mem_u_with_priv_get/set, the six wrappers (sizes 1,2,4,8) and fetch_instruction interpreted over an "
         "abstract translation (any PA, any fault pattern) and an abstract physical hub: per path the exact sequence of translations and "
         "hub accesses with address, size, privilege, direction and data, the returned value with CPSR.E reversal, alignment policy by "
         "architecture version / SCTLR.A,U / HSCTLR.A, byte-wise unaligned accesses wrapping modulo 2^32, little-endian fetch with the "
         "second halfword fetched iff hw1<15:11> in {11101,11110,11111}, and the frame; store-then-load follows with C16's byte-level "
         "contract and the involution of the byte reversal (C17). The load/store rows of the step units (legacy rotated LDR result, "
         "UNKNOWN data of unaligned Thumb accesses, access kind and privilege of every instruction access) and the translate_address "
         "dispatch belong to this check as well.", "DESIGN.md 10 C13"),
 'C14': ("translate_address_p with check_permission, data_abort (PMSA), encode_pmsafsr, default_tex_decode and "
         "default_memory_attributes interpreted from source against the B5 pseudocode for every MPU programming (all DRSR/DRBAR/DRACR "
         "values, DRegion, SCTLR.M/BR/AFE/C/V), address, direction, privilege: region priority (last hit), size/base match, subregion "
         "disable, AP table, background rule, DFSR.FS/WnR + DFAR on abort, memory type/attributes, frame. Unbounded in the number of "
         "regions: loop head, inductive step for an arbitrary region and arbitrary accumulators, and the code after the loop for an "
         "arbitrary scan result; unrolled N<=2 instances cross-check the cut points. No write-back / no transfer on an aborting access: "
         "post.abort of the single load/store rows and inv.abort of the block-transfer units (any position incl. the PC slot); the accessor "
         "units (direction/privilege handed to the translation) belong to this check. LR_abt/SPSR_abt of the abort entry are C11.",
         "DESIGN.md 10 C14, 14"),
 'C15': ("translate_address_v with FCSE translation interpreted from the real source over an abstract physical memory (arbitrary table "
         "contents) against the B3.19 pseudocode, two units: (1) Short-descriptor walk (TTBR0/TTBR1 split by TTBCR.N, PD0/PD1, sections, "
         "supersections with 40-bit output, large and small pages, SCTLR.EE), TEX remap (PRRR/NMRR), access-flag, domain (DACR) and "
         "AP/APX checks, DFSR/DFAR reporting, and the MMU-off flat map; (2) Long-descriptor stage-1 walk outside Hyp mode (TTBR0/TTBR1 by "
         "T0SZ/T1SZ, EPD0/1, start level, up to three levels with hierarchical APTable/XNTable/PXNTable/NSTable, blocks and pages, access "
         "flag, AP, MAIR memory type, SH) incl. termination of the lookup loop; for every register setting, address, privilege, direction. "
         "Both units a second time for configurations with the Virtualization Extensions present and stage 2 inactive (Secure state or HCR.VM == 0; "
         "HCR.TGE / HCR.DC corners as UNPREDICTABLE, alignment faults of Device memory reported; the Long-descriptor one of these in the thorough tier only). "
         "(3) the Hyp-mode stage-1 walk (HTCR.T0SZ, HTTBR, HSCTLR.EE, HMAIR, Non-secure lookup, the Hyp-regime UNPREDICTABLE descriptor settings) "
         "functionally like (2). The second stage (VTCR/VTTBR walk, stage 1 walks through stage 2, check_permission_s2, combine_s1s2_desc, "
         "s2_attr_decode) and Hyp mode with HSCTLR.M == 0 have NO functional specification: safety units (Hyp mode; stage 2 with the stage 1 MMU off; second_stage_translate() on its own, i.e. the stage 2 translation of a stage 1 table address with the HCR.PTW rule; the whole of translate_address_v with stage 1 on AND stage 2 active exceeds the engine's merge budget and is not explored as one unit) prove for them no host error, termination of every walk, a 40-bit physical address, "
         "'a success changes no state, a fault only the fault-reporting registers', no memory write and ownership of the result - the "
         "property text itself speaks of stage 1 only. Also outside: SCTLR.HA; Long-descriptor fault *reporting* stops at a "
         "mock hook (NotImplementedError), so there only 'a fault is raised exactly when specified' is proved; SCTLR.TRE == 0 likewise.",
         "DESIGN.md 14.13"),
 'C16': ("For controller lists of ANY length: get_memory_by_address with its for-each loop cut (head: scans self.memories itself front to back; "
         "step: an arbitrary controller is returned iff beginning <= address < end, else passed over, nothing modified; tail: None), and "
         "MemoryControllerHub.__getitem__/__setitem__ (RAM/to_int/from_int inlined) against that contract over an opaque list, sizes 1/2/4/8. "
         "Cross-check with everything inlined over controller lists of "
         "length 0..3 (thorough 0..5) with symbolic bounds, sizes and contents and an arbitrary 40-bit address. Both: little-endian value of "
         "exactly the addressed bytes, every other byte of every device unchanged (extensional at an arbitrary probe index), unmapped "
         "reads 0, len(memory_array)==size==end-beginning preserved, no host error incl. accesses crossing the end of a device; add_memory / "
         "from_memory_list establish that representation (appended in order, zero-filled store of end-beginning bytes).",
         "DESIGN.md 10 C16"),
 'C17': ("Every function of bits_ops.py and shift.py, the AbstractRegister bit/slice accessors and every named field (getter and "
         "setter) of all register classes verified, body against contract, for all operand values (widths 1-8,16,32,64 quick / 1..64 "
         "thorough where the width is a parameter, all shift amounts 0..255).", "DESIGN.md 10 C17"),
 'C18': ("Whole-step proof: for every 16-bit Thumb, 32-bit Thumb and ARM instruction word (cube-partitioned, all other bits symbolic), "
         "every ValidState, mode and configuration, emulate_cycle returns, takes an architectural exception, or raises "
         "NotImplementedError; every potential host error (attribute/type/index/key/assertion/unbound-local/struct/value/zero-division) "
         "is an explicit path that must be infeasible, UNPREDICTABLE paths included; the same for the memory path below the accessor contracts "
         "(accessors, fetch, translation PMSA/VMSA incl. Hyp mode and the second stage through the safety units of C15, hub) and for steps starting "
         "with CPSR.J = 1. The stage 2 unit found the host error repaired in 36a4654 (reserved VTCR.SL0); the Hyp-mode unit re-finds 08942de when that fix is reverted.", "DESIGN.md 10 C18"),
 'C19': ("Whole-step proof for every instruction word with CPSR.M = User: afterwards still User with A/I/F, all other modes' banked "
         "registers and SPSRs and every system register unchanged, or an architectural exception was entered with SPSR.M = User; last clause: "
         "the unprivileged load/store rows (LDRT..STRHT) functionally, the privilege of every translation request of the accessors "
         "(post.priv), frames of the memory path, coprocessor gating (post.gate, the three Coproc_Accepted units incl. the User-mode CP14/CP15 rules).",
         "DESIGN.md 10 C19"),
 'C02': ("Every single-register load/store encoding in the table (about 170: LDR/STR/LDRB/STRB/LDRH/STRH/LDRSB/LDRSH/LDRD/STRD, immediate, "
         "literal, register and unprivileged forms, ARM A1/A2 and Thumb T1-T4) proved equal, leaf by leaf over the whole machine state and "
         "the abstract memory (address, size, access kind, privilege, data of every access; write-back; loads to PC with interworking; "
         "frame), to the ARM ARM decode+operation pseudocode for all instruction words of the class and all operand values with "
         "wrap-around modulo 2^32; plus the abort clause (no register loaded or written back; LDRD destinations UNKNOWN). LDREX/STREX{,B,H,D} functionally with the "
         "monitors' answers as oracles of the unit (the monitor state is outside the machine state); PLD: hint rows (no state change).", "DESIGN.md 10 C02, 14"),
 'C03': ("LDM/STM in four addressing modes, PUSH/POP, LDM/STM (user registers), LDM (exception return): the execute() of each of the 15 "
         "abstract classes verified with its register loop cut (head: start address and ascending order; inductive step for an arbitrary "
         "register index, address, memory and register file; tail: PC slot, write-back, UNKNOWN cases, exception return), so for all 2^16 "
         "lists; the step units prove for every encoding that decode hands that execute() the architectural registers/n/wback/"
         "unaligned_allowed/increment/word_higher; SRS and RFE by step-level rows; PUSH;POP and STMDB;LDMIA round-trip lemmas over the two "
         "contracts with a flat fault-free memory. Known finding: PUSH.W (T2) decoded with UnalignedAllowed=TRUE (pinned by a test).",
         "DESIGN.md 14.7"),
 'C06': ("Whole-step exploration of all 256 ARM cubes (bits 27:20 fixed, every other bit symbolic = all 2^32 words): on every path the "
         "selected class must own the word in the encoding table (decode.class) or the word is UNPREDICTABLE; every word that ends in the "
         "Undefined Instruction exception without an opcode object is no valid encoding of any table row (decode.total); operand "
         "extraction through the functional equality (post / decode.fields) and UNDEFINED rows never execute (post.unpred); decode "
         "reads nothing but the word, ITSTATE and C (frame.own + the spec's own dependence). The table holds a row for every one of the 602 concrete "
         "classes (data-processing, branches, load/store single, dual, multiple, unprivileged, multiply/SIMD/saturating/bit-field, "
         "MRS/MSR/CPS/SETEND/exception return/hints/barriers/PLD/IT/UDF/BKPT/ENTERX, TBB/TBH, exclusives functionally; SVC/SMC by outcome + entry; "
         "coprocessor CDP/MCR/MRC/MCRR/MRRC/LDC/STC decode-only + gating). A word decoded to a class it is no encoding of, or rejected "
         "although valid, also counts for the functional family of the class it belongs to.", "DESIGN.md 14.8"),
 'C07': ("As C06 for Thumb: 58 16-bit cubes (bits 15:10) and 192 32-bit cubes (bits 31:21), inside and outside IT blocks (ITSTATE "
         "symbolic); 32-bit detection by hw1<15:11> is part of the fetch contract proved in C13.", "DESIGN.md 14.8"),
 'C09': ("All multiply/divide (MUL, MLA, MLS, long, halfword, dual, most-significant-word, SDIV/UDIV), saturating (QADD.., SSAT/USAT, "
         "SSAT16/USAT16), parallel add/subtract (S, Q, SH, U, UQ, UH x ADD16, ASX, SAX, SUB16, ADD8, SUB8), SEL, USAD8/USADA8, "
         "extend and extend-and-add, BFC/BFI/SBFX/UBFX, PKH, REV*/RBIT, CLZ encodings (ARM A1 and Thumb T1/T2: 220 classes) proved equal, "
         "leaf by leaf incl. N/Z, Q (sticky) and GE, to the pseudocode over exact integers for all operand values and parameters. "
         "Products and quotients are abstracted by uninterpreted functions over canonical operands (sound for validity) and refined with "
         "their exact definitions when the abstraction gives a counterexample. Known finding: BFI source bits (pinned by a test).",
         "DESIGN.md 14.10"),
 'C20': ("Ownership/frame contracts: every step over every instruction word reads and writes only the instance's own state, the "
         "configuration and immutable program constants (engine-tracked accesses to host objects outside the symbolic machine: "
         "frame.own), and the interpreted subset is deterministic, so a step is a function of (configuration, state, memory) and steps "
         "of instances that share no object commute; per-step scratch fields are leaves of the machine and are covered by the "
         "functional equalities; the memory path below the accessor contracts and the L1/L2 function units carry the same ownership "
         "obligations; Registers.__init__ with all register constructors builds a register file from the configuration only, without "
         "shared mutable objects. Instance creation is a separate unit: ArmV6.__init__ rewrites the module-level configuration singleton "
         "(known finding KF-CONFIG-SINGLETON, demonstrated natively with two configuration files).", "DESIGN.md 14.11"),
}
NOT_YET = {
}


def chk(pid, text, ref):
    return {"property_id": pid, "quick_cmd": "python3-vt run.py check %s --tier quick" % pid,
            "thorough_cmd": "python3-vt run.py check %s --tier thorough" % pid, "evidence_file": "/verif/evidence/%s.json" % pid,
            "replay_cmd_template": "/venv/bin/python /verif/run.py replay {path}", "engine": "pyvc",
            "level_claimed": {"category": "proof", "text": text, "design_ref": ref}, "level_note": STEP_NOTE, "technique": TECH}


m = {"version": 1, "setup_cmd": "python3-vt -c \"import z3; print(z3.get_version_string())\"",
     "hooks": {"guard": "ARMULATOR_VERIF", "enable": "no hooks: the checks import the /repo working tree unmodified (VERIF_REPO or /repo on sys.path)",
               "baseline_off_cmd": "cd /repo && /venv/bin/python -m pytest -q -p no:cacheprovider", "source_commits": [], "add_only": True},
     "engines": [{"name": "pyvc", "path": "/verif/pyvc", "serves_properties": sorted(CLAIMS),
                  "kind_free_text": "self-built VC generator: symbolic interpretation of the AST of the live /repo functions (ints = exact "
                                    "width-growing bit-vectors), sidecar contracts (/verif/contracts), executable ARM-ARM specs (/verif/spec), "
                                    "obligations discharged by z3; counterexamples replayed natively under /venv/bin/python"}],
     "checks": [chk(p, *CLAIMS[p]) for p in sorted(CLAIMS)],
     "notes": "see DESIGN.md (section 14 = implementation log). Unit results are cached per byte-identical tree state (/verif/.cache).",
     "not_applicable": [{"property_id": p['id'], "reason": NOT_YET[p['id']]} for p in props if p['id'] not in CLAIMS]}
json.dump(m, open(os.path.join(HERE, 'MANIFEST.json'), 'w'), indent=1)
print('claimed', sorted(CLAIMS), 'not', [x['property_id'] for x in m['not_applicable']])
