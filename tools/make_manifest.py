#!/usr/bin/env python3
"""(maintenance) regenerate MANIFEST.json from the table below."""
import json
import os

HERE = os.path.dirname(os.path.dirname(os.path.abspath(__file__)))
props = [json.loads(l) for l in open(os.path.join(HERE, 'properties.jsonl'))]

STEP_NOTE = ("trusted: pyvc's model of the Python subset (cross-checked against CPython for pure units), z3; the L5 abstraction of the "
             "memory system as uninterpreted MemRead/MemWrite/MemFault (its meaning is C13-C16); instruction fetch yields an arbitrary word; "
             "hand-transcribed ARM ARM pseudocode and encoding rows in /verif/spec; mock hooks (coprocessor, barriers, hints) raise "
             "NotImplementedError and are outside every claim")
TECH = 'contract-based deductive verification: VCs generated from the AST of the live /repo source, sidecar contracts, discharged by z3 (QF_UFBV)'

CLAIMS = {
 'C01': ("All 153 data-processing encodings (ARM A1/A2, Thumb T1-T4: immediate, register, register-shifted register, SP/PC forms, shifts, "
         "MOVW/MOVT/ADR) are proved equal, leaf by leaf over the whole machine state (frame included), to the ARM ARM decode+operation "
         "pseudocode for all instruction words of the class, all operand values, flags, modes and configurations (arch 4..7); the L1/L2 "
         "callee contracts they rely on are discharged in the same check.", "DESIGN.md 10 C01, 14.2"),
 'C04': ("Whole-step proof over every instruction word: PC advances by the instruction length when no branch is taken (part of the "
         "leaf-wise functional obligation of every specified encoding and of the failed-condition clause), R15 reads as +8/+4 (contract "
         "of Registers.get proved against its body), final PC alignment for the final instruction set on every path, and the branch "
         "encodings B/BL/BLX/BX/BXJ/CBZ (ARM and Thumb) equal the architectural offsets, link values and interworking. TBB/TBH and "
         "loads to PC are covered by safety obligations only so far.", "DESIGN.md 10 C04, 14.2"),
 'C05': ("current_cond/condition_passed proved equal to CurrentCond()/ConditionPassed() for all opcode words, lengths, ITSTATE and NZCV "
         "(16x16 table decided by the solver); and for every instruction word of both instruction sets the whole-step obligation "
         "safe.noop: when the architectural condition fails nothing changes except PC (+length) and ITSTATE (advance).", "DESIGN.md 10 C05"),
 'C08': ("it_advance/in_it_block/last_in_it_block proved against ITAdvance/InITBlock/LastInITBlock for all 256 states; the IT "
         "sequencing lemma (conditions seen by the next 1-4 instructions, LastInITBlock, empty afterwards) decided exhaustively by the "
         "solver for all legal (firstcond, mask); once-per-instruction advance and exception save/clear come from the step units and C11.",
         "DESIGN.md 10 C08"),
 'C10': ("Every Registers accessor (banked get/set by current and explicit mode, SPSR selection, branch_to, mode predicates) proved "
         "against the single banking table (single-register frames), for all register numbers, modes, values and configurations; range "
         "invariant: value-range preconditions of every register writer at every call site of every instruction path plus the "
         "final-state range check, for every instruction word.", "DESIGN.md 10 C10"),
 'C11': ("All eleven exception-entry functions (undef, svc, smc, data abort, irq, fiq, hyp trap, enter_hyp/monitor_mode, "
         "exc_vector_base, take_reset) proved equal leaf-by-leaf to the B1.8/B1.9 pseudocode for every source mode, T/J/IT/AIF, "
         "SCTLR/SCR/HCR routing bits, extension configuration and PC.", "DESIGN.md 10 C11"),
 'C12': ("cpsr_write_by_instr proved equal to the per-bit mask formulation of CPSRWriteByInstr and spsr_write_by_instr to "
         "SPSRWriteByInstr for all values, byte masks, modes, security state, NMFI, SCR.AW/FW and extension configurations; system "
         "opcodes are covered by the whole-step safety obligations (no host error, privilege confinement, failed condition no-op); "
         "their functional rows and the entry/return round-trip lemma are not built yet.", "DESIGN.md 10 C12"),
 'C13': ("mem_a_with_priv_get/set, mem_u_with_priv_get/set, the six wrappers (sizes 1,2,4,8) and fetch_instruction interpreted over an "
         "abstract translation (any PA, any fault pattern) and an abstract physical hub: per path the exact sequence of translations and "
         "hub accesses with address, size, privilege, direction and data, the returned value with CPSR.E reversal, alignment policy by "
         "architecture version / SCTLR.A,U / HSCTLR.A, byte-wise unaligned accesses wrapping modulo 2^32, little-endian fetch with the "
         "second halfword fetched iff hw1<15:11> in {11101,11110,11111}, and the frame; store-then-load follows with C16's byte-level "
         "contract and the involution of the byte reversal (C17).", "DESIGN.md 10 C13"),
 'C14': ("translate_address_p with check_permission, data_abort (PMSA), encode_pmsafsr, default_tex_decode and "
         "default_memory_attributes interpreted from source against the B5 pseudocode for every MPU programming (all DRSR/DRBAR/DRACR "
         "values, DRegion, SCTLR.M/BR/AFE/C/V), address, direction, privilege: region priority (last hit), size/base match, subregion "
         "disable, AP table, background rule, DFSR.FS/WnR + DFAR on abort, memory type/attributes, frame. Unbounded in the number of "
         "regions: loop head, inductive step for an arbitrary region and arbitrary accumulators, and the code after the loop for an "
         "arbitrary scan result; unrolled N<=2 instances cross-check the cut points. LR_abt/SPSR_abt of the abort entry are C11.",
         "DESIGN.md 10 C14, 14"),
 'C16': ("MemoryControllerHub.__getitem__/__setitem__ with MemoryController/RAM/to_int/from_int inlined, over controller lists of "
         "length 0..3 (thorough 0..5) with symbolic bounds, sizes and contents and an arbitrary 40-bit address: little-endian value of "
         "exactly the addressed bytes, every other byte of every device unchanged (extensional at an arbitrary probe index), unmapped "
         "reads 0, len(memory_array)==size==end-beginning preserved, no host error incl. accesses crossing the end of a device.",
         "DESIGN.md 10 C16"),
 'C17': ("Every function of bits_ops.py and shift.py, the AbstractRegister bit/slice accessors and every named field (getter and "
         "setter) of all register classes verified, body against contract, for all operand values (widths 1-8,16,32,64 quick / 1..64 "
         "thorough where the width is a parameter, all shift amounts 0..255).", "DESIGN.md 10 C17"),
 'C18': ("Whole-step proof: for every 16-bit Thumb, 32-bit Thumb and ARM instruction word (cube-partitioned, all other bits symbolic), "
         "every ValidState, mode and configuration, emulate_cycle returns, takes an architectural exception, or raises "
         "NotImplementedError; every potential host error (attribute/type/index/key/assertion/unbound-local/struct/value/zero-division) "
         "is an explicit path that must be infeasible, UNPREDICTABLE paths included.", "DESIGN.md 10 C18"),
 'C19': ("Whole-step proof for every instruction word with CPSR.M = User: afterwards still User with A/I/F, all other modes' banked "
         "registers and SPSRs and every system register unchanged, or an architectural exception was entered with SPSR.M = User.",
         "DESIGN.md 10 C19"),
}
NOT_YET = {
 'C02': 'functional rows of the load/store encodings not written yet (only address/data range preconditions and the uniform safety obligations exist); not claimed',
 'C03': 'functional (lock-step) specification of block transfers and the PUSH;POP lemma not built yet; not claimed',
 'C06': 'class-selection obligation exists only for the encodings that have a table row so far (about 180 of 603) and the UNDEFINED-space obligation needs the complete table; not claimed yet',
 'C07': 'as C06 for Thumb; not claimed yet',
 'C09': 'operation specs of the multiply/saturating/SIMD/bit-field family not written yet; not claimed',
 'C15': 'L4 units for VMSA translation not built yet',
 'C20': 'frame/ownership units and the configuration-singleton finding not built yet',
}


def chk(pid, text, ref):
    return {"property_id": pid, "quick_cmd": "python3-vt run.py check %s --tier quick" % pid,
            "thorough_cmd": "python3-vt run.py check %s --tier thorough" % pid, "evidence_file": "/verif/evidence/%s.json" % pid,
            "replay_cmd_template": "/venv/bin/python /verif/run.py replay {path}", "engine": "pyvc",
            "level_claimed": {"category": "proof", "text": text, "design_ref": ref}, "level_note": STEP_NOTE, "technique": TECH}


m = {"version": 1, "setup_cmd": "python3-vt -c \"import z3; print(z3.get_version_string())\"",
     "hooks": {"guard": "ARMULATOR_VERIF", "enable": "no hooks: the checks import the /repo working tree unmodified (VERIF_REPO or /repo on sys.path)",
               "baseline_off_cmd": "cd /repo && /venv/bin/python -m pytest -q -p no:cacheprovider", "source_commits": [], "add_only": True},
     "engines": [{"name": "pyvc", "path": "/verif/pyvc", "serves_properties": sorted(CLAIMS),
                  "kind_free_text": "self-built VC generator: symbolic interpretation of the AST of the live /repo functions (ints = exact "
                                    "width-growing bit-vectors), sidecar contracts (/verif/contracts), executable ARM-ARM specs (/verif/spec), "
                                    "obligations discharged by z3; counterexamples replayed natively under /venv/bin/python"}],
     "checks": [chk(p, *CLAIMS[p]) for p in sorted(CLAIMS)],
     "notes": "see DESIGN.md (section 14 = implementation log). Unit results are cached per byte-identical tree state (/verif/.cache).",
     "not_applicable": [{"property_id": p['id'], "reason": NOT_YET[p['id']]} for p in props if p['id'] not in CLAIMS]}
json.dump(m, open(os.path.join(HERE, 'MANIFEST.json'), 'w'), indent=1)
print('claimed', sorted(CLAIMS), 'not', [x['property_id'] for x in m['not_applicable']])
