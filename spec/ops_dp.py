"""Data-processing operation specs (ARM ARM A8.8.x pseudocode) and their encoding rows (A5.2, A6.2.1, A6.3.x).

One generic operation DataProc(alu, operand-2 kind); per-row adapters map the row's fields to (d, n, m, s,
setflags, operand 2)."""
from .rt import ite, land, lor, lnot, bits, bit, b2i, M32
from . import prims as P
from .enc import Table

LOGICAL = {'AND', 'EOR', 'ORR', 'BIC', 'MOV', 'MVN', 'ORN', 'TST', 'TEQ'}
COMPARE = {'TST', 'TEQ', 'CMP', 'CMN'}
ARM_OPC = ['AND', 'EOR', 'SUB', 'RSB', 'ADD', 'ADC', 'SBC', 'RSC', 'TST', 'TEQ', 'CMP', 'CMN', 'ORR', 'MOV', 'BIC', 'MVN']


def alu_eval(alu, rn, op2, carry_in):
    """-> (result, carry or None, overflow or None) ; None: flag taken from the shifter / unchanged"""
    nop2 = op2 ^ M32
    if alu in ('AND', 'TST'):
        return rn & op2, None, None
    if alu in ('EOR', 'TEQ'):
        return rn ^ op2, None, None
    if alu == 'ORR':
        return rn | op2, None, None
    if alu == 'BIC':
        return rn & nop2, None, None
    if alu == 'ORN':
        return rn | nop2, None, None
    if alu == 'MOV':
        return op2, None, None
    if alu == 'MVN':
        return nop2, None, None
    if alu in ('ADD', 'CMN'):
        return P.AddWithCarry(rn, op2, 0)
    if alu == 'ADC':
        return P.AddWithCarry(rn, op2, carry_in)
    if alu in ('SUB', 'CMP'):
        return P.AddWithCarry(rn, nop2, 1)
    if alu == 'SBC':
        return P.AddWithCarry(rn, nop2, carry_in)
    if alu == 'RSB':
        return P.AddWithCarry(rn ^ M32, op2, 1)
    if alu == 'RSC':
        return P.AddWithCarry(rn ^ M32, op2, carry_in)
    raise KeyError(alu)


def data_proc(cpu, alu, d, rn_val, op2, shifter_carry, setflags, pc_dest_allowed=True):
    """common tail: result, destination (PC via ALUWritePC), flags"""
    result, c, v = alu_eval(alu, rn_val, op2, cpu.C)
    n_ = bit(result, 31)
    z_ = b2i(result == 0)
    c_ = shifter_carry if c is None else c

    def flags(k):
        if v is None:
            k.set_flags(n=n_, z=z_, c=c_)
        else:
            k.set_flags(n=n_, z=z_, c=c_, v=v)
    if alu in COMPARE:
        flags(cpu)
        return

    def to_reg(k):
        k.setR(d, result)
        k.when(setflags, flags)
    if pc_dest_allowed:
        cpu.cases([(d == 15, lambda k: k.alu_write_pc(result)), (True, to_reg)])
    else:
        to_reg(cpu)


# ---------------------------------------------------------------------------------------------- ARM rows

def _sf(f):
    return f['S'] == 1


def arm_reg(alu):
    def op(cpu, f):
        st, sn = P.DecodeImmShift(f['type'], f['imm5'])
        op2, sc = P.Shift_C(cpu.R(f['Rm']), 32, st, sn, cpu.C)
        data_proc(cpu, alu, f.get('Rd'), cpu.R(f['Rn']) if 'Rn' in f else 0, op2, sc, _sf(f) if 'S' in f else True)
    return op


def arm_rsr(alu):
    def op(cpu, f):
        sn = cpu.R(f['Rs']) & 0xFF
        op2, sc = P.Shift_C(cpu.R(f['Rm']), 32, f['type'], sn, cpu.C)
        data_proc(cpu, alu, f.get('Rd'), cpu.R(f['Rn']) if 'Rn' in f else 0, op2, sc, _sf(f) if 'S' in f else True,
                  pc_dest_allowed=False)
    return op


def arm_imm(alu):
    def op(cpu, f):
        op2, sc = P.ARMExpandImm_C(f['imm12'], cpu.C)
        data_proc(cpu, alu, f.get('Rd'), cpu.R(f['Rn']) if 'Rn' in f else 0, op2, sc, _sf(f) if 'S' in f else True)
    return op


def arm_shift_imm(t):
    """LSL/LSR/ASR/ROR (immediate), RRX: MOV with a shifted register operand"""
    def op(cpu, f):
        st, sn = P.DecodeImmShift(t, f['imm5'] if 'imm5' in f else 0)
        op2, sc = P.Shift_C(cpu.R(f['Rm']), 32, st, sn, cpu.C)
        data_proc(cpu, 'MOV', f['Rd'], 0, op2, sc, _sf(f))
    return op


def arm_shift_reg(t):
    def op(cpu, f):
        sn = cpu.R(f['Rm']) & 0xFF
        op2, sc = P.Shift_C(cpu.R(f['Rn']), 32, t, sn, cpu.C)
        data_proc(cpu, 'MOV', f['Rd'], 0, op2, sc, _sf(f), pc_dest_allowed=False)
    return op


def arm_adr(add):
    def op(cpu, f):
        imm32 = P.ARMExpandImm(f['imm12'])
        base = cpu.pc() & 0xFFFFFFFC
        result = (base + imm32) & M32 if add else (base - imm32) & M32
        cpu.cases([(f['Rd'] == 15, lambda k: k.alu_write_pc(result)), (True, lambda k: k.setR(f['Rd'], result))])
    return op


def arm_movw(cpu, f):
    cpu.setR(f['Rd'], (f['imm4'] << 12) | f['imm12'])


def arm_movt(cpu, f):
    d = f['Rd']
    cpu.setR(d, (((f['imm4'] << 12) | f['imm12']) << 16) | (cpu.R(d) & 0xFFFF))


def any15(f, *names):
    return lor(*[f[n] == 15 for n in names])


def build_arm(T):
    C = 'cond:4'
    not_uncond = lambda f: f['cond'] != 15

    def nm(alu, form):
        base = alu.capitalize()
        return {'reg': base + 'RegisterA1', 'rsr': base + 'RegisterShiftedRegisterA1', 'imm': base + 'ImmediateA1'}[form]
    for code, alu in enumerate(ARM_OPC):
        opc = format(code, '04b')
        cmp_ = alu in COMPARE
        mov_ = alu in ('MOV', 'MVN')
        # ---- register (immediate shift)
        if alu != 'MOV':
            if cmp_:
                pat = '%s 000 %s 1 Rn:4 (0000) imm5:5 type:2 0 Rm:4' % (C, opc)
                when = not_uncond
            elif mov_:
                pat = '%s 000 %s S (0000) Rd:4 imm5:5 type:2 0 Rm:4' % (C, opc)
                when = lambda f: land(f['cond'] != 15, lnot(land(f['Rd'] == 15, f['S'] == 1)))
            else:
                pat = '%s 000 %s S Rn:4 Rd:4 imm5:5 type:2 0 Rm:4' % (C, opc)
                if alu in ('ADD', 'SUB'):
                    when = lambda f: land(f['cond'] != 15, lnot(land(f['Rd'] == 15, f['S'] == 1)), f['Rn'] != 13)
                else:
                    when = lambda f: land(f['cond'] != 15, lnot(land(f['Rd'] == 15, f['S'] == 1)))
            cls = nm(alu, 'reg')
            if alu == 'ADD':
                cls = 'AddRegisterArmA1'
            T.add(cls, 'arm', pat, arm_reg(alu), when=when, family='C01')
            if alu in ('ADD', 'SUB'):
                T.add('AddSpPlusRegisterArmA1' if alu == 'ADD' else 'SubSpMinusRegisterA1', 'arm',
                      '%s 000 %s S 1101 Rd:4 imm5:5 type:2 0 Rm:4' % (C, opc),
                      (lambda alu: lambda cpu, f: arm_reg(alu)(cpu, dict(f, Rn=13)))(alu),
                      when=lambda f: land(f['cond'] != 15, lnot(land(f['Rd'] == 15, f['S'] == 1))), family='C01')
        # ---- register-shifted register
        if alu != 'MOV':
            if cmp_:
                pat = '%s 000 %s 1 Rn:4 (0000) Rs:4 0 type:2 1 Rm:4' % (C, opc)
                up = lambda f, cpu: any15(f, 'Rn', 'Rm', 'Rs')
            elif mov_:
                pat = '%s 000 %s S (0000) Rd:4 Rs:4 0 type:2 1 Rm:4' % (C, opc)
                up = lambda f, cpu: any15(f, 'Rd', 'Rm', 'Rs')
            else:
                pat = '%s 000 %s S Rn:4 Rd:4 Rs:4 0 type:2 1 Rm:4' % (C, opc)
                up = lambda f, cpu: any15(f, 'Rd', 'Rn', 'Rm', 'Rs')
            T.add(nm(alu, 'rsr'), 'arm', pat, arm_rsr(alu), when=not_uncond, unpred=up, family='C01')
        # ---- immediate
        if cmp_:
            pat = '%s 001 %s 1 Rn:4 (0000) imm12:12' % (C, opc)
            when = not_uncond
        elif mov_:
            pat = '%s 001 %s S (0000) Rd:4 imm12:12' % (C, opc)
            when = lambda f: land(f['cond'] != 15, lnot(land(f['Rd'] == 15, f['S'] == 1)))
        else:
            pat = '%s 001 %s S Rn:4 Rd:4 imm12:12' % (C, opc)
            if alu in ('ADD', 'SUB'):
                when = lambda f: land(f['cond'] != 15, lnot(land(f['Rd'] == 15, f['S'] == 1)), f['Rn'] != 13,
                                      lnot(land(f['Rn'] == 15, f['S'] == 0)))
            else:
                when = lambda f: land(f['cond'] != 15, lnot(land(f['Rd'] == 15, f['S'] == 1)))
        cls = nm(alu, 'imm')
        if alu == 'ADD':
            cls = 'AddImmediateArmA1'
        if alu == 'SUB':
            cls = 'SubImmediateArmA1'
        if alu == 'MOV':
            cls = 'MovImmediateA1'
        T.add(cls, 'arm', pat, arm_imm(alu), when=when, family='C01')
        if alu in ('ADD', 'SUB'):
            T.add('AddSpPlusImmediateA1' if alu == 'ADD' else 'SubSpMinusImmediateA1', 'arm',
                  '%s 001 %s S 1101 Rd:4 imm12:12' % (C, opc),
                  (lambda alu: lambda cpu, f: arm_imm(alu)(cpu, dict(f, Rn=13)))(alu),
                  when=lambda f: land(f['cond'] != 15, lnot(land(f['Rd'] == 15, f['S'] == 1))), family='C01')
    # MOV register / shifts by immediate
    nsubs = lambda f: land(f['cond'] != 15, lnot(land(f['Rd'] == 15, f['S'] == 1)))
    T.add('MovRegisterArmA1', 'arm', '%s 0001101 S (0000) Rd:4 00000 00 0 Rm:4' % C, arm_shift_imm(0), when=nsubs, family='C01')
    T.add('LslImmediateA1', 'arm', '%s 0001101 S (0000) Rd:4 imm5:5 00 0 Rm:4' % C, arm_shift_imm(0),
          when=lambda f: land(nsubs(f), f['imm5'] != 0), family='C01')
    T.add('LsrImmediateA1', 'arm', '%s 0001101 S (0000) Rd:4 imm5:5 01 0 Rm:4' % C, arm_shift_imm(1), when=nsubs, family='C01')
    T.add('AsrImmediateA1', 'arm', '%s 0001101 S (0000) Rd:4 imm5:5 10 0 Rm:4' % C, arm_shift_imm(2), when=nsubs, family='C01')
    T.add('RrxA1', 'arm', '%s 0001101 S (0000) Rd:4 00000 11 0 Rm:4' % C, arm_shift_imm(3), when=nsubs, family='C01')
    T.add('RorImmediateA1', 'arm', '%s 0001101 S (0000) Rd:4 imm5:5 11 0 Rm:4' % C, arm_shift_imm(3),
          when=lambda f: land(nsubs(f), f['imm5'] != 0), family='C01')
    for t, nme in enumerate(('Lsl', 'Lsr', 'Asr', 'Ror')):
        T.add(nme + 'RegisterA1', 'arm', '%s 0001101 S (0000) Rd:4 Rm:4 0 %s 1 Rn:4' % (C, format(t, '02b')), arm_shift_reg(t),
              when=not_uncond, unpred=lambda f, cpu: any15(f, 'Rd', 'Rn', 'Rm'), family='C01')
    # ADR, MOVW, MOVT
    T.add('AdrA1', 'arm', '%s 0010 1000 1111 Rd:4 imm12:12' % C, arm_adr(True), when=not_uncond, family='C01')
    T.add('AdrA2', 'arm', '%s 0010 0100 1111 Rd:4 imm12:12' % C, arm_adr(False), when=not_uncond, family='C01')
    T.add('MovImmediateA2', 'arm', '%s 0011 0000 imm4:4 Rd:4 imm12:12' % C, arm_movw, when=not_uncond,
          unpred=lambda f, cpu: f['Rd'] == 15, family='C01')
    T.add('MovtA1', 'arm', '%s 0011 0100 imm4:4 Rd:4 imm12:12' % C, arm_movt, when=not_uncond,
          unpred=lambda f, cpu: f['Rd'] == 15, family='C01')


# ---------------------------------------------------------------------------------------------- Thumb rows

def badreg(x):
    return lor(x == 13, x == 15)


def t_setflags16(cpu):
    return lnot(cpu.in_it_block())


def t16_shift_imm(t):
    def op(cpu, f):
        st, sn = P.DecodeImmShift(t, f['imm5'])
        op2, sc = P.Shift_C(cpu.R(f['Rm']), 32, st, sn, cpu.C)
        data_proc(cpu, 'MOV', f['Rd'], 0, op2, sc, t_setflags16(cpu), pc_dest_allowed=False)
    return op


def t16_alu3(alu, imm=False):
    """ADD/SUB register or 3-bit immediate"""
    def op(cpu, f):
        op2 = f['imm3'] if imm else cpu.R(f['Rm'])
        data_proc(cpu, alu, f['Rd'], cpu.R(f['Rn']), op2, cpu.C, t_setflags16(cpu), pc_dest_allowed=False)
    return op


def t16_imm8(alu):
    def op(cpu, f):
        if alu == 'CMP':
            data_proc(cpu, 'CMP', None, cpu.R(f['Rn']), f['imm8'], cpu.C, True)
        elif alu == 'MOV':
            data_proc(cpu, 'MOV', f['Rd'], 0, f['imm8'], cpu.C, t_setflags16(cpu), pc_dest_allowed=False)
        else:
            data_proc(cpu, alu, f['Rdn'], cpu.R(f['Rdn']), f['imm8'], cpu.C, t_setflags16(cpu), pc_dest_allowed=False)
    return op


def t16_dp(alu):
    """010000 opcode Rm Rdn"""
    def op(cpu, f):
        rdn, rm = f['Rdn'], f['Rm']
        if alu in ('LSL', 'LSR', 'ASR', 'ROR'):
            t = {'LSL': 0, 'LSR': 1, 'ASR': 2, 'ROR': 3}[alu]
            sn = cpu.R(rm) & 0xFF
            op2, sc = P.Shift_C(cpu.R(rdn), 32, t, sn, cpu.C)
            data_proc(cpu, 'MOV', rdn, 0, op2, sc, t_setflags16(cpu), pc_dest_allowed=False)
        elif alu == 'RSB':
            data_proc(cpu, 'RSB', rdn, cpu.R(rm), 0, cpu.C, t_setflags16(cpu), pc_dest_allowed=False)   # Rd = 0 - Rn ; fields: Rn=Rm slot
        elif alu in COMPARE:
            data_proc(cpu, alu, None, cpu.R(rdn), cpu.R(rm), cpu.C, True)
        elif alu == 'MVN':
            data_proc(cpu, 'MVN', rdn, 0, cpu.R(rm), cpu.C, t_setflags16(cpu), pc_dest_allowed=False)
        else:
            data_proc(cpu, alu, rdn, cpu.R(rdn), cpu.R(rm), cpu.C, t_setflags16(cpu), pc_dest_allowed=False)
    return op


def t16_add_hi(cpu, f):
    d = (f['DN'] << 3) | f['Rdn']
    m = f['Rm']
    cpu.UNPREDICTABLE(land(d == 15, m == 15))
    cpu.UNPREDICTABLE(land(d == 15, cpu.in_it_block(), lnot(cpu.last_in_it_block())))
    data_proc(cpu, 'ADD', d, cpu.R(d), cpu.R(m), cpu.C, False)


def t16_cmp_hi(cpu, f):
    n = (f['N'] << 3) | f['Rn']
    m = f['Rm']
    cpu.UNPREDICTABLE(lor(land(n < 8, m < 8), n == 15, m == 15))
    data_proc(cpu, 'CMP', None, cpu.R(n), cpu.R(m), cpu.C, True)


def t16_mov_hi(cpu, f):
    d = (f['D'] << 3) | f['Rd']
    cpu.UNPREDICTABLE(land(d == 15, cpu.in_it_block(), lnot(cpu.last_in_it_block())))
    data_proc(cpu, 'MOV', d, 0, cpu.R(f['Rm']), cpu.C, False)


def t16_mov_lsl0(cpu, f):
    cpu.UNPREDICTABLE(cpu.in_it_block())
    data_proc(cpu, 'MOV', f['Rd'], 0, cpu.R(f['Rm']), cpu.C, True, pc_dest_allowed=False)


def t16_add_sp_reg_t1(cpu, f):
    d = (f['DM'] << 3) | f['Rdm']
    cpu.UNPREDICTABLE(land(d == 15, cpu.in_it_block(), lnot(cpu.last_in_it_block())))
    data_proc(cpu, 'ADD', d, cpu.R(13), cpu.R(d), cpu.C, False)


def t16_add_sp_reg_t2(cpu, f):
    data_proc(cpu, 'ADD', 13, cpu.R(13), cpu.R(f['Rm']), cpu.C, False, pc_dest_allowed=False)


def t16_adr(cpu, f):
    cpu.setR(f['Rd'], ((cpu.pc() & 0xFFFFFFFC) + (f['imm8'] << 2)) & M32)


def t16_add_sp_imm(which):
    def op(cpu, f):
        if which == 'T1':
            data_proc(cpu, 'ADD', f['Rd'], cpu.R(13), f['imm8'] << 2, cpu.C, False, pc_dest_allowed=False)
        elif which == 'T2':
            data_proc(cpu, 'ADD', 13, cpu.R(13), f['imm7'] << 2, cpu.C, False, pc_dest_allowed=False)
        else:
            data_proc(cpu, 'SUB', 13, cpu.R(13), f['imm7'] << 2, cpu.C, False, pc_dest_allowed=False)
    return op


def t32_modimm(alu, rn_fixed=None, cmp_=False):
    def op(cpu, f):
        imm12 = (f['i'] << 11) | (f['imm3'] << 8) | f['imm8']
        op2, sc, up = P.ThumbExpandImm_C(imm12, cpu.C)
        cpu.UNPREDICTABLE(up)
        rn = rn_fixed if rn_fixed is not None else f.get('Rn', 0)
        data_proc(cpu, alu, f.get('Rd'), cpu.R(rn) if alu not in ('MOV', 'MVN') else 0, op2, sc,
                  True if cmp_ else f['S'] == 1, pc_dest_allowed=False)
    return op


def t32_plainimm(alu, rn_fixed=None):
    def op(cpu, f):
        imm = (f['i'] << 11) | (f['imm3'] << 8) | f['imm8']
        rn = rn_fixed if rn_fixed is not None else f['Rn']
        data_proc(cpu, alu, f['Rd'], cpu.R(rn), imm, cpu.C, False, pc_dest_allowed=False)
    return op


def t32_adr(add):
    def op(cpu, f):
        imm = (f['i'] << 11) | (f['imm3'] << 8) | f['imm8']
        base = cpu.pc() & 0xFFFFFFFC
        cpu.setR(f['Rd'], (base + imm) & M32 if add else (base - imm) & M32)
    return op


def t32_movw(cpu, f):
    cpu.setR(f['Rd'], (f['imm4'] << 12) | (f['i'] << 11) | (f['imm3'] << 8) | f['imm8'])


def t32_movt(cpu, f):
    d = f['Rd']
    imm16 = (f['imm4'] << 12) | (f['i'] << 11) | (f['imm3'] << 8) | f['imm8']
    cpu.setR(d, (imm16 << 16) | (cpu.R(d) & 0xFFFF))


def t32_shreg(alu, rn_fixed=None, cmp_=False, extra_unpred=None):
    def op(cpu, f):
        st, sn = P.DecodeImmShift(f['type'], (f['imm3'] << 2) | f['imm2'])
        op2, sc = P.Shift_C(cpu.R(f['Rm']), 32, st, sn, cpu.C)
        rn = rn_fixed if rn_fixed is not None else f.get('Rn', 0)
        if extra_unpred is not None:
            cpu.UNPREDICTABLE(extra_unpred(f, st, sn))
        data_proc(cpu, alu, f.get('Rd'), cpu.R(rn) if alu not in ('MOV', 'MVN') else 0, op2, sc,
                  True if cmp_ else f['S'] == 1, pc_dest_allowed=False)
    return op


def t32_shift_imm(t):
    def op(cpu, f):
        st, sn = P.DecodeImmShift(t, (f['imm3'] << 2) | f['imm2'])
        op2, sc = P.Shift_C(cpu.R(f['Rm']), 32, st, sn, cpu.C)
        data_proc(cpu, 'MOV', f['Rd'], 0, op2, sc, f['S'] == 1, pc_dest_allowed=False)
    return op


def t32_shift_reg(t):
    def op(cpu, f):
        sn = cpu.R(f['Rm']) & 0xFF
        op2, sc = P.Shift_C(cpu.R(f['Rn']), 32, t, sn, cpu.C)
        data_proc(cpu, 'MOV', f['Rd'], 0, op2, sc, f['S'] == 1, pc_dest_allowed=False)
    return op


def build_thumb(T):
    t16 = lambda cls, pat, op, **kw: T.add(cls, 't16', pat, op, family='C01', **kw)
    t32 = lambda cls, pat, op, **kw: T.add(cls, 't32', pat, op, family='C01', **kw)
    # ---- A6.2.1
    t16('LslImmediateT1', '000 00 imm5:5 Rm:3 Rd:3', t16_shift_imm(0), when=lambda f: f['imm5'] != 0)
    t16('MovRegisterThumbT2', '000 00 00000 Rm:3 Rd:3', t16_mov_lsl0)
    t16('LsrImmediateT1', '000 01 imm5:5 Rm:3 Rd:3', t16_shift_imm(1))
    t16('AsrImmediateT1', '000 10 imm5:5 Rm:3 Rd:3', t16_shift_imm(2))
    t16('AddRegisterThumbT1', '000 11 0 0 Rm:3 Rn:3 Rd:3', t16_alu3('ADD'))
    t16('SubRegisterT1', '000 11 0 1 Rm:3 Rn:3 Rd:3', t16_alu3('SUB'))
    t16('AddImmediateThumbT1', '000 11 1 0 imm3:3 Rn:3 Rd:3', t16_alu3('ADD', True))
    t16('SubImmediateThumbT1', '000 11 1 1 imm3:3 Rn:3 Rd:3', t16_alu3('SUB', True))
    t16('MovImmediateT1', '001 00 Rd:3 imm8:8', t16_imm8('MOV'))
    t16('CmpImmediateT1', '001 01 Rn:3 imm8:8', t16_imm8('CMP'))
    t16('AddImmediateThumbT2', '001 10 Rdn:3 imm8:8', t16_imm8('ADD'))
    t16('SubImmediateThumbT2', '001 11 Rdn:3 imm8:8', t16_imm8('SUB'))
    # ---- A6.2.2
    names = {0: ('AND', 'AndRegisterT1'), 1: ('EOR', 'EorRegisterT1'), 2: ('LSL', 'LslRegisterT1'), 3: ('LSR', 'LsrRegisterT1'),
             4: ('ASR', 'AsrRegisterT1'), 5: ('ADC', 'AdcRegisterT1'), 6: ('SBC', 'SbcRegisterT1'), 7: ('ROR', 'RorRegisterT1'),
             8: ('TST', 'TstRegisterT1'), 9: ('RSB', 'RsbImmediateT1'), 10: ('CMP', 'CmpRegisterT1'), 11: ('CMN', 'CmnRegisterT1'),
             12: ('ORR', 'OrrRegisterT1'), 14: ('BIC', 'BicRegisterT1'), 15: ('MVN', 'MvnRegisterT1')}
    for code, (alu, cls) in names.items():
        t16(cls, '010000 %s Rm:3 Rdn:3' % format(code, '04b'), t16_dp(alu))
    # ---- A6.2.3
    t16('AddRegisterThumbT2', '010001 00 DN Rm:4 Rdn:3', t16_add_hi,
        when=lambda f: land(((f['DN'] << 3) | f['Rdn']) != 13, f['Rm'] != 13))
    t16('AddSpPlusRegisterThumbT1', '010001 00 DM 1101 Rdm:3', t16_add_sp_reg_t1)
    t16('AddSpPlusRegisterThumbT2', '010001 00 1 Rm:4 101', t16_add_sp_reg_t2, when=lambda f: f['Rm'] != 13)
    t16('CmpRegisterT2', '010001 01 N Rm:4 Rn:3', t16_cmp_hi)
    t16('MovRegisterThumbT1', '010001 10 D Rm:4 Rd:3', t16_mov_hi)
    t16('AdrT1', '10100 Rd:3 imm8:8', t16_adr)
    t16('AddSpPlusImmediateT1', '10101 Rd:3 imm8:8', t16_add_sp_imm('T1'))
    t16('AddSpPlusImmediateT2', '1011 0000 0 imm7:7', t16_add_sp_imm('T2'))
    t16('SubSpMinusImmediateT1', '1011 0000 1 imm7:7', t16_add_sp_imm('SUB'))
    # ---- A6.3.1 modified immediate
    MI = '11110 i 0 %s %s %s 0 imm3:3 %s imm8:8'
    d13 = lambda f: f['Rd'] == 13
    d15s0 = lambda f: land(f['Rd'] == 15, f['S'] == 0)
    not_cmp = lambda f: lnot(land(f['Rd'] == 15, f['S'] == 1))
    t32('AndImmediateT1', MI % ('0000', 'S', 'Rn:4', 'Rd:4'), t32_modimm('AND'), when=not_cmp,
        unpred=lambda f, c: lor(d13(f), d15s0(f), badreg(f['Rn'])))
    t32('TstImmediateT1', MI % ('0000', '1', 'Rn:4', '1111'), t32_modimm('TST', cmp_=True), unpred=lambda f, c: badreg(f['Rn']))
    t32('BicImmediateT1', MI % ('0001', 'S', 'Rn:4', 'Rd:4'), t32_modimm('BIC'), unpred=lambda f, c: lor(badreg(f['Rd']), badreg(f['Rn'])))
    t32('OrrImmediateT1', MI % ('0010', 'S', 'Rn:4', 'Rd:4'), t32_modimm('ORR'), when=lambda f: f['Rn'] != 15,
        unpred=lambda f, c: lor(badreg(f['Rd']), f['Rn'] == 13))
    t32('MovImmediateT2', MI % ('0010', 'S', '1111', 'Rd:4'), t32_modimm('MOV'), unpred=lambda f, c: badreg(f['Rd']))
    t32('OrnImmediateT1', MI % ('0011', 'S', 'Rn:4', 'Rd:4'), t32_modimm('ORN'), when=lambda f: f['Rn'] != 15,
        unpred=lambda f, c: lor(badreg(f['Rd']), f['Rn'] == 13))
    t32('MvnImmediateT1', MI % ('0011', 'S', '1111', 'Rd:4'), t32_modimm('MVN'), unpred=lambda f, c: badreg(f['Rd']))
    t32('EorImmediateT1', MI % ('0100', 'S', 'Rn:4', 'Rd:4'), t32_modimm('EOR'), when=not_cmp,
        unpred=lambda f, c: lor(d13(f), d15s0(f), badreg(f['Rn'])))
    t32('TeqImmediateT1', MI % ('0100', '1', 'Rn:4', '1111'), t32_modimm('TEQ', cmp_=True), unpred=lambda f, c: badreg(f['Rn']))
    t32('AddImmediateThumbT3', MI % ('1000', 'S', 'Rn:4', 'Rd:4'), t32_modimm('ADD'), when=lambda f: land(not_cmp(f), f['Rn'] != 13),
        unpred=lambda f, c: lor(d13(f), d15s0(f), f['Rn'] == 15))
    t32('AddSpPlusImmediateT3', MI % ('1000', 'S', '1101', 'Rd:4'), t32_modimm('ADD', rn_fixed=13), when=not_cmp,
        unpred=lambda f, c: d15s0(f))
    t32('CmnImmediateT1', MI % ('1000', '1', 'Rn:4', '1111'), t32_modimm('CMN', cmp_=True), unpred=lambda f, c: f['Rn'] == 15)
    t32('AdcImmediateT1', MI % ('1010', 'S', 'Rn:4', 'Rd:4'), t32_modimm('ADC'), unpred=lambda f, c: lor(badreg(f['Rd']), badreg(f['Rn'])))
    t32('SbcImmediateT1', MI % ('1011', 'S', 'Rn:4', 'Rd:4'), t32_modimm('SBC'), unpred=lambda f, c: lor(badreg(f['Rd']), badreg(f['Rn'])))
    t32('SubImmediateThumbT3', MI % ('1101', 'S', 'Rn:4', 'Rd:4'), t32_modimm('SUB'), when=lambda f: land(not_cmp(f), f['Rn'] != 13),
        unpred=lambda f, c: lor(d13(f), d15s0(f), f['Rn'] == 15))
    t32('SubSpMinusImmediateT2', MI % ('1101', 'S', '1101', 'Rd:4'), t32_modimm('SUB', rn_fixed=13), when=not_cmp,
        unpred=lambda f, c: d15s0(f))
    t32('CmpImmediateT2', MI % ('1101', '1', 'Rn:4', '1111'), t32_modimm('CMP', cmp_=True), unpred=lambda f, c: f['Rn'] == 15)
    t32('RsbImmediateT2', MI % ('1110', 'S', 'Rn:4', 'Rd:4'), t32_modimm('RSB'), unpred=lambda f, c: lor(badreg(f['Rd']), badreg(f['Rn'])))
    # ---- A6.3.3 plain binary immediate
    PB = '11110 i 1 %s %s 0 imm3:3 Rd:4 imm8:8'
    t32('AddImmediateThumbT4', PB % ('00000', 'Rn:4'), t32_plainimm('ADD'), when=lambda f: land(f['Rn'] != 15, f['Rn'] != 13),
        unpred=lambda f, c: badreg(f['Rd']))
    t32('AdrT3', PB % ('00000', '1111'), t32_adr(True), unpred=lambda f, c: badreg(f['Rd']))
    t32('AddSpPlusImmediateT4', PB % ('00000', '1101'), t32_plainimm('ADD', rn_fixed=13), unpred=lambda f, c: f['Rd'] == 15)
    t32('MovImmediateT3', PB % ('00100', 'imm4:4'), t32_movw, unpred=lambda f, c: badreg(f['Rd']))
    t32('SubImmediateThumbT4', PB % ('01010', 'Rn:4'), t32_plainimm('SUB'), when=lambda f: land(f['Rn'] != 15, f['Rn'] != 13),
        unpred=lambda f, c: badreg(f['Rd']))
    t32('AdrT2', PB % ('01010', '1111'), t32_adr(False), unpred=lambda f, c: badreg(f['Rd']))
    t32('SubSpMinusImmediateT3', PB % ('01010', '1101'), t32_plainimm('SUB', rn_fixed=13), unpred=lambda f, c: f['Rd'] == 15)
    t32('MovtT1', PB % ('01100', 'imm4:4'), t32_movt, unpred=lambda f, c: badreg(f['Rd']))
    # ---- A6.3.11 shifted register
    SR = '11101 01 %s %s %s (0) imm3:3 %s imm2:2 type:2 Rm:4'
    bm = lambda f: badreg(f['Rm'])
    t32('AndRegisterT2', SR % ('0000', 'S', 'Rn:4', 'Rd:4'), t32_shreg('AND'), when=not_cmp,
        unpred=lambda f, c: lor(d13(f), d15s0(f), badreg(f['Rn']), bm(f)))
    t32('TstRegisterT2', SR % ('0000', '1', 'Rn:4', '1111'), t32_shreg('TST', cmp_=True), unpred=lambda f, c: lor(badreg(f['Rn']), bm(f)))
    t32('BicRegisterT2', SR % ('0001', 'S', 'Rn:4', 'Rd:4'), t32_shreg('BIC'), unpred=lambda f, c: lor(badreg(f['Rd']), badreg(f['Rn']), bm(f)))
    t32('OrrRegisterT2', SR % ('0010', 'S', 'Rn:4', 'Rd:4'), t32_shreg('ORR'), when=lambda f: f['Rn'] != 15,
        unpred=lambda f, c: lor(badreg(f['Rd']), f['Rn'] == 13, bm(f)))
    MVS = '11101 01 0010 S 1111 (0) %s Rd:4 %s %s Rm:4'
    t32('MovRegisterThumbT3', MVS % ('000', '00', '00'), t32_shift_imm(0) if False else (lambda cpu, f: data_proc(cpu, 'MOV', f['Rd'], 0, cpu.R(f['Rm']), cpu.C, f['S'] == 1, pc_dest_allowed=False)),
        unpred=lambda f, c: lor(land(f['S'] == 1, lor(badreg(f['Rd']), bm(f))),
                                land(f['S'] == 0, lor(f['Rd'] == 15, f['Rm'] == 15, land(f['Rd'] == 13, f['Rm'] == 13)))))
    sh_up = lambda f, c: lor(badreg(f['Rd']), bm(f))
    nz = lambda f: ((f['imm3'] << 2) | f['imm2']) != 0
    t32('LslImmediateT2', MVS % ('imm3:3', 'imm2:2', '00'), t32_shift_imm(0), when=nz, unpred=sh_up)
    t32('LsrImmediateT2', MVS % ('imm3:3', 'imm2:2', '01'), t32_shift_imm(1), unpred=sh_up)
    t32('AsrImmediateT2', MVS % ('imm3:3', 'imm2:2', '10'), t32_shift_imm(2), unpred=sh_up)
    t32('RrxT1', MVS % ('000', '00', '11'), lambda cpu, f: t32_shift_imm(3)(cpu, dict(f, imm3=0, imm2=0)), unpred=sh_up)
    t32('RorImmediateT1', MVS % ('imm3:3', 'imm2:2', '11'), t32_shift_imm(3), when=nz, unpred=sh_up)
    t32('OrnRegisterT1', SR % ('0011', 'S', 'Rn:4', 'Rd:4'), t32_shreg('ORN'), when=lambda f: f['Rn'] != 15,
        unpred=lambda f, c: lor(badreg(f['Rd']), f['Rn'] == 13, bm(f)))
    t32('MvnRegisterT2', SR % ('0011', 'S', '1111', 'Rd:4'), t32_shreg('MVN'), unpred=lambda f, c: lor(badreg(f['Rd']), bm(f)))
    t32('EorRegisterT2', SR % ('0100', 'S', 'Rn:4', 'Rd:4'), t32_shreg('EOR'), when=not_cmp,
        unpred=lambda f, c: lor(d13(f), d15s0(f), badreg(f['Rn']), bm(f)))
    t32('TeqRegisterT1', SR % ('0100', '1', 'Rn:4', '1111'), t32_shreg('TEQ', cmp_=True), unpred=lambda f, c: lor(badreg(f['Rn']), bm(f)))
    t32('AddRegisterThumbT3', SR % ('1000', 'S', 'Rn:4', 'Rd:4'), t32_shreg('ADD'), when=lambda f: land(not_cmp(f), f['Rn'] != 13),
        unpred=lambda f, c: lor(d13(f), d15s0(f), f['Rn'] == 15, bm(f)))
    sp_up = lambda f, st, sn: land(f['Rd'] == 13, lor(st != P.LSL, sn > 3))
    t32('AddSpPlusRegisterThumbT3', SR % ('1000', 'S', '1101', 'Rd:4'), t32_shreg('ADD', rn_fixed=13, extra_unpred=sp_up), when=not_cmp,
        unpred=lambda f, c: lor(f['Rd'] == 15, bm(f)))
    t32('CmnRegisterT2', SR % ('1000', '1', 'Rn:4', '1111'), t32_shreg('CMN', cmp_=True), unpred=lambda f, c: lor(f['Rn'] == 15, bm(f)))
    t32('AdcRegisterT2', SR % ('1010', 'S', 'Rn:4', 'Rd:4'), t32_shreg('ADC'), unpred=lambda f, c: lor(badreg(f['Rd']), badreg(f['Rn']), bm(f)))
    t32('SbcRegisterT2', SR % ('1011', 'S', 'Rn:4', 'Rd:4'), t32_shreg('SBC'), unpred=lambda f, c: lor(badreg(f['Rd']), badreg(f['Rn']), bm(f)))
    t32('SubRegisterT2', SR % ('1101', 'S', 'Rn:4', 'Rd:4'), t32_shreg('SUB'), when=lambda f: land(not_cmp(f), f['Rn'] != 13),
        unpred=lambda f, c: lor(d13(f), d15s0(f), f['Rn'] == 15, bm(f)))
    t32('SubSpMinusRegisterT1', SR % ('1101', 'S', '1101', 'Rd:4'), t32_shreg('SUB', rn_fixed=13, extra_unpred=sp_up), when=not_cmp,
        unpred=lambda f, c: lor(f['Rd'] == 15, bm(f)))
    t32('CmpRegisterT3', SR % ('1101', '1', 'Rn:4', '1111'), t32_shreg('CMP', cmp_=True), unpred=lambda f, c: lor(f['Rn'] == 15, bm(f)))
    t32('RsbRegisterT1', SR % ('1110', 'S', 'Rn:4', 'Rd:4'), t32_shreg('RSB'), unpred=lambda f, c: lor(badreg(f['Rd']), badreg(f['Rn']), bm(f)))
    # ---- A6.3.12 register shifts
    for t, nme in enumerate(('Lsl', 'Lsr', 'Asr', 'Ror')):
        t32(nme + 'RegisterT2', '11111 010 0 %s S Rn:4 1111 Rd:4 0000 Rm:4' % format(t, '02b'), t32_shift_reg(t),
            unpred=lambda f, c: lor(badreg(f['Rd']), badreg(f['Rn']), bm(f)))
