"""System instructions (C12): MRS, MSR, CPS, SETEND, exception returns (SUBS PC,LR / ERET), hints and events.
ARM ARM B9.3.8-B9.3.12 (MRS/MSR system level), A8.8.109-112 (application level), B9.3.2 CPS, A8.8.153 SETEND,
B9.3.19-20 SUBS PC,LR, B9.3.3 ERET, A8.8.120/424-428 hints."""
from .rt import ite, land, lor, lnot, bits, bit, b2i, M32
from . import prims as P
from . import state as ST
from . import psr as PSR
from .ops_dp import alu_eval


def badreg(x):
    return lor(x == 13, x == 15)


def op_mrs(cpu, d, read_spsr):
    def spsr(k):
        k.UNPREDICTABLE(lor(k.mode() == ST.USR, k.mode() == ST.SYS))
        k.setR(d, k.SPSR())

    def cpsr(k):
        # CPSR with the execution-state bits masked; in User mode M and E/A/I/F read as UNKNOWN
        k.setR(d, k.cpsr & 0xF8FF03DF)
        k.unknown_bits_R(d, ite(k.mode() == ST.USR, 0x000003DF, 0))
    cpu.cases([(read_spsr, spsr), (True, cpsr)])


def op_msr_app(cpu, value, write_nzcvq, write_g):
    c = cpu.cpsr
    c = ite(write_nzcvq, (c & 0x07FFFFFF) | (value & 0xF8000000), c)
    c = ite(write_g, (c & 0xFFF0FFFF) | (value & 0x000F0000), c)
    cpu.cpsr = c


def hyp_jt_unpred(cpu):
    c = cpu.cpsr
    cpu.UNPREDICTABLE(land(bits(c, 4, 0) == ST.HYP, bit(c, 24) == 1, bit(c, 5) == 1))


def op_msr_sys(cpu, value, mask, write_spsr):
    def spsr(k):
        _, unp, _ = PSR.spsr_write_by_instr(k.st, value, mask)
        k.UNPREDICTABLE(unp)

    def cpsr(k):
        _, unp, _ = PSR.cpsr_write_by_instr(k.st, value, mask, False)
        k.UNPREDICTABLE(unp)
        hyp_jt_unpred(k)
    cpu.cases([(write_spsr, spsr), (True, cpsr)])


def op_cps(cpu, enable, disable, a, i, f, change_mode, mode):
    """no condition; no effect in User mode"""
    def priv(k):
        v = k.cpsr
        for affect, pos in ((a, 8), (i, 7), (f, 6)):
            v = ite(land(enable, affect), v & ~(1 << pos) & M32, v)
            v = ite(land(disable, affect), v | (1 << pos), v)
        v = ite(change_mode, (v & ~0x1F & M32) | mode, v)
        _, unp, _ = PSR.cpsr_write_by_instr(k.st, v, 0b1111, False)
        k.UNPREDICTABLE(unp)
        hyp_jt_unpred(k)
    cpu.when(cpu.mode() != ST.USR, priv)


def op_setend(cpu, e):
    cpu.cpsr = ST.cpsr_with(cpu.cpsr, e=e)


def op_subs_pc_lr_arm(cpu, opcode, n, op2):
    cpu.UNDEFINED(cpu.mode() == ST.HYP)
    cpu.UNPREDICTABLE(lor(cpu.mode() == ST.USR, cpu.mode() == ST.SYS))
    rn = cpu.R(n)
    names = {0: 'AND', 1: 'EOR', 2: 'SUB', 3: 'RSB', 4: 'ADD', 5: 'ADC', 6: 'SBC', 7: 'RSC', 12: 'ORR', 13: 'MOV', 14: 'BIC', 15: 'MVN'}
    result = 0
    for code, nm in names.items():
        result = ite(opcode == code, alu_eval(nm, rn, op2, cpu.C)[0], result)
    cpu.exception_return(cpu.SPSR(), result)


def op_subs_pc_lr_thumb(cpu, n, imm32):
    # Hyp mode with a non-zero immediate: left undecided here (UNDEFINED in the Virtualization Extensions text; the
    # implementation executes it) - not compared
    cpu.UNPREDICTABLE(cpu.mode() == ST.HYP)
    cpu.UNPREDICTABLE(lor(cpu.mode() == ST.USR, cpu.mode() == ST.SYS))
    result = P.AddWithCarry(cpu.R(n), imm32 ^ M32, 1)[0]
    cpu.exception_return(cpu.SPSR(), result)


def op_eret(cpu):
    cpu.UNPREDICTABLE(lor(cpu.mode() == ST.USR, cpu.mode() == ST.SYS))
    new_pc = ite(cpu.mode() == ST.HYP, cpu.st['elr_hyp'], cpu.R(14))
    cpu.exception_return(cpu.SPSR(), new_pc)


def trap_to_hyp(cpu, bitpos):
    """HCR.{TWI,TWE} traps (Virtualization Extensions, Non-secure, not Hyp mode)"""
    return land(cpu.cfg('have_virt_ext'), lnot(ST.is_secure(cpu.st)), cpu.mode() != ST.HYP, bit(cpu.st['hcr'], bitpos) == 1)


def op_wfe(cpu):
    ev = cpu.st['event_register']

    def wait(k):
        k.UNDEFINED(trap_to_hyp(k, 14))          # "an exception is taken instead" (Hyp Trap): must not execute normally
        k.st['cpu.is_wait_for_event'] = True
    cpu.cases([(ev, lambda k: k.st.__setitem__('event_register', False)), (True, wait)])


def op_wfi(cpu):
    cpu.UNDEFINED(trap_to_hyp(cpu, 13))          # Hyp Trap instead of normal execution
    cpu.st['cpu.is_wait_for_interrupt'] = True


def build(T):
    C = 'cond:4'
    nu = lambda f: f['cond'] != 15
    arm = lambda cls, pat, op, **kw: T.add(cls, 'arm', pat, op, family='C12', **kw)
    t16 = lambda cls, pat, op, **kw: T.add(cls, 't16', pat, op, family='C12', **kw)
    t32 = lambda cls, pat, op, **kw: T.add(cls, 't32', pat, op, family='C12', **kw)
    # ---- MRS / MSR
    arm('MrsApplicationA1', '%s 00010 0 00 (1111) Rd:4 (00) 0 (0) 0000 (0000)' % C, lambda c, f: op_mrs(c, f['Rd'], False), when=nu,
        unpred=lambda f, c: f['Rd'] == 15)
    arm('MrsSystemA1', '%s 00010 1 00 (1111) Rd:4 (00) 0 (0) 0000 (0000)' % C, lambda c, f: op_mrs(c, f['Rd'], True), when=nu,
        unpred=lambda f, c: f['Rd'] == 15)
    app = lambda f: bits(f['mask'], 1, 0) == 0
    arm('MsrRegisterApplicationA1', '%s 00010 0 10 mask:4 (1111) (00) 0 (0) 0000 Rn:4' % C,
        lambda c, f: op_msr_app(c, c.R(f['Rn']), bit(f['mask'], 3) == 1, bit(f['mask'], 2) == 1), when=lambda f: land(nu(f), app(f)),
        unpred=lambda f, c: lor(f['Rn'] == 15, f['mask'] == 0))
    arm('MsrRegisterSystemA1', '%s 00010 R 10 mask:4 (1111) (00) 0 (0) 0000 Rn:4' % C,
        lambda c, f: op_msr_sys(c, c.R(f['Rn']), f['mask'], f['R'] == 1), when=lambda f: land(nu(f), lor(f['R'] == 1, lnot(app(f)))),
        unpred=lambda f, c: lor(f['Rn'] == 15, f['mask'] == 0))
    arm('MsrImmediateApplicationA1', '%s 00110 0 10 mask:4 (1111) imm12:12' % C,
        lambda c, f: op_msr_app(c, P.ARMExpandImm(f['imm12']), bit(f['mask'], 3) == 1, bit(f['mask'], 2) == 1),
        when=lambda f: land(nu(f), app(f), f['mask'] != 0))
    arm('MsrImmediateSystemA1', '%s 00110 R 10 mask:4 (1111) imm12:12' % C,
        lambda c, f: op_msr_sys(c, P.ARMExpandImm(f['imm12']), f['mask'], f['R'] == 1),
        when=lambda f: land(nu(f), lor(f['R'] == 1, lnot(app(f)))), unpred=lambda f, c: f['mask'] == 0)
    t32('MrsApplicationT1', '11110 0 1111 1 0 (1111) 10 (0) 0 Rd:4 (00) 0 (0) (0000)', lambda c, f: op_mrs(c, f['Rd'], False),
        unpred=lambda f, c: badreg(f['Rd']))
    t32('MrsSystemT1', '11110 0 1111 1 1 (1111) 10 (0) 0 Rd:4 (00) 0 (0) (0000)', lambda c, f: op_mrs(c, f['Rd'], True),
        unpred=lambda f, c: badreg(f['Rd']))
    t32('MsrRegisterApplicationT1', '11110 0 1110 0 0 Rn:4 10 (0) 0 mask:4 (00) 0 (0) (0000)',
        lambda c, f: op_msr_app(c, c.R(f['Rn']), bit(f['mask'], 3) == 1, bit(f['mask'], 2) == 1), when=app,
        unpred=lambda f, c: lor(badreg(f['Rn']), f['mask'] == 0))
    t32('MsrRegisterSystemT1', '11110 0 1110 0 R Rn:4 10 (0) 0 mask:4 (00) 0 (0) (0000)',
        lambda c, f: op_msr_sys(c, c.R(f['Rn']), f['mask'], f['R'] == 1), when=lambda f: lor(f['R'] == 1, lnot(app(f))),
        unpred=lambda f, c: lor(badreg(f['Rn']), f['mask'] == 0))
    # ---- CPS / SETEND (unconditional; UNPREDICTABLE in an IT block)
    def cps_fields(imod, M):
        return imod == 0b10, imod == 0b11, M == 1
    cps_up = lambda f, c: lor(land(f['mode'] != 0, f['M'] == 0), land(bit(f['imod'], 1) == 1, land(f['A'] == 0, f['I'] == 0, f['F'] == 0)),
                              land(bit(f['imod'], 1) == 0, lor(f['A'] == 1, f['I'] == 1, f['F'] == 1)),
                              f['imod'] == 0b01, land(f['imod'] == 0, f['M'] == 0))

    def cps_op(c, f):
        en, dis, ch = cps_fields(f['imod'], f['M'])
        op_cps(c, en, dis, f['A'] == 1, f['I'] == 1, f['F'] == 1, ch, f['mode'])
    r = arm('CpsArmA1', '1111 00010000 imod:2 M 0 (0000000) A I F 0 mode:5', cps_op, unpred=cps_up)
    r.unconditional = True
    r = arm('SetendA1', '1111 00010000 (000) 1 (000000) E (0) 0000 (0000)', lambda c, f: op_setend(c, f['E']))
    r.unconditional = True
    in_it = lambda f, c: c.in_it_block()
    r = t16('CpsThumbT1', '1011 0110 011 im (0) A I F',
            lambda c, f: op_cps(c, f['im'] == 0, f['im'] == 1, f['A'] == 1, f['I'] == 1, f['F'] == 1, False, 0),
            unpred=lambda f, c: lor(c.in_it_block(), land(f['A'] == 0, f['I'] == 0, f['F'] == 0)))
    r.unconditional = True
    r = t16('SetendT1', '1011 0110 010 (1) E (000)', lambda c, f: op_setend(c, f['E']), unpred=in_it)
    r.unconditional = True
    r = t32('CpsThumbT2', '11110 0 1110 1 0 (1111) 10 (0) 0 (0) imod:2 M A I F mode:5', cps_op,
            unpred=lambda f, c: lor(cps_up(f, c), c.in_it_block()), when=lambda f: lor(f['imod'] != 0, f['M'] == 1))
    r.unconditional = True
    # ---- exception return (the ARM forms are the data-processing encodings with S = 1 and Rd = PC: "the special rules when
    # the destination is the PC" of C01 as well)
    arm('SubsPcLrArmA1', '%s 001 opcode:4 1 Rn:4 1111 imm12:12' % C,
        lambda c, f: op_subs_pc_lr_arm(c, f['opcode'], f['Rn'], P.ARMExpandImm(f['imm12'])), when=nu,
        unpred=lambda f, c: land(bits(f['opcode'], 3, 2) == 0b10))          # TST/TEQ/CMP/CMN space with Rd = PC
    arm('SubsPcLrArmA2', '%s 000 opcode:4 1 Rn:4 1111 imm5:5 type:2 0 Rm:4' % C,
        lambda c, f: op_subs_pc_lr_arm(c, f['opcode'], f['Rn'], P.Shift(c.R(f['Rm']), 32, *P.DecodeImmShift(f['type'], f['imm5']), c.C)),
        when=nu, unpred=lambda f, c: bits(f['opcode'], 3, 2) == 0b10)
    t32('SubsPcLrThumbT1', '11110 0 1111 0 1 (1110) 10 (0) 0 (1111) imm8:8', lambda c, f: op_subs_pc_lr_thumb(c, 14, f['imm8']),
        when=lambda f: f['imm8'] != 0, unpred=lambda f, c: land(c.in_it_block(), lnot(c.last_in_it_block())))
    t32('EretT1', '11110 0 1111 0 1 (1110) 10 (0) 0 (1111) 00000000', lambda c, f: op_eret(c),
        unpred=lambda f, c: land(c.in_it_block(), lnot(c.last_in_it_block())))
    # ---- hints
    nop = lambda c, f: None
    arm('NopA1', '%s 00110 0 10 0000 (1111) (0000) 00000000' % C, nop, when=nu)
    arm('WfeA1', '%s 00110 0 10 0000 (1111) (0000) 00000010' % C, lambda c, f: op_wfe(c), when=nu)
    arm('WfiA1', '%s 00110 0 10 0000 (1111) (0000) 00000011' % C, lambda c, f: op_wfi(c), when=nu)
    t16('NopT1', '1011 1111 0000 0000', nop)
    t16('WfeT1', '1011 1111 0010 0000', lambda c, f: op_wfe(c))
    t16('WfiT1', '1011 1111 0011 0000', lambda c, f: op_wfi(c))
    t32('NopT2', '11110 0 1110 1 0 (1111) 10 (0) 0 (0) 000 00000000', nop)
    t32('WfeT2', '11110 0 1110 1 0 (1111) 10 (0) 0 (0) 000 00000010', lambda c, f: op_wfe(c))
    t32('WfiT2', '11110 0 1110 1 0 (1111) 10 (0) 0 (0) 000 00000011', lambda c, f: op_wfi(c))
