"""PSR write rules (ARM ARM B1.3.3 CPSRWriteByInstr / SPSRWriteByInstr) and condition evaluation (A8.3)."""
from .rt import ite, land, lor, lnot, bits, bit, M32
from . import state as ST
from .prims import ConditionHolds


def cpsr_write_by_instr(st, value, bytemask, is_excpt_return):
    """returns (None, unpredictable, None); st['cpsr'] updated.  Each permitted bit is taken from `value`,
    every other bit of the CPSR keeps its old value."""
    c = st['cpsr']
    m = bits(c, 4, 0)
    priv = m != ST.USR
    er = is_excpt_return
    sec = ST.is_secure(st)
    virt = st['cfg.have_virt_ext']
    scr = st['scr']
    nmfi = bit(st['sctlr'], 27) == 1
    b3, b2, b1, b0 = bit(bytemask, 3) == 1, bit(bytemask, 2) == 1, bit(bytemask, 1) == 1, bit(bytemask, 0) == 1
    vm = bits(value, 4, 0)
    bad = ST.bad_mode(vm, st['cfg.have_security_ext'], virt)
    mode_unpred = lor(bad,
                      land(lnot(sec), vm == ST.MON),
                      land(lnot(sec), vm == ST.FIQ, bit(st['nsacr'], 19) == 1),
                      land(bit(scr, 0) == 0, vm == ST.HYP),
                      land(lnot(sec), m != ST.HYP, vm == ST.HYP),
                      land(m == ST.HYP, vm != ST.HYP, lnot(er)))
    mask = 0
    mask = mask | ite(b3, 0xF8000000, 0) | ite(land(b3, er), 0x07000000, 0)
    mask = mask | ite(b2, 0x000F0000, 0)
    mask = mask | ite(land(b1, er), 0x0000FC00, 0) | ite(b1, 0x00000200, 0)
    mask = mask | ite(land(b1, priv, lor(sec, bit(scr, 5) == 1, virt)), 0x00000100, 0)
    mask = mask | ite(land(b0, priv), 0x00000080, 0)
    mask = mask | ite(land(b0, priv, lor(lnot(nmfi), bit(value, 6) == 0), lor(sec, bit(scr, 4) == 1, virt)), 0x00000040, 0)
    mask = mask | ite(land(b0, er), 0x00000020, 0)
    mask = mask | ite(land(b0, priv, lnot(mode_unpred)), 0x0000001F, 0)
    st['cpsr'] = (c & (mask ^ M32)) | (value & mask)
    if 'it_state_restored' in st:
        # implementation scratch flag: the IT bits were loaded by an exception return (execute_instruction then does not advance them)
        st['it_state_restored'] = lor(st['it_state_restored'], land(b1, er))
    unpred = land(b0, priv, mode_unpred)
    return None, unpred, None


def spsr_write_by_instr(st, value, bytemask):
    m = bits(st['cpsr'], 4, 0)
    unpred = lor(m == ST.USR, m == ST.SYS)
    b3, b2, b1, b0 = bit(bytemask, 3) == 1, bit(bytemask, 2) == 1, bit(bytemask, 1) == 1, bit(bytemask, 0) == 1
    vm = bits(value, 4, 0)
    bad = ST.bad_mode(vm, st['cfg.have_security_ext'], st['cfg.have_virt_ext'])
    mask = ite(b3, 0xFF000000, 0) | ite(b2, 0x000F0000, 0) | ite(b1, 0x0000FF00, 0) | ite(b0, 0x000000E0, 0) | \
        ite(land(b0, lnot(bad)), 0x0000001F, 0)
    old = ST.spsr_get(st, m)
    new = (old & (mask ^ M32)) | (value & mask)
    ST.spsr_set(st, m, new)
    return None, lor(unpred, land(b0, bad)), None


def current_cond(iset, instr, oplen, cpsr):
    """CurrentCond(): (cond, unpredictable).  iset: 'arm' | 'thumb'; oplen 16 | 32 (may be symbolic for thumb)"""
    it = ST.cpsr_field(cpsr, 'it')
    itcond = ite(bits(it, 3, 0) != 0, bits(it, 7, 4), 0b1110)
    it_unpred = land(bits(it, 3, 0) == 0, it != 0)
    if iset == 'arm':
        return bits(instr, 31, 28), False
    is_b_t1 = land(oplen == 16, bits(instr, 15, 12) == 0b1101, bits(instr, 11, 9) != 0b111)
    is_b_t3 = land(oplen == 32, bits(instr, 31, 27) == 0b11110, bits(instr, 15, 14) == 0b10, bit(instr, 12) == 0,
                   bits(instr, 25, 23) != 0b111)
    own = lor(is_b_t1, is_b_t3)
    return ite(is_b_t1, bits(instr, 11, 8), ite(is_b_t3, bits(instr, 25, 22), itcond)), land(lnot(own), it_unpred)


def condition_passed(iset, instr, oplen, cpsr):
    cond, unp = current_cond(iset, instr, oplen, cpsr)
    return ConditionHolds(cond, bit(cpsr, 31), bit(cpsr, 30), bit(cpsr, 29), bit(cpsr, 28)), unp


def it_advance(it):
    return ite(bits(it, 2, 0) == 0, 0, (it & 0xE0) | ((it << 1) & 0x1F))
