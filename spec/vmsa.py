"""VMSA stage-1 translation with the Short-descriptor format (ARM ARM B3.5, pseudocode B3.19: TranslateAddressV,
TranslationTableWalkSD, CheckDomain, CheckPermission, RemappedTEXDecode, FCSETranslate, EncodeSDFSR, DataAbort).

`rd(pa)` is the 32-bit little-endian word of physical memory at pa (an uninterpreted function in proofs, a dictionary
in replays).  Every choice is a leaf-wise ite, so the result is one straight-line record."""
from .rt import ite, land, lor, lnot, bits, bit, b2i, M32
from .pmsa import NORMAL, DEVICE, STRONGLY_ORDERED, convert_attrs_hints, check_permission_abort
from .prims import BigEndianReverse

NONE, TRANSLATION, ACCESS_FLAG, DOMAIN, PERMISSION, ALIGNMENT = 0, 1, 2, 3, 4, 5
KIND_NAMES = {0: 'ok', 1: 'TRANSLATION', 2: 'ACCESS_FLAG', 3: 'DOMAIN', 4: 'PERMISSION', 5: 'ALIGNMENT'}


def fcse_translate(va, fcseidr):
    return ite(bits(va, 31, 25) == 0, (bits(fcseidr, 31, 25) << 25) | bits(va, 24, 0), va)


def first(cases, default):
    """value of the first case whose condition holds"""
    out = default
    for c, v in reversed(cases):
        out = ite(c, v, out)
    return out


def walk_sd(st, mva, rd):
    """-> record of the Short-descriptor walk for the modified virtual address mva"""
    ttbcr = st['ttbcr']
    n = bits(ttbcr, 2, 0)
    # mva<31:32-n> == 0  <=>  mva >> (32 - n) == 0   (n == 0: TTBR0 always)
    use0 = lor(n == 0, (mva >> (32 - n)) == 0)
    ttbr = ite(use0, st['ttbr0_64'] & M32, st['ttbr1_64'] & M32)
    disabled = ite(use0, bit(ttbcr, 4) == 1, bit(ttbcr, 5) == 1)          # PD0 / PD1
    n_eff = ite(use0, n, 0)
    walk_disabled = land(st['cfg.have_security_ext'], disabled)
    ee = bit(st['sctlr'], 25) == 1
    afe = bit(st['sctlr'], 29) == 1
    # ttbr<31:14-n> : mva<31-n:20> : '00'
    base_mask = (M32 << (14 - n_eff)) & M32
    index = (mva & (M32 >> n_eff)) >> 20
    l1addr = (ttbr & base_mask) | (index << 2)
    raw1 = rd(l1addr)
    l1 = ite(ee, BigEndianReverse(raw1, 4), raw1)
    t1 = bits(l1, 1, 0)
    is_fault1 = t1 == 0
    is_table = t1 == 1
    is_sect = bit(l1, 1) == 1
    # ---- second level
    l2addr = (bits(l1, 31, 10) << 10) | (bits(mva, 19, 12) << 2)
    raw2 = rd(l2addr)
    l2 = ite(ee, BigEndianReverse(raw2, 4), raw2)
    is_fault2 = bits(l2, 1, 0) == 0
    large = bit(l2, 1) == 0
    af2 = land(afe, bit(l2, 4) == 0)
    af1 = land(afe, bit(l1, 10) == 0)
    supers = bit(l1, 18) == 1
    kind = first([(walk_disabled, TRANSLATION), (is_fault1, TRANSLATION), (land(is_table, is_fault2), TRANSLATION),
                  (land(is_table, af2), ACCESS_FLAG), (land(is_sect, af1), ACCESS_FLAG)], NONE)
    level = ite(lor(walk_disabled, is_fault1, is_sect), 1, 2)
    domain = ite(is_table, bits(l1, 8, 5), ite(supers, 0, bits(l1, 8, 5)))
    domain_known = land(lnot(walk_disabled), lnot(is_fault1))
    rec = dict(
        kind=kind, level=level, domain=domain, domain_known=domain_known,
        texcb=ite(is_table, ite(large, (bits(l2, 14, 12) << 2) | bits(l2, 3, 2), (bits(l2, 8, 6) << 2) | bits(l2, 3, 2)),
                  (bits(l1, 14, 12) << 2) | bits(l1, 3, 2)),
        s=ite(is_table, bit(l2, 10), bit(l1, 16)),
        ap=ite(is_table, (bit(l2, 9) << 2) | bits(l2, 5, 4), (bit(l1, 15) << 2) | bits(l1, 11, 10)),
        xn=ite(is_table, ite(large, bit(l2, 15), bit(l2, 0)), bit(l1, 4)),
        pxn=ite(is_table, bit(l1, 2), bit(l1, 0)),
        ng=ite(is_table, bit(l2, 11), bit(l1, 17)),
        ns=ite(is_table, bit(l1, 3), bit(l1, 19)),
        blocksize=ite(is_table, ite(large, 64, 4), ite(supers, 16384, 1024)),
        pa=ite(is_table, ite(large, (bits(l2, 31, 16) << 16) | bits(mva, 15, 0), (bits(l2, 31, 12) << 12) | bits(mva, 11, 0)),
               ite(supers, (((bits(l1, 8, 5) << 4) | bits(l1, 23, 20)) << 32) | (bits(l1, 31, 24) << 24) | bits(mva, 23, 0),
                   (bits(l1, 31, 20) << 20) | bits(mva, 19, 0))),
        l1addr=l1addr, l2addr=l2addr, reads_l2=land(lnot(walk_disabled), is_table),
    )
    return rec


def remapped_tex_decode(st, texcb, s):
    """-> dict(type, shareable, outershareable, innerattrs, innerhints, outerattrs, outerhints, attrs_known), impdef"""
    region = bits(texcb, 2, 0)
    prrr, nmrr = st['prrr'], st['nmrr']
    tr = (prrr >> (2 * region)) & 3
    ir = (nmrr >> (2 * region)) & 3
    orr = (nmrr >> (2 * region + 16)) & 3
    nos = (prrr >> (region + 24)) & 1
    s_bit = ite(s == 1, bit(prrr, 19), bit(prrr, 18))                      # NS1 / NS0
    hin, hout = convert_attrs_hints(ir), convert_attrs_hints(orr)
    normal = tr == 2
    t = ite(tr == 0, STRONGLY_ORDERED, ite(tr == 1, DEVICE, NORMAL))
    return dict(type=t, type_known=tr != 3,
                shareable=ite(normal, s_bit == 1, True), outershareable=ite(normal, land(s_bit == 1, nos == 0), True),
                share_known=tr != 3,
                innerattrs=bits(hin, 1, 0), innerhints=bits(hin, 3, 2), outerattrs=bits(hout, 1, 0), outerhints=bits(hout, 3, 2),
                attrs_known=normal), region == 6


SDFSR = {TRANSLATION: (0b00101, 0b00111), ACCESS_FLAG: (0b00011, 0b00110), DOMAIN: (0b01001, 0b01011), PERMISSION: (0b01101, 0b01111)}


def sd_dfsr(old, kind, level, domain, iswrite, have_lpae):
    """DFSR<13:0> after a stage-1 Short-descriptor fault: CM=0, ExT=0, WnR, FS<4>, LPAE=0, bit 8 UNKNOWN, domain, FS<3:0>.
    -> (value, mask of the bits whose value is UNKNOWN)"""
    fs = 0b00001
    for k, (f1, f2) in SDFSR.items():
        fs = ite(kind == k, ite(level == 1, f1, f2), fs)
    string = (b2i(iswrite) << 11) | (bit(fs, 4) << 10) | (domain << 4) | bits(fs, 3, 0)
    domain_valid = lor(kind == DOMAIN, land(level == 2, lor(kind == TRANSLATION, kind == ACCESS_FLAG)),
                       land(lnot(have_lpae), kind == PERMISSION))
    return ((old >> 14) << 14) | string, ite(domain_valid, 0x100, 0x1F0)


def translate_v(st, va, ispriv, iswrite, wasaligned, rd):
    """TranslateAddressV restricted to stage 1, Short-descriptor format or MMU off (not Hyp mode, TTBCR.EAE == 0, no
    Virtualization Extensions).  -> dict(kind, level, domain, pa, ns, mem (dict), unpred, mva, mmu_on)"""
    mva = fcse_translate(va, st['fcseidr'])
    mmu_on = bit(st['sctlr'], 0) == 1
    w = walk_sd(st, mva, rd)
    mem, impdef = remapped_tex_decode(st, w['texcb'], w['s'])
    walk_ok = w['kind'] == NONE
    # alignment: unaligned access to Device / Strongly-ordered memory
    mtype = ite(mmu_on, mem['type'], STRONGLY_ORDERED)
    align = land(lnot(wasaligned), mtype != NORMAL)
    dacr = (st['dacr'] >> (2 * w['domain'])) & 3
    dom_fault = dacr == 0
    check_perm = dacr == 1
    afe = bit(st['sctlr'], 29) == 1
    perm_abort, perm_unpred = check_permission_abort(w['ap'], ispriv, iswrite, afe, True)
    kind_on = first([(lnot(walk_ok), w['kind']), (align, ALIGNMENT), (dom_fault, DOMAIN), (land(check_perm, perm_abort), PERMISSION)], NONE)
    kind = ite(mmu_on, kind_on, ite(align, ALIGNMENT, NONE))
    unpred = land(mmu_on, walk_ok, lnot(align), lor(dacr == 2, land(check_perm, perm_unpred)))
    # without the Virtualization Extensions an unaligned access to Device / Strongly-ordered memory never reaches the
    # translation (the accessor faults first): UNPREDICTABLE here
    virt = st['cfg.have_virt_ext']
    unpred = lor(unpred, land(lnot(virt), lor(lnot(mmu_on), walk_ok), align))
    secure = lor(lnot(st['cfg.have_security_ext']), bit(st['scr'], 0) == 0, bits(st['cpsr'], 4, 0) == 0b10110)
    # Virtualization Extensions present (stage 2 inactive, not Hyp mode): HCR.TGE with the stage 1 MMU on is UNPREDICTABLE in a
    # Non-secure PL1&0 mode; HCR.DC with the stage 1 MMU off needs HCR.VM == 1 (stage 2), otherwise UNPREDICTABLE
    unpred = lor(unpred, land(virt, lnot(secure), ite(mmu_on, bit(st['hcr'], 27) == 1, bit(st['hcr'], 12) == 1)))
    return dict(kind=kind, level=w['level'], domain=w['domain'], domain_known=w['domain_known'],
                pa=ite(mmu_on, w['pa'], mva), ns=ite(secure, ite(mmu_on, w['ns'], 0), 1), mem=mem, impdef=land(mmu_on, impdef),
                unpred=unpred, mva=mva, mmu_on=mmu_on, walk=w)


# ------------------------------------------------------------------------------------------------ Long-descriptor format

def mair_type(st, index, hyp=False):
    """MAIRDecode: memory type (and whether it is architecturally defined) for AttrIndx (HMAIR0/1 in Hyp mode)"""
    mair = ((st['hmair1'] << 32) | st['hmair0']) if hyp else ((st['mair1'] << 32) | st['mair0'])
    field = (mair >> (8 * index)) & 0xFF
    hi, lo = bits(field, 7, 4), bits(field, 3, 0)
    transient_form = lor(bits(field, 7, 6) == 0, land(bits(field, 7, 6) == 1, bits(field, 5, 4) != 0))
    defined = ite(hi == 0, lor(lo == 0, lo == 4), lor(lnot(transient_form), st['cfg.implementation_supports_transient']))
    # inner field: '0xxx' with xxx != 100 are the transient forms as well
    inner_transient = land(hi != 0, bit(lo, 3) == 0, bits(lo, 2, 0) != 4)
    defined = land(defined, lor(lnot(inner_transient), st['cfg.implementation_supports_transient']))
    t = ite(hi == 0, ite(lo == 0, STRONGLY_ORDERED, DEVICE), NORMAL)
    return t, defined


def walk_ld(st, ia, rd8, hyp=False):
    """stage-1 Long-descriptor walk, input address ia (32 bits): outside Hyp mode (TTBCR.EAE == 1; TTBR0/TTBR1, SCTLR.EE) or,
    with hyp=True, the Hyp-mode walk (HTCR.T0SZ, HTTBR only, HSCTLR.EE, Non-secure lookup).
    rd8(pa) = 64-bit little-endian doubleword at physical address pa"""
    if hyp:
        t0 = bits(st['htcr'], 2, 0)
        in0 = lor(t0 == 0, (ia >> (32 - t0)) == 0)
        base_found = in0
        tsz = t0
        ttbr = st['httbr']
        disabled = False
    else:
        ttbcr = st['ttbcr']
        t0, t1 = bits(ttbcr, 2, 0), bits(ttbcr, 18, 16)
        in0 = lor(t0 == 0, (ia >> (32 - t0)) == 0)
        top1 = ia >> (32 - t1)
        in1 = ite(t1 == 0, lnot(in0), top1 == ((1 << t1) - 1))
        base_found = lor(in0, in1)
        use1 = in1                                   # the TTBR1 test comes second and overrides
        tsz = ite(use1, t1, t0)
        ttbr = ite(use1, st['ttbr1_64'], st['ttbr0_64'])
        disabled = ite(use1, bit(ttbcr, 23) == 1, bit(ttbcr, 7) == 1)           # EPD1 / EPD0
    level0 = ite(bits(tsz, 2, 1) == 0, 1, 2)
    lower = 9 * level0 - tsz - 4
    base0 = (bits(ttbr, 39, 0) >> lower) << lower
    unpred = land(base_found, ((ttbr & ((1 << lower) - 1)) >> 3) != 0)
    start_bit = 31 - tsz
    ee = bit(st['hsctlr' if hyp else 'sctlr'], 25) == 1
    secure0 = False if hyp else lor(lnot(st['cfg.have_security_ext']), bit(st['scr'], 0) == 0, bits(st['cpsr'], 4, 0) == 0b10110)
    from .prims import BigEndianReverse
    kind = ite(lor(lnot(base_found), disabled), TRANSLATION, NONE)
    flt_level = 1
    done = kind != NONE
    level = level0
    base = base0
    lookup_secure = secure0
    table_rw, table_user, table_xn, table_pxn = True, True, False, False
    out_addr, attrs, final_level = 0, 0, level0
    first = True
    for _ in range(3):                            # at most three levels (1..3)
        offset = 9 * level
        if first:
            sel = ((ia & ((2 << start_bit) - 1)) >> (39 - offset)) << 3
        else:
            sel = (((ia & ((1 << (48 - offset)) - 1)) >> (39 - offset)) & 0x1FF) << 3
        first = False
        addr = base | sel
        raw = rd8(addr)
        d = ite(ee, BigEndianReverse(raw, 8), raw)
        invalid = bit(d, 0) == 0
        is_block = land(lnot(invalid), bit(d, 1) == 0)
        is_table_or_page = land(lnot(invalid), bit(d, 1) == 1)
        lvl3 = level == 3
        fault_here = lor(invalid, land(is_block, lvl3))
        leaf_here = lor(land(is_block, lnot(lvl3)), land(is_table_or_page, lvl3))
        next_here = land(is_table_or_page, lnot(lvl3))
        active = lnot(done)
        kind = ite(land(active, fault_here), TRANSLATION, kind)
        flt_level = ite(land(active, fault_here), level, flt_level)
        ia_len = 39 - offset
        oa = ((bits(d, 39, 0) >> ia_len) << ia_len) | (ia & ((1 << ia_len) - 1))
        at = (bits(d, 54, 52) << 10) | bits(d, 11, 2)
        at = ite(table_xn, at | (1 << 12), at)
        at = ite(table_pxn, at | (1 << 11), at)
        at = ite(land(secure0, lnot(lookup_secure)), at | (1 << 9), at)
        at = ite(lnot(table_rw), at | (1 << 5), at)
        at = ite(lnot(table_user), at & ~(1 << 4), at)
        at = ite(lnot(lookup_secure), at | (1 << 3), at)
        take = land(active, leaf_here)
        out_addr = ite(take, oa, out_addr)
        attrs = ite(take, at, attrs)
        final_level = ite(take, level, final_level)
        done = lor(done, land(active, lor(fault_here, leaf_here)))
        go = land(active, next_here)
        base = ite(go, bits(d, 39, 12) << 12, base)
        lookup_secure = ite(go, land(lookup_secure, bit(d, 63) == 0), lookup_secure)
        table_rw = ite(go, land(table_rw, bit(d, 62) == 0), table_rw)
        table_user = ite(go, land(table_user, bit(d, 61) == 0), table_user)
        table_pxn = ite(go, lor(table_pxn, bit(d, 59) == 1), table_pxn)
        table_xn = ite(go, lor(table_xn, bit(d, 60) == 1), table_xn)
        level = ite(go, level + 1, level)
    af_fault = land(kind == NONE, bit(attrs, 8) == 0)
    kind = ite(af_fault, ACCESS_FLAG, kind)
    flt_level = ite(af_fault, final_level, flt_level)
    if hyp:
        # Hyp mode translation regime: AP<1> must be 1, PXN and nG must be 0, APTable<0> and PXNTable of every table must be 0
        unpred = lor(unpred, land(kind == NONE, lor(bit(attrs, 4) != 1, lnot(table_user), bit(attrs, 11) != 0, table_pxn, bit(attrs, 9) != 0)))
    return dict(kind=kind, level=ite(kind == NONE, final_level, flt_level), pa=out_addr & ((1 << 40) - 1), attrs=attrs,
                ap=(bits(attrs, 5, 4) << 1) | 1, xn=bit(attrs, 12), pxn=bit(attrs, 11), ng=bit(attrs, 9), ns=bit(attrs, 3),
                attrindx=bits(attrs, 2, 0), sh=bits(attrs, 7, 6), unpred=unpred)


def translate_v_ld(st, va, ispriv, iswrite, wasaligned, rd8, hyp=False):
    """TranslateAddressV, stage 1, Long-descriptor format: TTBCR.EAE == 1 outside Hyp mode (stage 2 inactive), or the Hyp-mode
    regime (hyp=True, HSCTLR.M == 1)"""
    mva = fcse_translate(va, st['fcseidr'])
    w = walk_ld(st, mva, rd8, hyp)
    mtype, defined = mair_type(st, w['attrindx'], hyp)
    walk_ok = w['kind'] == NONE
    align = land(lnot(wasaligned), mtype != NORMAL)
    afe = bit(st['sctlr'], 29) == 1
    perm_abort, perm_unpred = check_permission_abort(w['ap'], ispriv, iswrite, afe, True)
    kind = first([(lnot(walk_ok), w['kind']), (align, ALIGNMENT), (perm_abort, PERMISSION)], NONE)
    virt = st['cfg.have_virt_ext']
    # (without the Virtualization Extensions an unaligned access to Device / Strongly-ordered memory never reaches the translation)
    unpred = lor(w['unpred'], land(walk_ok, lor(land(lnot(virt), align), perm_unpred)))
    # an IMPLEMENTATION DEFINED MAIR encoding leaves the memory type, hence the alignment decision, open
    unpred = lor(unpred, land(walk_ok, lnot(wasaligned), lnot(defined)))
    if not hyp:
        secure = lor(lnot(st['cfg.have_security_ext']), bit(st['scr'], 0) == 0, bits(st['cpsr'], 4, 0) == 0b10110)
        unpred = lor(unpred, land(virt, lnot(secure), bit(st['hcr'], 27) == 1))          # HCR.TGE with the stage 1 MMU on
    shareable = ite(mtype == NORMAL, bit(w['sh'], 1) == 1, True)
    outershareable = ite(mtype == NORMAL, w['sh'] == 2, True)
    return dict(kind=kind, level=w['level'], pa=w['pa'], ns=w['ns'], mtype=mtype, type_defined=defined, shareable=shareable,
                outershareable=outershareable, unpred=unpred, mva=mva, walk=w)
