"""Exception entry (ARM ARM B1.8.1-B1.8.3, B1.9) as state transformers over the leaf dictionary.

Mock predicates of the implementation (IsExternalAbort, IsAsyncAbort, DebugException) are the constant FALSE
on both sides (DESIGN.md assumption 5).  All address arithmetic is modulo 2^32.
"""
from .rt import ite, land, lor, lnot, bits, bit, b2i, M32
from . import state as ST


def R_view(st):
    return {k[2:]: v for k, v in st.items() if k.startswith('R.')}


def R_store(st, R):
    for k, v in R.items():
        st['R.' + k] = v


def r_get(st, n):
    return ST.rget(R_view(st), n, bits(st['cpsr'], 4, 0))


def r_set(st, n, v):
    R_store(st, ST.rset(R_view(st), n, bits(st['cpsr'], 4, 0), v))


def spsr_set_cur(st, v):
    ST.spsr_set(st, bits(st['cpsr'], 4, 0), v)


def have(st, k):
    return st['cfg.' + k]


def mode(st):
    return bits(st['cpsr'], 4, 0)


def T(st):
    return bit(st['cpsr'], 5)


def exc_vector_base(st):
    return ite(bit(st['sctlr'], 13) == 1, 0xFFFF0000, ite(have(st, 'have_security_ext'), st['vbar'], 0))


def branch_to(st, addr):
    st['R.PC'] = addr
    st['chg[15]'] = True


def it_advance(it):
    return ite(bits(it, 2, 0) == 0, 0, (it & 0xE0) | ((it << 1) & 0x1F))


def enter_monitor_mode(st, new_spsr, new_lr, vect):
    st['cpsr'] = ST.cpsr_with(st['cpsr'], m=ST.MON)
    spsr_set_cur(st, new_spsr)
    r_set(st, 14, new_lr)
    st['chg[14]'] = True
    st['cpsr'] = ST.cpsr_with(st['cpsr'], j=0, t=bit(st['sctlr'], 30), e=bit(st['sctlr'], 25), a=1, f=1, i=1, it=0)
    branch_to(st, (st['mvbar'] + vect) & M32)


def enter_hyp_mode(st, new_spsr, preferred_return, vect):
    st['cpsr'] = ST.cpsr_with(st['cpsr'], m=ST.HYP)
    spsr_set_cur(st, new_spsr)
    st['elr_hyp'] = preferred_return
    c = ST.cpsr_with(st['cpsr'], j=0, t=bit(st['hsctlr'], 30), e=bit(st['hsctlr'], 25))
    scr = st['scr']
    c = ST.cpsr_with(c, a=ite(bit(scr, 3) == 0, 1, bit(c, 8)), f=ite(bit(scr, 2) == 0, 1, bit(c, 6)),
                     i=ite(bit(scr, 1) == 0, 1, bit(c, 7)), it=0)
    st['cpsr'] = c
    branch_to(st, (st['hvbar'] + vect) & M32)


def _fork(st, cases):
    """cases: list of (condition, transformer).  Applies exactly the first case whose condition holds, by running
    every transformer on a copy and selecting leaf-wise."""
    outs = []
    for c, f in cases:
        s2 = dict(st)
        f(s2)
        outs.append((c, s2))
    keys = set()
    for _, s2 in outs:
        keys.update(s2.keys())
    for k in keys:
        v = outs[-1][1].get(k)
        for c, s2 in reversed(outs[:-1]):
            v2 = s2.get(k)
            v = v2 if v2 is v else ite(c, v2, v)
        st[k] = v


def pc_read(st):
    return ST.pc_read(st)


def _common_entry(st, target_mode, new_spsr, new_lr, vect, set_a=False, set_f=False, clear_ns_needs_sec=False, ve_vector=None):
    sec = have(st, 'have_security_ext')
    virt = have(st, 'have_virt_ext')
    was_mon = mode(st) == ST.MON
    clr = land(sec, was_mon) if clear_ns_needs_sec else was_mon
    st['scr'] = ite(clr, st['scr'] & ~1 & M32, st['scr'])
    scr = st['scr']
    st['cpsr'] = ST.cpsr_with(st['cpsr'], m=target_mode)
    spsr_set_cur(st, new_spsr)
    r_set(st, 14, new_lr)
    st['chg[14]'] = True
    c = ST.cpsr_with(st['cpsr'], i=1)
    mask_ok_a = lor(lnot(sec), virt, bit(scr, 0) == 0, bit(scr, 5) == 1)
    mask_ok_f = lor(lnot(sec), virt, bit(scr, 0) == 0, bit(scr, 4) == 1)
    if set_f:
        c = ST.cpsr_with(c, f=ite(mask_ok_f, 1, bit(c, 6)))
    if set_a:
        c = ST.cpsr_with(c, a=ite(mask_ok_a, 1, bit(c, 8)))
    c = ST.cpsr_with(c, it=0, j=0, t=bit(st['sctlr'], 30), e=bit(st['sctlr'], 25))
    st['cpsr'] = c
    target = (exc_vector_base(st) + vect) & M32
    if ve_vector is not None:
        target = ite(bit(st['sctlr'], 24) == 1, ve_vector, target)
    branch_to(st, target)


def take_undef_instr(st):
    pc = pc_read(st)
    t = T(st)
    new_lr = ite(t == 1, (pc - 2) & M32, (pc - 4) & M32)
    new_spsr = st['cpsr']
    sec, virt = have(st, 'have_security_ext'), have(st, 'have_virt_ext')
    take_to_hyp = land(virt, sec, bit(st['scr'], 0) == 1, mode(st) == ST.HYP)
    route_to_hyp = land(virt, sec, lnot(ST.is_secure(st)), bit(st['hcr'], 27) == 1, mode(st) == ST.USR)
    pref = (new_lr - ite(t == 1, 2, 4)) & M32
    _fork(st, [(take_to_hyp, lambda s: enter_hyp_mode(s, new_spsr, pref, 4)),
               (route_to_hyp, lambda s: enter_hyp_mode(s, new_spsr, pref, 20)),
               (True, lambda s: _common_entry(s, ST.UND, new_spsr, new_lr, 4))])
    return None, False, None


def take_svc(st):
    st['cpsr'] = ST.cpsr_with(st['cpsr'], it=it_advance(ST.cpsr_field(st['cpsr'], 'it')))
    pc = pc_read(st)
    t = T(st)
    new_lr = ite(t == 1, (pc - 2) & M32, (pc - 4) & M32)
    new_spsr = st['cpsr']
    sec, virt = have(st, 'have_security_ext'), have(st, 'have_virt_ext')
    take_to_hyp = land(virt, sec, bit(st['scr'], 0) == 1, mode(st) == ST.HYP)
    route_to_hyp = land(virt, sec, lnot(ST.is_secure(st)), bit(st['hcr'], 27) == 1, mode(st) == ST.USR)
    _fork(st, [(take_to_hyp, lambda s: enter_hyp_mode(s, new_spsr, new_lr, 8)),
               (route_to_hyp, lambda s: enter_hyp_mode(s, new_spsr, new_lr, 20)),
               (True, lambda s: _common_entry(s, ST.SVC, new_spsr, new_lr, 8))])
    return None, False, None


def take_smc(st):
    st['cpsr'] = ST.cpsr_with(st['cpsr'], it=it_advance(ST.cpsr_field(st['cpsr'], 'it')))
    pc = pc_read(st)
    new_lr = ite(T(st) == 1, pc, (pc - 4) & M32)
    new_spsr = st['cpsr']
    st['scr'] = ite(mode(st) == ST.MON, st['scr'] & ~1 & M32, st['scr'])
    enter_monitor_mode(st, new_spsr, new_lr, 8)
    return None, False, None


def take_data_abort(st, is_alignment, second_stage):
    pc = pc_read(st)
    new_lr = ite(T(st) == 1, (pc + 4) & M32, pc)
    new_spsr = st['cpsr']
    pref = (new_lr - 8) & M32
    sec, virt = have(st, 'have_security_ext'), have(st, 'have_virt_ext')
    take_to_hyp = land(virt, sec, bit(st['scr'], 0) == 1, mode(st) == ST.HYP)
    route_to_hyp = land(virt, sec, lnot(ST.is_secure(st)),
                        lor(second_stage, land(mode(st) == ST.USR, bit(st['hcr'], 27) == 1, is_alignment)))
    _fork(st, [(take_to_hyp, lambda s: enter_hyp_mode(s, new_spsr, pref, 16)),
               (route_to_hyp, lambda s: enter_hyp_mode(s, new_spsr, pref, 20)),
               (True, lambda s: _common_entry(s, ST.ABT, new_spsr, new_lr, 16, set_a=True, clear_ns_needs_sec=True))])
    return None, False, None


def _take_irq_fiq(st, fiq):
    pc = pc_read(st)
    new_lr = ite(T(st) == 1, pc, (pc - 4) & M32)
    new_spsr = st['cpsr']
    vect = 28 if fiq else 24
    sec, virt = have(st, 'have_security_ext'), have(st, 'have_virt_ext')
    scr_bit = bit(st['scr'], 2 if fiq else 1)
    hcr_bit = bit(st['hcr'], 3 if fiq else 4)
    route_to_monitor = land(sec, scr_bit == 1)
    route_to_hyp = lor(land(virt, sec, scr_bit == 0, hcr_bit == 1, lnot(ST.is_secure(st))), mode(st) == ST.HYP)

    def to_mon(s):
        s['scr'] = ite(mode(s) == ST.MON, s['scr'] & ~1 & M32, s['scr'])
        enter_monitor_mode(s, new_spsr, new_lr, vect)

    def to_hyp(s):
        s['hsr'] = 0           # UNKNOWN in the architecture; the implementation documents 0
        enter_hyp_mode(s, new_spsr, (new_lr - 4) & M32, vect)
    impdef = st['cfg.impdef_fiq_vector'] if fiq else st['cfg.impdef_irq_vector']
    unpred = False
    if fiq:
        # taken to FIQ mode while FIQ mode is reserved for Secure state (NSACR.RFR) in Non-secure state
        ns_after = land(have(st, 'have_security_ext'), bit(st['scr'], 0) == 1, mode(st) != ST.MON)
        unpred = land(lnot(route_to_monitor), lnot(route_to_hyp), ns_after, bit(st['nsacr'], 19) == 1)
    _fork(st, [(route_to_monitor, to_mon), (route_to_hyp, to_hyp),
               (True, lambda s: _common_entry(s, ST.FIQ if fiq else ST.IRQ, new_spsr, new_lr, vect, set_a=True, set_f=fiq,
                                              ve_vector=impdef))])
    return None, unpred, None


def take_physical_irq(st):
    return _take_irq_fiq(st, False)


def take_physical_fiq(st):
    return _take_irq_fiq(st, True)


def take_hyp_trap(st):
    pc = pc_read(st)
    pref = ite(T(st) == 1, (pc - 4) & M32, (pc - 8) & M32)
    enter_hyp_mode(st, st['cpsr'], pref, 20)
    return None, False, None


def take_reset(st, vbar_reset):
    c = ST.cpsr_with(st['cpsr'], m=ST.SVC)
    st['scr'] = ite(have(st, 'have_security_ext'), st['scr'] & ~1 & M32, st['scr'])
    st['vbar'] = vbar_reset                                        # ResetControlRegisters()
    st['fpexc'] = ite(have(st, 'have_adv_simd_or_vfp'), st['fpexc'] & ~(1 << 30) & M32, st['fpexc'])
    st['teecr'] = ite(have(st, 'have_thumbee'), st['teecr'] & ~1 & M32, st['teecr'])
    st['jmcr'] = ite(have(st, 'have_jazelle'), st['jmcr'] & ~1 & M32, st['jmcr'])
    c = ST.cpsr_with(c, i=1, f=1, a=1, it=0, j=0, t=bit(st['sctlr'], 30), e=bit(st['sctlr'], 25))
    st['cpsr'] = c
    rv = ite(have(st, 'has_imp_def_reset_vector'), st['cfg.impdef_reset_vector'], exc_vector_base(st))
    branch_to(st, rv & ~1 & M32)
    return None, False, None
