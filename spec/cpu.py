"""Spec-side execution context: architectural state dict + the pseudocode helpers that touch it
(R[], flags, BranchWritePC/BXWritePC/ALUWritePC/LoadWritePC, abstract MemU/MemA).  Straight-line: every
data-dependent choice is a leaf-wise `ite` (see Cpu.cases)."""
from .rt import ite, land, lor, lnot, bits, bit, b2i, M32
from . import state as ST


def _ite_any(c, a, b):
    """ite that also merges abstract memory tokens (z3 terms of an uninterpreted sort)"""
    if hasattr(a, 'mem_ite'):
        return a.mem_ite(c, b)
    if hasattr(a, 'sort') and hasattr(b, 'sort') and not isinstance(a, (int, bool)):
        import z3
        from pyvc import sym
        return z3.If(sym.zb(c), a, b)
    return ite(c, a, b)


class Cpu:
    def __init__(self, st, iset, instr, oplen, mem=None):
        self.st = st                      # owned dict of leaves
        self.iset = iset                  # 'arm' | 'thumb' (instruction set state at entry; J == 0)
        self.instr = instr
        self.oplen = oplen
        self.mem = None
        self.native_mem = mem             # native replays: scripted memory (reads by address/size, writes logged)
        self.unknown = False              # some architecturally UNKNOWN value was produced (result not compared)
        self.unpred = False
        self.undef = False
        self.branched = False
        self.eret = False                 # the operation performed an exception return (CPSR, IT bits included, loaded from an SPSR image)
        self.outcome = None               # None | 'svc' | 'smc' | 'undef' | 'notimpl' ... (set under self.outcome_cond)
        self.unkmask = {}                 # leaf -> mask of bits whose value is architecturally UNKNOWN (not compared)

    # ---------------------------------------------------------------- control
    def copy(self):
        c = Cpu(dict(self.st), self.iset, self.instr, self.oplen, self.native_mem)
        c.unpred, c.undef, c.branched, c.outcome, c.unknown = self.unpred, self.undef, self.branched, self.outcome, self.unknown
        c.eret = self.eret
        c.unkmask = dict(self.unkmask)
        return c

    def cases(self, cases):
        """cases: [(cond, fn(cpu))...]; applies the first case whose condition holds (leaf-wise ite)."""
        outs = []
        for c, fn in cases:
            k = self.copy()
            fn(k)
            outs.append((c, k))
        last = outs[-1][1]
        keys = set()
        for _, k in outs:
            keys.update(k.st.keys())
        for key in keys:
            v = last.st.get(key)
            for c, k in reversed(outs[:-1]):
                v2 = k.st.get(key)
                v = v2 if v2 is v else _ite_any(c, v2, v)
            self.st[key] = v
        mk = set()
        for _, k in outs:
            mk.update(k.unkmask.keys())
        for key in mk:
            v = last.unkmask.get(key, 0)
            for c, k in reversed(outs[:-1]):
                v2 = k.unkmask.get(key, 0)
                v = v2 if v2 is v else ite(c, v2, v)
            self.unkmask[key] = v
        for attr in ('unpred', 'undef', 'branched', 'unknown', 'eret'):
            v = getattr(last, attr)
            for c, k in reversed(outs[:-1]):
                v2 = getattr(k, attr)
                v = v2 if v2 is v else ite(c, v2, v)
            setattr(self, attr, v)

    def when(self, cond, fn):
        self.cases([(cond, fn), (True, lambda k: None)])

    def UNPREDICTABLE(self, cond=True):
        self.unpred = lor(self.unpred, cond)

    def UNKNOWN(self, cond=True):
        self.unknown = lor(self.unknown, cond)

    def UNDEFINED(self, cond=True):
        self.undef = lor(self.undef, cond)

    # ---------------------------------------------------------------- state access
    @property
    def cpsr(self):
        return self.st['cpsr']

    @cpsr.setter
    def cpsr(self, v):
        self.st['cpsr'] = v

    def mode(self):
        return bits(self.cpsr, 4, 0)

    def cfg(self, k):
        return self.st['cfg.' + k]

    def arch(self):
        return self.st['cfg.arch_version']

    def flag(self, name):
        return ST.cpsr_field(self.cpsr, name)

    @property
    def C(self):
        return bit(self.cpsr, 29)

    def set_flags(self, **kw):
        self.cpsr = ST.cpsr_with(self.cpsr, **kw)

    def in_it_block(self):
        return bits(ST.cpsr_field(self.cpsr, 'it'), 3, 0) != 0

    def last_in_it_block(self):
        return bits(ST.cpsr_field(self.cpsr, 'it'), 3, 0) == 0b1000

    def pc(self):
        """R[15] read value"""
        return (self.st['R.PC'] + (8 if self.iset == 'arm' else 4)) & M32

    def _Rview(self):
        return {k[2:]: v for k, v in self.st.items() if k.startswith('R.')}

    def R(self, n):
        if isinstance(n, int):
            if n == 15:
                return self.pc()
            return ST.rget(self._Rview(), n, self.mode())
        return ite(n == 15, self.pc(), ST.rget(self._Rview(), ite(n == 15, 0, n), self.mode()))

    def setR(self, n, v):
        """R[n] = v for n != 15 (callers route 15 to a *WritePC helper)"""
        new = ST.rset(self._Rview(), n, self.mode(), v)
        for k, x in new.items():
            self.st['R.' + k] = x

    def unknown_bits(self, leaf, mask):
        """bits `mask` of a state leaf (e.g. 'cpsr') hold an architecturally UNKNOWN value"""
        self.unkmask[leaf] = mask | self.unkmask.get(leaf, 0)

    def unknown_bits_R(self, n, mask):
        """bits `mask` of R[n] (current mode) hold an architecturally UNKNOWN value"""
        zero = {k: 0 for k in self._Rview()}
        for k, m in ST.rset(zero, n, self.mode(), mask).items():
            old = self.unkmask.get('R.' + k, 0)
            self.unkmask['R.' + k] = m | old

    def Rmode(self, n, mode):
        return ST.rget(self._Rview(), n, mode)

    def setRmode(self, n, mode, v):
        new = ST.rset(self._Rview(), n, mode, v)
        for k, x in new.items():
            self.st['R.' + k] = x

    def SPSR(self):
        return ST.spsr_get(self.st, self.mode())

    # ---------------------------------------------------------------- PC writes (A2.3.1)
    def branch_to(self, addr):
        self.st['R.PC'] = addr
        self.branched = True

    def branch_write_pc(self, addr):
        if self.iset == 'arm':
            self.UNPREDICTABLE(land(self.arch() < 6, bits(addr, 1, 0) != 0))
            self.branch_to(addr & 0xFFFFFFFC)
        else:
            self.branch_to(addr & 0xFFFFFFFE)

    def branch_write_pc_dynamic(self, addr):
        """BranchWritePC() for the instruction set selected by the *current* CPSR (after an exception return wrote it)"""
        s = ST.iset(self.cpsr)
        self.UNPREDICTABLE(land(s == ST.ISET_ARM, self.arch() < 6, bits(addr, 1, 0) != 0))
        self.UNPREDICTABLE(s == ST.ISET_JAZELLE)           # JazelleAcceptsExecution() is FALSE (trivial Jazelle)
        self.branch_to(ite(s == ST.ISET_ARM, addr & 0xFFFFFFFC, addr & 0xFFFFFFFE))

    def exception_return(self, new_cpsr, new_pc):
        """CPSRWriteByInstr(value, '1111', TRUE); Hyp/ThumbEE check; BranchWritePC(new_pc)"""
        from . import psr as PSR
        _, unp, _ = PSR.cpsr_write_by_instr(self.st, new_cpsr, 0b1111, True)
        self.eret = True
        self.UNPREDICTABLE(unp)
        c = self.cpsr
        self.UNPREDICTABLE(land(bits(c, 4, 0) == ST.HYP, bit(c, 24) == 1, bit(c, 5) == 1))
        self.branch_write_pc_dynamic(new_pc)

    def select_iset(self, thumb):
        self.cpsr = ST.cpsr_with(self.cpsr, j=0, t=1 if thumb else 0)

    def bx_write_pc(self, addr):
        def to_thumb(k):
            k.select_iset(True)
            k.branch_to(addr & 0xFFFFFFFE)

        def to_arm(k):
            k.select_iset(False)
            k.branch_to(addr)

        def bad(k):
            k.UNPREDICTABLE()
        self.cases([(bit(addr, 0) == 1, to_thumb), (bit(addr, 1) == 0, to_arm), (True, bad)])

    def alu_write_pc(self, addr):
        if self.iset == 'arm':
            self.cases([(self.arch() >= 7, lambda k: k.bx_write_pc(addr)), (True, lambda k: k.branch_write_pc(addr))])
        else:
            self.branch_write_pc(addr)

    def load_write_pc(self, addr):
        self.cases([(self.arch() >= 5, lambda k: k.bx_write_pc(addr)), (True, lambda k: k.branch_write_pc(addr))])
