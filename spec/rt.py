"""Runtime for executable specifications.

Spec functions are plain Python over ints.  They use these intrinsics instead of
`if`/`and`/`or`/`not` on data so that the same source runs natively (replay oracle,
plain ints) and symbolically (pyvc values with operator overloading).
"""


def _symmod():
    from pyvc import sym
    return sym


def _is_plain(*xs):
    for x in xs:
        if not isinstance(x, int):        # bool is an int
            return False
    return True


def ite(c, a, b):
    if isinstance(c, int):
        return a if c else b
    return _symmod().ite(c, a, b)


def land(*xs):
    if _is_plain(*xs):
        return all(xs)
    return _symmod().land(*xs)


def lor(*xs):
    if _is_plain(*xs):
        return any(xs)
    return _symmod().lor(*xs)


def lnot(x):
    if isinstance(x, int):
        return not x
    return _symmod().lnot(x)


def implies(a, b):
    return lor(lnot(a), b)


def b2i(x):
    """truth value -> 0/1 integer"""
    if isinstance(x, int):
        return 1 if x else 0
    return _symmod().ite(x, 1, 0)


def sel(seq, i):
    if isinstance(i, int):
        return seq[i]
    return _symmod().sel(seq, i)


def upd(seq, i, v):
    if isinstance(i, int) and not isinstance(v, tuple):
        out = list(seq)
        out[i] = v
        return out
    return _symmod().upd(seq, i, v)


def popcount(x, nbits):
    if isinstance(x, int):
        return bin(x & ((1 << nbits) - 1)).count('1')
    return _symmod().popcount(x, nbits)


def tdiv(a, b):
    """division rounding toward zero (b != 0)"""
    if isinstance(a, int) and isinstance(b, int):
        q = abs(a) // abs(b)
        return q if (a >= 0) == (b >= 0) else -q
    return _symmod().truncdiv(a, b)


def bits(x, hi, lo):
    """x<hi:lo> of a non-negative or two's-complement integer"""
    return (x >> lo) & ((1 << (hi - lo + 1)) - 1)


def bit(x, i):
    return (x >> i) & 1


def sint(x, n):
    """two's complement value of the n-bit pattern x (0 <= x < 2**n)"""
    return x - (bit(x, n - 1) << n)


def uint(x, n):
    """low n bits as unsigned"""
    return x & ((1 << n) - 1)


M32 = 0xFFFFFFFF


class Unpredictable(Exception):
    pass
