"""Block transfer operation specs (A8.8.57-60 LDM*, A8.8.199-202 STM*, A8.8.131-133 POP/PUSH, B9.3.5-6 LDM user /
exception return, STM user) and encoding rows.  Loop-shaped exactly as the pseudocode: the address advances by 4
after every transferred register, lowest register at the lowest address."""
from .rt import ite, land, lor, lnot, bits, bit, b2i, popcount, M32
from . import prims as P
from . import state as ST
from . import psr as PSR
from .ops_ls import mem_read, mem_write, badreg


def start_address(base, count, mode):
    """mode: 'IA' 'IB' 'DA' 'DB'"""
    if mode == 'IA':
        return base
    if mode == 'IB':
        return (base + 4) & M32
    if mode == 'DA':
        return (base - 4 * count + 4) & M32
    return (base - 4 * count) & M32


def ldm(cpu, n, registers, wback, mode, kind='A', pc_unaligned_check=False, user=False):
    count = popcount(registers, 16)
    base = cpu.R(n)
    address = start_address(base, count, mode)
    vals = []
    for i in range(15):
        present = bit(registers, i) != 0
        vals.append((present, mem_read(cpu, kind, address, 4)))
        address = ite(present, (address + 4) & M32, address)
    for i, (present, v) in enumerate(vals):
        if user:
            cpu.when(present, lambda k, i=i, v=v: k.setRmode(i, ST.USR, v))
        else:
            cpu.when(present, lambda k, i=i, v=v: k.setR(i, v))
    pcval = mem_read(cpu, kind, address, 4)
    if not user:
        def do_pc(k):
            if pc_unaligned_check:
                k.UNPREDICTABLE(bits(address, 1, 0) != 0)
            k.load_write_pc(pcval)
        cpu.when(bit(registers, 15) == 1, do_pc)
    delta = 4 * count
    newbase = (base + delta) & M32 if mode in ('IA', 'IB') else (base - delta) & M32
    n_in_list = ((registers >> n) & 1) == 1
    cpu.UNKNOWN(land(wback, n_in_list))
    cpu.when(land(wback, lnot(n_in_list)), lambda k: k.setR(n, newbase))


def stm(cpu, n, registers, wback, mode, kind='A', user=False, push_sp=False):
    count = popcount(registers, 16)
    base = cpu.R(n)
    address = start_address(base, count, mode)
    lowest = P.LowestSetBit(registers, 16)
    for i in range(15):
        present = bit(registers, i) != 0
        if push_sp:
            unk = land(present, i == 13, lowest != 13) if i == 13 else False
        else:
            unk = land(present, n == i, wback, lowest != i)
        cpu.UNKNOWN(unk)
        v = cpu.Rmode(i, ST.USR) if user else cpu.R(i)
        addr_i = address
        cpu.when(present, lambda k, v=v, a=addr_i: mem_write(k, kind, a, 4, v))
        address = ite(present, (address + 4) & M32, address)
    fin = address
    cpu.when(bit(registers, 15) == 1, lambda k: mem_write(k, kind, fin, 4, k.pc()))
    delta = 4 * count
    newbase = (base + delta) & M32 if mode in ('IA', 'IB') else (base - delta) & M32
    cpu.when(wback, lambda k: k.setR(n, newbase))


def pop(cpu, registers, unaligned_allowed):
    kind = 'U' if unaligned_allowed else 'A'
    count = popcount(registers, 16)
    sp = cpu.R(13)
    address = sp
    vals = []
    for i in range(15):
        present = bit(registers, i) != 0
        vals.append((present, mem_read(cpu, kind, address, 4)))
        address = ite(present, (address + 4) & M32, address)
    for i, (present, v) in enumerate(vals):
        cpu.when(present, lambda k, i=i, v=v: k.setR(i, v))
    pcval = mem_read(cpu, kind, address, 4)

    def do_pc(k):
        if unaligned_allowed:
            k.UNPREDICTABLE(bits(address, 1, 0) != 0)
        k.load_write_pc(pcval)
    cpu.when(bit(registers, 15) == 1, do_pc)
    sp_in = bit(registers, 13) == 1
    cpu.UNKNOWN(sp_in)
    cpu.when(lnot(sp_in), lambda k: k.setR(13, (sp + 4 * count) & M32))


def push(cpu, registers, unaligned_allowed):
    stm(cpu, 13, registers, True, 'DB', kind='U' if unaligned_allowed else 'A', push_sp=True)


def rfe(cpu, n, increment, word_higher, wback):
    """B9.3.13 RFE"""
    cpu.UNDEFINED(cpu.mode() == ST.HYP)
    cpu.UNPREDICTABLE(cpu.mode() == ST.USR)
    base = cpu.R(n)
    address = ite(increment, base, (base - 8) & M32)
    address = ite(word_higher, (address + 4) & M32, address)
    new_pc = mem_read(cpu, 'A', address, 4)
    spsr = mem_read(cpu, 'A', (address + 4) & M32, 4)
    cpu.when(wback, lambda k: k.setR(n, ite(increment, (base + 8) & M32, (base - 8) & M32)))
    cpu.exception_return(spsr, new_pc)


def srs(cpu, mode, increment, word_higher, wback):
    """B9.3.16 SRS"""
    cur = cpu.mode()
    cpu.UNDEFINED(cur == ST.HYP)
    cpu.UNPREDICTABLE(lor(cur == ST.USR, cur == ST.SYS))
    cpu.UNPREDICTABLE(mode == ST.HYP)
    ns = lnot(ST.is_secure(cpu.st))
    cpu.UNPREDICTABLE(land(ns, lor(mode == ST.MON, land(mode == ST.FIQ, bit(cpu.st['nsacr'], 19) == 1))))
    cpu.UNPREDICTABLE(ST.bad_mode(mode, cpu.cfg('have_security_ext'), cpu.cfg('have_virt_ext')))
    base = cpu.Rmode(13, mode)
    address = ite(increment, base, (base - 8) & M32)
    address = ite(word_higher, (address + 4) & M32, address)
    mem_write(cpu, 'A', address, 4, cpu.R(14))
    mem_write(cpu, 'A', (address + 4) & M32, 4, cpu.SPSR())
    cpu.when(wback, lambda k: k.setRmode(13, mode, ite(increment, (base + 8) & M32, (base - 8) & M32)))


EXEC_MODE = {'LdmArm': ('ldm', 'IA'), 'Ldmda': ('ldm', 'DA'), 'Ldmdb': ('ldm', 'DB'), 'Ldmib': ('ldm', 'IB'), 'LdmThumb': ('ldm', 'IA'),
             'Stm': ('stm', 'IA'), 'Stmda': ('stm', 'DA'), 'Stmdb': ('stm', 'DB'), 'Stmib': ('stm', 'IB'),
             'Push': ('push', 'DB'), 'PopArm': ('pop', 'IA'), 'PopThumb': ('pop', 'IA')}


def apply_fields(cpu, exec_class, a):
    """the architectural operation of the abstract block-transfer class for decoded fields a"""
    if exec_class not in EXEC_MODE:
        raise NotImplementedError('%s: specified and verified at function level (props/c03.py)' % exec_class)
    kind, mode = EXEC_MODE[exec_class]
    if kind == 'ldm':
        ldm(cpu, a['n'], a['registers'], a['wback'], mode)
    elif kind == 'stm':
        stm(cpu, a['n'], a['registers'], a['wback'], mode)
    elif kind == 'push':
        push(cpu, a['registers'], a['unaligned_allowed'])
    else:
        pop(cpu, a['registers'], a['unaligned_allowed'])


def build(T):
    C = 'cond:4'
    nu = lambda f: f['cond'] != 15

    def add(cls, iset, pat, exec_class, opfields, **kw):
        T.add(cls, iset, pat, lambda cpu, f: apply_fields(cpu, exec_class, opfields(f)), family='C03', opfields=opfields,
              exec_class=exec_class, **kw)
    arm = lambda *a, **kw: add(a[0], 'arm', *a[1:], **kw)
    t16 = lambda *a, **kw: add(a[0], 't16', *a[1:], **kw)
    t32 = lambda *a, **kw: add(a[0], 't32', *a[1:], **kw)
    cnt = lambda f: popcount(f['list'], 16)
    nbit = lambda f: ((f['list'] >> f['Rn']) & 1) == 1
    nrw = lambda f: dict(n=f['Rn'], registers=f['list'], wback=f['W'] == 1)
    stack = lambda regs, ua: (lambda f: dict(registers=regs(f), unaligned_allowed=ua))
    ldm_up = lambda f, c: lor(f['Rn'] == 15, cnt(f) < 1, land(f['W'] == 1, nbit(f), c.arch() >= 7))
    stm_up = lambda f, c: lor(f['Rn'] == 15, cnt(f) < 1)
    is_pop = lambda f: land(f['W'] == 1, f['Rn'] == 13, cnt(f) >= 2)
    arm('LdmArmA1', '%s 100 0 1 0 W 1 Rn:4 list:16' % C, 'LdmArm', nrw, when=lambda f: land(nu(f), lnot(is_pop(f))), unpred=ldm_up)
    arm('PopArmA1', '%s 100 0 1 0 1 1 1101 list:16' % C, 'PopArm', stack(lambda f: f['list'], False), when=lambda f: land(nu(f), cnt(f) >= 2),
        unpred=lambda f, c: land(bit(f['list'], 13) == 1, c.arch() >= 7))
    arm('LdmdaA1', '%s 100 0 0 0 W 1 Rn:4 list:16' % C, 'Ldmda', nrw, when=nu, unpred=ldm_up)
    arm('LdmdbA1', '%s 100 1 0 0 W 1 Rn:4 list:16' % C, 'Ldmdb', nrw, when=nu, unpred=ldm_up)
    arm('LdmibA1', '%s 100 1 1 0 W 1 Rn:4 list:16' % C, 'Ldmib', nrw, when=nu, unpred=ldm_up)
    arm('StmA1', '%s 100 0 1 0 W 0 Rn:4 list:16' % C, 'Stm', nrw, when=nu, unpred=stm_up)
    arm('StmdaA1', '%s 100 0 0 0 W 0 Rn:4 list:16' % C, 'Stmda', nrw, when=nu, unpred=stm_up)
    arm('StmdbA1', '%s 100 1 0 0 W 0 Rn:4 list:16' % C, 'Stmdb', nrw, when=lambda f: land(nu(f), lnot(is_pop(f))), unpred=stm_up)
    arm('PushA1', '%s 100 1 0 0 1 0 1101 list:16' % C, 'Push', stack(lambda f: f['list'], False), when=lambda f: land(nu(f), cnt(f) >= 2))
    arm('StmibA1', '%s 100 1 1 0 W 0 Rn:4 list:16' % C, 'Stmib', nrw, when=nu, unpred=stm_up)
    arm('PushA2', '%s 010 1 0 0 1 0 1101 Rt:4 000000000100' % C, 'Push', stack(lambda f: 1 << f['Rt'], True), when=nu,
        unpred=lambda f, c: f['Rt'] == 13)
    arm('PopArmA2', '%s 010 0 1 0 0 1 1101 Rt:4 000000000100' % C, 'PopArm', stack(lambda f: 1 << f['Rt'], True), when=nu,
        unpred=lambda f, c: f['Rt'] == 13)
    # user-bank and exception-return forms (B9.3.5, B9.3.6, B9.3.17)
    usr = lambda f: dict(n=f['Rn'], registers=f['list'], increment=f['U'] == 1, word_higher=f['P'] == f['U'])
    arm('LdmUserRegistersA1', '%s 100 P U 1 (0) 1 Rn:4 0 list:15' % C, 'LdmUserRegisters', usr, when=nu,
        unpred=lambda f, c: lor(f['Rn'] == 15, popcount(f['list'], 15) < 1))
    arm('StmUserRegistersA1', '%s 100 P U 1 (0) 0 Rn:4 list:16' % C, 'StmUserRegisters', usr, when=nu,
        unpred=lambda f, c: lor(f['Rn'] == 15, cnt(f) < 1))
    # the implementation keeps the PC bit in `registers` (bit 15 = the return-address slot)
    arm('LdmExceptionReturnA1', '%s 100 P U 1 W 1 Rn:4 1 list:15' % C, 'LdmExceptionReturn',
        lambda f: dict(n=f['Rn'], registers=f['list'] | 0x8000, increment=f['U'] == 1, word_higher=f['P'] == f['U'], wback=f['W'] == 1),
        when=nu, unpred=lambda f, c: lor(f['Rn'] == 15, land(f['W'] == 1, ((f['list'] >> f['Rn']) & 1) == 1, c.arch() >= 7)))
    # Thumb 16-bit
    t16('LdmThumbT1', '11001 Rn:3 list:8', 'LdmThumb', lambda f: dict(n=f['Rn'], registers=f['list'], wback=((f['list'] >> f['Rn']) & 1) == 0),
        unpred=lambda f, c: f['list'] == 0)
    t16('StmT1', '11000 Rn:3 list:8', 'Stm', lambda f: dict(n=f['Rn'], registers=f['list'], wback=True), unpred=lambda f, c: f['list'] == 0)
    t16('PushT1', '1011 010 M list:8', 'Push', stack(lambda f: (f['M'] << 14) | f['list'], False),
        unpred=lambda f, c: land(f['M'] == 0, f['list'] == 0))
    t16('PopThumbT1', '1011 110 P list:8', 'PopThumb', stack(lambda f: (f['P'] << 15) | f['list'], False),
        unpred=lambda f, c: lor(land(f['P'] == 0, f['list'] == 0), land(f['P'] == 1, c.in_it_block(), lnot(c.last_in_it_block()))))
    # Thumb 32-bit
    regs32 = lambda f: (f.get('P', 0) << 15) | (f['M'] << 14) | f['list']
    cnt32 = lambda f: popcount(regs32(f), 16)
    nrw32 = lambda f: dict(n=f['Rn'], registers=regs32(f), wback=f['W'] == 1)
    t32_is_pop = lambda f: land(f['W'] == 1, f['Rn'] == 13)
    pc_it = lambda f, c: land(f.get('P', 0) == 1, c.in_it_block(), lnot(c.last_in_it_block()))
    t32('LdmThumbT2', '11101 00 010 W 1 Rn:4 P M (0) list:13', 'LdmThumb', nrw32,
        when=lambda f: lnot(t32_is_pop(f)),
        unpred=lambda f, c: lor(f['Rn'] == 15, cnt32(f) < 2, land(f['P'] == 1, f['M'] == 1), pc_it(f, c),
                                land(f['W'] == 1, ((regs32(f) >> f['Rn']) & 1) == 1)))
    t32('PopThumbT2', '11101 00 010 1 1 1101 P M (0) list:13', 'PopThumb', stack(regs32, False),
        unpred=lambda f, c: lor(cnt32(f) < 2, land(f['P'] == 1, f['M'] == 1), pc_it(f, c)))
    t32('StmT2', '11101 00 010 W 0 Rn:4 (0) M (0) list:13', 'Stm', nrw32,
        unpred=lambda f, c: lor(f['Rn'] == 15, cnt32(f) < 2, land(f['W'] == 1, ((regs32(f) >> f['Rn']) & 1) == 1)))
    t32('LdmdbT1', '11101 00 100 W 1 Rn:4 P M (0) list:13', 'Ldmdb', nrw32,
        unpred=lambda f, c: lor(f['Rn'] == 15, cnt32(f) < 2, land(f['P'] == 1, f['M'] == 1), pc_it(f, c),
                                land(f['W'] == 1, ((regs32(f) >> f['Rn']) & 1) == 1)))
    t32('StmdbT1', '11101 00 100 W 0 Rn:4 (0) M (0) list:13', 'Stmdb', nrw32,
        when=lambda f: lnot(t32_is_pop(f)),
        unpred=lambda f, c: lor(f['Rn'] == 15, cnt32(f) < 2, land(f['W'] == 1, ((regs32(f) >> f['Rn']) & 1) == 1)))
    t32('PushT2', '11101 00 100 1 0 1101 (0) M (0) list:13', 'Push', stack(regs32, False), unpred=lambda f, c: cnt32(f) < 2)
    t32('PushT3', '11111 000 0100 1101 Rt:4 1 101 00000100', 'Push', stack(lambda f: 1 << f['Rt'], True), unpred=lambda f, c: badreg(f['Rt']))
    t32('PopThumbT3', '11111 000 0101 1101 Rt:4 1 011 00000100', 'PopThumb', stack(lambda f: 1 << f['Rt'], True),
        unpred=lambda f, c: lor(f['Rt'] == 13, land(f['Rt'] == 15, c.in_it_block(), lnot(c.last_in_it_block()))))
    # RFE / SRS (two words, straight-line: specified at step level); RFE is also one of the exception returns of C12
    it_np = lambda c: land(c.in_it_block(), lnot(c.last_in_it_block()))
    T.add('RfeA1', 'arm', '1111 100 P U 0 W 1 Rn:4 (0000) (1010) (00000000)',
          lambda cpu, f: rfe(cpu, f['Rn'], f['U'] == 1, f['P'] == f['U'], f['W'] == 1), family='C03+C12', unpred=lambda f, c: f['Rn'] == 15)
    T.add('RfeT1', 't32', '11101 00 000 W 1 Rn:4 (1100) (0000) (0000) (0000)',
          lambda cpu, f: rfe(cpu, f['Rn'], False, False, f['W'] == 1), family='C03+C12', unpred=lambda f, c: lor(f['Rn'] == 15, it_np(c)))
    T.add('RfeT2', 't32', '11101 00 110 W 1 Rn:4 (1100) (0000) (0000) (0000)',
          lambda cpu, f: rfe(cpu, f['Rn'], True, False, f['W'] == 1), family='C03+C12', unpred=lambda f, c: lor(f['Rn'] == 15, it_np(c)))
    T.add('SrsArmA1', 'arm', '1111 100 P U 1 W 0 (1101) (0000) (0101) (000) mode:5',
          lambda cpu, f: srs(cpu, f['mode'], f['U'] == 1, f['P'] == f['U'], f['W'] == 1), family='C03')
    T.add('SrsThumbT1', 't32', '11101 00 000 W 0 (1101) (1100) (0000) (000) mode:5',
          lambda cpu, f: srs(cpu, f['mode'], False, False, f['W'] == 1), family='C03')
    T.add('SrsThumbT2', 't32', '11101 00 110 W 0 (1101) (1100) (0000) (000) mode:5',
          lambda cpu, f: srs(cpu, f['mode'], True, False, f['W'] == 1), family='C03')
