"""ARM ARM pseudocode helper functions (A2.2.1, A5.2.4, A6.3.2, A8.4.3) as executable specs.

Written from the architecture text, deliberately in a different style from the
repository (carry = unsigned sum out of range, overflow = signed sum out of range,
ROR as two shifts, …).  N is always a concrete Python int; all data may be symbolic.
Shift types are integer codes: LSL=0 LSR=1 ASR=2 ROR=3 RRX=4.
"""
from .rt import ite, land, lor, lnot, b2i, popcount, bits, bit, sint, uint

LSL, LSR, ASR, ROR, RRX = 0, 1, 2, 3, 4
SRTYPE_NAMES = ['LSL', 'LSR', 'ASR', 'ROR', 'RRX']


def AddWithCarry(x, y, carry_in, N=32):
    """[0<=x,y<2^N, carry_in in {0,1}] -> (result, carry_out, overflow)"""
    usum = x + y + carry_in
    ssum = sint(x, N) + sint(y, N) + carry_in
    result = uint(usum, N)
    carry = b2i(usum >= (1 << N))
    overflow = b2i(lor(ssum >= (1 << (N - 1)), ssum < -(1 << (N - 1))))
    return result, carry, overflow


def LSL_C(x, N, s):
    """[s>0]"""
    ext = x << s
    return uint(ext, N), bit(ext, N)


def LSR_C(x, N, s):
    """[s>0]"""
    return x >> s, bit(x << 1, s)


def ASR_C(x, N, s):
    """[s>0]"""
    sx = sint(x, N)
    return uint(sx >> s, N), uint((sx << 1) >> s, 1)


def ROR_C(x, N, s):
    """[s != 0]; N concrete"""
    m = s % N
    r = uint((x >> m) | (x << (N - m)), N)
    return r, bit(r, N - 1)


def RRX_C(x, N, c):
    return (c << (N - 1)) | (x >> 1), bit(x, 0)


def Shift_C(value, N, t, amount, carry_in):
    """t: integer shift-type code (may be symbolic); [not (t == RRX and amount != 1)], amount >= 0"""
    amt = ite(amount == 0, 1, amount)          # keep sub-terms defined when amount == 0
    r0, c0 = LSL_C(value, N, amt)
    r1, c1 = LSR_C(value, N, amt)
    r2, c2 = ASR_C(value, N, amt)
    r3, c3 = ROR_C(value, N, amt)
    r4, c4 = RRX_C(value, N, carry_in)
    r = ite(t == LSL, r0, ite(t == LSR, r1, ite(t == ASR, r2, ite(t == ROR, r3, r4))))
    c = ite(t == LSL, c0, ite(t == LSR, c1, ite(t == ASR, c2, ite(t == ROR, c3, c4))))
    return ite(amount == 0, value, r), ite(amount == 0, carry_in, c)


def Shift(value, N, t, amount, carry_in):
    return Shift_C(value, N, t, amount, carry_in)[0]


def DecodeImmShift(t, imm5):
    """t in 0..3, imm5 in 0..31 -> (shift type code, amount)"""
    st = ite(t == 0, LSL, ite(t == 1, LSR, ite(t == 2, ASR, ite(imm5 == 0, RRX, ROR))))
    n = ite(t == 0, imm5, ite(lor(t == 1, t == 2), ite(imm5 == 0, 32, imm5), ite(imm5 == 0, 1, imm5)))
    return st, n


def DecodeRegShift(t):
    return t          # 00 LSL, 01 LSR, 10 ASR, 11 ROR


def ARMExpandImm_C(imm12, carry_in):
    unrot = bits(imm12, 7, 0)
    return Shift_C(unrot, 32, ROR, 2 * bits(imm12, 11, 8), carry_in)


def ARMExpandImm(imm12):
    return ARMExpandImm_C(imm12, 0)[0]


def ThumbExpandImm_C(imm12, carry_in):
    """returns (imm32, carry_out, unpredictable)"""
    b = bits(imm12, 7, 0)
    sel2 = bits(imm12, 9, 8)
    rep = ite(sel2 == 0, b, ite(sel2 == 1, (b << 16) | b, ite(sel2 == 2, (b << 24) | (b << 8),
                                                             (b << 24) | (b << 16) | (b << 8) | b)))
    unrot = (1 << 7) | bits(imm12, 6, 0)
    rot, c = ROR_C(unrot, 32, ite(bits(imm12, 11, 7) == 0, 8, bits(imm12, 11, 7)))
    top0 = bits(imm12, 11, 10) == 0
    unpred = land(top0, sel2 != 0, b == 0)
    return ite(top0, rep, rot), ite(top0, carry_in, c), unpred


def ThumbExpandImm(imm12):
    return ThumbExpandImm_C(imm12, 0)[0]


def SignExtend(x, src, dst):
    """[1<=src<=dst, 0<=x<2^src]"""
    return uint(sint(x, src), dst)


def SignedSatQ(i, N):
    """any integer i, N>=1 -> (N-bit pattern, saturated?)"""
    hi = (1 << (N - 1)) - 1
    lo = -(1 << (N - 1))
    over = i > hi
    under = i < lo
    r = ite(over, hi, ite(under, lo, i))
    return uint(r, N), lor(over, under)


def UnsignedSatQ(i, N):
    hi = (1 << N) - 1
    over = i > hi
    under = i < 0
    return ite(over, hi, ite(under, 0, i)), lor(over, under)


def BitCount(x, N):
    return popcount(x, N)


def LowestSetBit(x, N):
    """N if x == 0 else index of lowest set bit (N concrete)"""
    out = N
    for i in range(N - 1, -1, -1):
        out = ite(bit(x, i) == 1, i, out)
    return out


def CountLeadingZeroBits(x, N):
    out = N
    for i in range(N):
        out = ite(bit(x, i) == 1, N - 1 - i, out)
    return out


def BigEndianReverse(v, n):
    """n in {1,2,4,8} concrete"""
    out = 0
    for i in range(n):
        out = out | (bits(v, 8 * i + 7, 8 * i) << (8 * (n - 1 - i)))
    return out


def Align(x, y):
    """[y>0]"""
    return x - (x % y)


def ConditionHolds(cond, n, z, c, v):
    """cond 0..15; flags 0/1 -> truth"""
    base = bits(cond, 3, 1)
    r = ite(base == 0, z == 1,
        ite(base == 1, c == 1,
        ite(base == 2, n == 1,
        ite(base == 3, v == 1,
        ite(base == 4, land(c == 1, z == 0),
        ite(base == 5, n == v,
        ite(base == 6, land(n == v, z == 0), True)))))))
    inv = land(bit(cond, 0) == 1, cond != 15)
    return ite(inv, lnot(r), r)
