"""Multiply / divide, saturating, parallel add-subtract (SIMD), extend, bit-field, pack, reverse and count
instructions (ARM ARM A8.8: MUL .. UXTH) and their encoding rows (A5.2.5, A5.4.1-A5.4.4, A6.3.12-A6.3.17).

All operations are written over exact integers (SInt/UInt of the register values); results are truncated to the
destination width exactly where the pseudocode says so."""
from .rt import ite, land, lor, lnot, bits, bit, b2i, sint, uint, tdiv, M32
from . import prims as P
from . import state as ST

M64 = (1 << 64) - 1


def S32(x):
    return sint(x, 32)


def nz32(cpu, r32):
    cpu.set_flags(n=bit(r32, 31), z=b2i(r32 == 0))


def setq(cpu, cond):
    """Q is sticky: set when cond, never cleared"""
    cpu.cpsr = ST.cpsr_with(cpu.cpsr, q=ite(cond, 1, bit(cpu.cpsr, 27)))


def half(x, top):
    """selected halfword of x as a signed value (top: 0/1 or symbolic)"""
    return sint(ite(top == 1, bits(x, 31, 16), bits(x, 15, 0)), 16)


def anypc(f, *names):
    return lor(*[f[n] == 15 for n in names])


def badreg(x):
    return lor(x == 13, x == 15)


def anybad(f, *names):
    return lor(*[badreg(f[n]) for n in names])


# ------------------------------------------------------------------------------------------------ multiplies

def op_mul(cpu, d, n, m, setflags):
    r = S32(cpu.R(n)) * S32(cpu.R(m))
    r32 = uint(r, 32)
    cpu.setR(d, r32)
    cpu.when(setflags, lambda k: nz32(k, r32))
    cpu.unknown_bits('cpsr', ite(land(setflags, cpu.arch() == 4), 1 << 29, 0))         # APSR.C = bit UNKNOWN in ARMv4


def op_mla(cpu, d, n, m, a, setflags):
    r = S32(cpu.R(n)) * S32(cpu.R(m)) + S32(cpu.R(a))
    r32 = uint(r, 32)
    cpu.setR(d, r32)
    cpu.when(setflags, lambda k: nz32(k, r32))
    cpu.unknown_bits('cpsr', ite(land(setflags, cpu.arch() == 4), 1 << 29, 0))         # APSR.C = bit UNKNOWN in ARMv4


def op_mls(cpu, d, n, m, a):
    r = S32(cpu.R(a)) - S32(cpu.R(n)) * S32(cpu.R(m))
    cpu.setR(d, uint(r, 32))


def long_result(cpu, dhi, dlo, r, setflags):
    r64 = uint(r, 64)
    cpu.setR(dhi, bits(r64, 63, 32))
    cpu.setR(dlo, bits(r64, 31, 0))
    cpu.when(setflags, lambda k: k.set_flags(n=bit(r64, 63), z=b2i(r64 == 0)))
    cpu.unknown_bits('cpsr', ite(land(setflags, cpu.arch() == 4), 3 << 28, 0))         # APSR.C, APSR.V = bit UNKNOWN in ARMv4


def acc64(cpu, dhi, dlo):
    return (cpu.R(dhi) << 32) | cpu.R(dlo)


def op_umull(cpu, dhi, dlo, n, m, setflags):
    long_result(cpu, dhi, dlo, cpu.R(n) * cpu.R(m), setflags)


def op_umlal(cpu, dhi, dlo, n, m, setflags):
    long_result(cpu, dhi, dlo, cpu.R(n) * cpu.R(m) + acc64(cpu, dhi, dlo), setflags)


def op_smull(cpu, dhi, dlo, n, m, setflags):
    long_result(cpu, dhi, dlo, S32(cpu.R(n)) * S32(cpu.R(m)), setflags)


def op_smlal(cpu, dhi, dlo, n, m, setflags):
    long_result(cpu, dhi, dlo, S32(cpu.R(n)) * S32(cpu.R(m)) + sint(acc64(cpu, dhi, dlo), 64), setflags)


def op_umaal(cpu, dhi, dlo, n, m):
    long_result(cpu, dhi, dlo, cpu.R(n) * cpu.R(m) + cpu.R(dhi) + cpu.R(dlo), False)


def op_smulxy(cpu, d, n, m, nhi, mhi):
    r = half(cpu.R(n), nhi) * half(cpu.R(m), mhi)
    cpu.setR(d, uint(r, 32))


def op_smlaxy(cpu, d, n, m, a, nhi, mhi):
    r = half(cpu.R(n), nhi) * half(cpu.R(m), mhi) + S32(cpu.R(a))
    r32 = uint(r, 32)
    cpu.setR(d, r32)
    setq(cpu, r != S32(r32))


def op_smulw(cpu, d, n, m, mhi):
    p = S32(cpu.R(n)) * half(cpu.R(m), mhi)
    cpu.setR(d, bits(uint(p, 48), 47, 16))


def op_smlaw(cpu, d, n, m, a, mhi):
    r = S32(cpu.R(n)) * half(cpu.R(m), mhi) + (S32(cpu.R(a)) << 16)
    rd = bits(uint(r, 64), 47, 16)
    cpu.setR(d, rd)
    setq(cpu, (r >> 16) != S32(rd))


def op_smlalxy(cpu, dhi, dlo, n, m, nhi, mhi):
    r = half(cpu.R(n), nhi) * half(cpu.R(m), mhi) + sint(acc64(cpu, dhi, dlo), 64)
    long_result(cpu, dhi, dlo, r, False)


def dual_products(cpu, n, m, swap):
    rn, rm = cpu.R(n), cpu.R(m)
    op2 = ite(swap == 1, ((rm >> 16) | (rm << 16)) & M32, rm)
    p1 = sint(bits(rn, 15, 0), 16) * sint(bits(op2, 15, 0), 16)
    p2 = sint(bits(rn, 31, 16), 16) * sint(bits(op2, 31, 16), 16)
    return p1, p2


def op_smuad(cpu, d, n, m, swap):
    p1, p2 = dual_products(cpu, n, m, swap)
    r = p1 + p2
    r32 = uint(r, 32)
    cpu.setR(d, r32)
    setq(cpu, r != S32(r32))


def op_smusd(cpu, d, n, m, swap):
    p1, p2 = dual_products(cpu, n, m, swap)
    cpu.setR(d, uint(p1 - p2, 32))


def op_smlad(cpu, d, n, m, a, swap, sub=False):
    p1, p2 = dual_products(cpu, n, m, swap)
    r = (p1 - p2 if sub else p1 + p2) + S32(cpu.R(a))
    r32 = uint(r, 32)
    cpu.setR(d, r32)
    setq(cpu, r != S32(r32))


def op_smlald(cpu, dhi, dlo, n, m, swap, sub=False):
    p1, p2 = dual_products(cpu, n, m, swap)
    r = (p1 - p2 if sub else p1 + p2) + sint(acc64(cpu, dhi, dlo), 64)
    long_result(cpu, dhi, dlo, r, False)


def op_smmul(cpu, d, n, m, rnd, a=None, sub=False):
    prod = S32(cpu.R(n)) * S32(cpu.R(m))
    if a is None:
        r = prod
    elif sub:
        r = (S32(cpu.R(a)) << 32) - prod
    else:
        r = (S32(cpu.R(a)) << 32) + prod
    r = r + ite(rnd == 1, 0x80000000, 0)
    cpu.setR(d, bits(uint(r, 64), 63, 32))


def op_div(cpu, d, n, m, signed):
    rn, rm = cpu.R(n), cpu.R(m)
    zero = rm == 0
    # IntegerZeroDivideTrappingEnabled(): ARMv7-R with SCTLR.DZ == 1 -> Undefined Instruction exception; otherwise the result is 0
    cpu.UNDEFINED(land(zero, cpu.cfg('is_armv7r_profile'), bit(cpu.st['sctlr'], 19) == 1))
    if signed:
        q = tdiv(S32(rn), ite(zero, 1, S32(rm)))
    else:
        q = tdiv(rn, ite(zero, 1, rm))
    cpu.setR(d, ite(zero, 0, uint(q, 32)))


def op_usad8(cpu, d, n, m, a=None):
    rn, rm = cpu.R(n), cpu.R(m)
    tot = 0
    for i in range(4):
        x, y = bits(rn, 8 * i + 7, 8 * i), bits(rm, 8 * i + 7, 8 * i)
        tot = tot + ite(x >= y, x - y, y - x)
    if a is not None:
        tot = tot + cpu.R(a)
    cpu.setR(d, uint(tot, 32))


# ------------------------------------------------------------------------------------------------ saturating

def op_qaddsub(cpu, d, n, m, sub, dbl):
    rn, rm = S32(cpu.R(n)), S32(cpu.R(m))
    if dbl:
        dv, s1 = P.SignedSatQ(2 * rn, 32)
        rn = S32(dv)
    else:
        s1 = False
    r, s2 = P.SignedSatQ(rm - rn if sub else rm + rn, 32)
    cpu.setR(d, r)
    setq(cpu, lor(s1, s2))


def sat_shift(cpu, n, sh, imm5):
    st, sn = P.DecodeImmShift(sh << 1, imm5)
    return P.Shift(cpu.R(n), 32, st, sn, cpu.C)


def clamp_signed(i, N):
    """SignedSatQ(i, N) as an integer: (clamped value, saturated?) for N possibly symbolic (1 <= N <= 32)"""
    hi = (1 << (N - 1)) - 1
    lo = -(1 << (N - 1))
    over, under = i > hi, i < lo
    return ite(over, hi, ite(under, lo, i)), lor(over, under)


def clamp_unsigned(i, N):
    hi = (1 << N) - 1
    over, under = i > hi, i < 0
    return ite(over, hi, ite(under, 0, i)), lor(over, under)


def op_ssat(cpu, d, n, sat_to, sh, imm5):
    op = sat_shift(cpu, n, sh, imm5)
    r, s = clamp_signed(S32(op), sat_to)
    cpu.setR(d, uint(r, 32))                       # SignExtend(result<N-1:0>, 32)
    setq(cpu, s)


def op_usat(cpu, d, n, sat_to, sh, imm5):
    op = sat_shift(cpu, n, sh, imm5)
    r, s = clamp_unsigned(S32(op), sat_to)
    cpu.setR(d, r)
    setq(cpu, s)


def op_sat16(cpu, d, n, sat_to, signed):
    rn = cpu.R(n)
    lo, hi = sint(bits(rn, 15, 0), 16), sint(bits(rn, 31, 16), 16)
    cl = clamp_signed if signed else clamp_unsigned
    r1, s1 = cl(lo, sat_to)
    r2, s2 = cl(hi, sat_to)
    cpu.setR(d, (uint(r2, 16) << 16) | uint(r1, 16))
    setq(cpu, lor(s1, s2))


# ------------------------------------------------------------------------------------------------ parallel add/sub

def lanes16(x, signed):
    lo, hi = bits(x, 15, 0), bits(x, 31, 16)
    return (sint(lo, 16), sint(hi, 16)) if signed else (lo, hi)


def lanes8(x, signed):
    out = [bits(x, 8 * i + 7, 8 * i) for i in range(4)]
    return [sint(v, 8) for v in out] if signed else out


def op_parallel(cpu, d, n, m, prefix, kind):
    """prefix: 'S' 'Q' 'SH' 'U' 'UQ' 'UH'; kind: ADD16 ASX SAX SUB16 ADD8 SUB8"""
    signed = prefix in ('S', 'Q', 'SH')
    rn, rm = cpu.R(n), cpu.R(m)
    if kind in ('ADD8', 'SUB8'):
        a, b = lanes8(rn, signed), lanes8(rm, signed)
        res = [(x - y) if kind == 'SUB8' else (x + y) for x, y in zip(a, b)]
        width, adds = 8, [kind == 'ADD8'] * 4
    else:
        (nlo, nhi), (mlo, mhi) = lanes16(rn, signed), lanes16(rm, signed)
        if kind == 'ADD16':
            res, adds = [nlo + mlo, nhi + mhi], [True, True]
        elif kind == 'SUB16':
            res, adds = [nlo - mlo, nhi - mhi], [False, False]
        elif kind == 'ASX':
            res, adds = [nlo - mhi, nhi + mlo], [False, True]
        else:
            res, adds = [nlo + mhi, nhi - mlo], [True, False]
        width = 16
    out = 0
    ge = 0
    per = 4 // len(res)           # GE bits per lane
    for i, (v, is_add) in enumerate(zip(res, adds)):
        if prefix in ('S', 'U'):
            lane = uint(v, width)
            if prefix == 'S':
                g = v >= 0
            else:
                g = (v >= (1 << width)) if is_add else (v >= 0)
            ge = ge | (ite(g, (1 << per) - 1, 0) << (per * i))
        elif prefix == 'Q':
            lane = P.SignedSatQ(v, width)[0]
        elif prefix == 'UQ':
            lane = P.UnsignedSatQ(v, width)[0]
        else:                      # SH / UH: halving
            lane = uint(v >> 1, width)
        out = out | (lane << (width * i))
    cpu.setR(d, out)
    if prefix in ('S', 'U'):
        cpu.set_flags(ge=ge)


def op_sel(cpu, d, n, m):
    rn, rm = cpu.R(n), cpu.R(m)
    ge = bits(cpu.cpsr, 19, 16)
    out = 0
    for i in range(4):
        out = out | (ite(bit(ge, i) == 1, bits(rn, 8 * i + 7, 8 * i), bits(rm, 8 * i + 7, 8 * i)) << (8 * i))
    cpu.setR(d, out)


# ------------------------------------------------------------------------------------------------ extend / misc

def ror32(x, r):
    """rotate right by 8*rotate (rotate 0..3, possibly symbolic)"""
    out = x
    for k in (1, 2, 3):
        out = ite(r == k, ((x >> (8 * k)) | (x << (32 - 8 * k))) & M32, out)
    return out


def op_extend(cpu, d, n, m, rotate, kind, signed):
    """kind: 'B' 'H' 'B16'; n None for the non-accumulating forms"""
    rot = ror32(cpu.R(m), rotate)
    ext = (lambda v, w, to: P.SignExtend(v, w, to)) if signed else (lambda v, w, to: v)
    if kind == 'B':
        v = ext(bits(rot, 7, 0), 8, 32)
        r = v if n is None else (cpu.R(n) + v) & M32
    elif kind == 'H':
        v = ext(bits(rot, 15, 0), 16, 32)
        r = v if n is None else (cpu.R(n) + v) & M32
    else:
        lo, hi = ext(bits(rot, 7, 0), 8, 16), ext(bits(rot, 23, 16), 8, 16)
        if n is not None:
            rn = cpu.R(n)
            lo, hi = (bits(rn, 15, 0) + lo) & 0xFFFF, (bits(rn, 31, 16) + hi) & 0xFFFF
        r = (hi << 16) | lo
    cpu.setR(d, r)


def mask_between(msb, lsb):
    """bits msb..lsb set (msb >= lsb), possibly symbolic"""
    return ((((1 << 32) - 1) >> (31 - msb)) >> lsb) << lsb


def op_bfc(cpu, d, msb, lsb):
    cpu.UNPREDICTABLE(msb < lsb)
    m = mask_between(msb, lsb) & M32
    cpu.setR(d, cpu.R(d) & (m ^ M32))


def op_bfi(cpu, d, n, msb, lsb):
    cpu.UNPREDICTABLE(msb < lsb)
    m = mask_between(msb, lsb) & M32
    cpu.setR(d, (cpu.R(d) & (m ^ M32)) | ((cpu.R(n) << lsb) & m))


def op_bfx(cpu, d, n, lsb, widthm1, signed):
    msb = lsb + widthm1
    cpu.UNPREDICTABLE(msb > 31)
    v = (cpu.R(n) >> lsb) & ((2 << widthm1) - 1)
    if signed:
        sign = (v >> widthm1) & 1
        v = ite(sign == 1, (v | ((M32 << widthm1) << 1)) & M32, v)
    cpu.setR(d, v & M32)


def op_pkh(cpu, d, n, m, tb, imm5):
    st, sn = P.DecodeImmShift(tb << 1, imm5)
    op2 = P.Shift(cpu.R(m), 32, st, sn, cpu.C)
    rn = cpu.R(n)
    lo = ite(tb == 1, bits(op2, 15, 0), bits(rn, 15, 0))
    hi = ite(tb == 1, bits(rn, 31, 16), bits(op2, 31, 16))
    cpu.setR(d, (hi << 16) | lo)


def op_rev(cpu, d, m, kind):
    x = cpu.R(m)
    b0, b1, b2, b3 = bits(x, 7, 0), bits(x, 15, 8), bits(x, 23, 16), bits(x, 31, 24)
    if kind == 'REV':
        r = (b0 << 24) | (b1 << 16) | (b2 << 8) | b3
    elif kind == 'REV16':
        r = (b2 << 24) | (b3 << 16) | (b0 << 8) | b1
    elif kind == 'REVSH':
        r = P.SignExtend((b0 << 8) | b1, 16, 32)
    else:                          # RBIT
        r = 0
        for i in range(32):
            r = r | (bit(x, i) << (31 - i))
    cpu.setR(d, r)


def op_clz(cpu, d, m):
    cpu.setR(d, P.CountLeadingZeroBits(cpu.R(m), 32))


# ------------------------------------------------------------------------------------------------ rows

def build(T):
    C = 'cond:4'
    nu = lambda f: f['cond'] != 15

    def arm(cls, pat, op, unp=None, when=None):
        w = nu if when is None else (lambda f: land(nu(f), when(f)))
        return T.add(cls, 'arm', ('%s ' % C) + pat, op, family='C09', when=w, unpred=unp)

    def t32(cls, pat, op, unp=None, when=None):
        return T.add(cls, 't32', pat, op, family='C09', when=when, unpred=unp)

    def t16(cls, pat, op, unp=None):
        return T.add(cls, 't16', pat, op, family='C09', unpred=unp)
    S = lambda f: f['S'] == 1
    pcs = lambda *names: (lambda f, c: anypc(f, *names))
    bads = lambda *names: (lambda f, c: anybad(f, *names))

    # ---- multiply (A5.2.5) / Thumb A6.3.16, A6.3.17
    arm('MulA1', '0000000 S Rd:4 (0000) Rm:4 1001 Rn:4', lambda c, f: op_mul(c, f['Rd'], f['Rn'], f['Rm'], S(f)),
        lambda f, c: lor(anypc(f, 'Rd', 'Rn', 'Rm'), land(c.arch() < 6, f['Rd'] == f['Rn'])))
    arm('MlaA1', '0000001 S Rd:4 Ra:4 Rm:4 1001 Rn:4', lambda c, f: op_mla(c, f['Rd'], f['Rn'], f['Rm'], f['Ra'], S(f)),
        lambda f, c: lor(anypc(f, 'Rd', 'Rn', 'Rm', 'Ra'), land(c.arch() < 6, f['Rd'] == f['Rn'])))
    arm('MlsA1', '00000110 Rd:4 Ra:4 Rm:4 1001 Rn:4', lambda c, f: op_mls(c, f['Rd'], f['Rn'], f['Rm'], f['Ra']), pcs('Rd', 'Rn', 'Rm', 'Ra'))
    long_up = lambda f, c: lor(anypc(f, 'RdHi', 'RdLo', 'Rn', 'Rm'), f['RdHi'] == f['RdLo'],
                               land(c.arch() < 6, lor(f['RdHi'] == f['Rn'], f['RdLo'] == f['Rn'])))
    long_up7 = lambda f, c: lor(anypc(f, 'RdHi', 'RdLo', 'Rn', 'Rm'), f['RdHi'] == f['RdLo'])
    L = lambda fn: (lambda c, f: fn(c, f['RdHi'], f['RdLo'], f['Rn'], f['Rm'], S(f)))
    arm('UmaalA1', '00000100 RdHi:4 RdLo:4 Rm:4 1001 Rn:4', lambda c, f: op_umaal(c, f['RdHi'], f['RdLo'], f['Rn'], f['Rm']), long_up7)
    arm('UmullA1', '0000100 S RdHi:4 RdLo:4 Rm:4 1001 Rn:4', L(op_umull), long_up)
    arm('UmlalA1', '0000101 S RdHi:4 RdLo:4 Rm:4 1001 Rn:4', L(op_umlal), long_up)
    arm('SmullA1', '0000110 S RdHi:4 RdLo:4 Rm:4 1001 Rn:4', L(op_smull), long_up)
    arm('SmlalA1', '0000111 S RdHi:4 RdLo:4 Rm:4 1001 Rn:4', L(op_smlal), long_up)
    arm('SmlaA1', '00010000 Rd:4 Ra:4 Rm:4 1 M N 0 Rn:4', lambda c, f: op_smlaxy(c, f['Rd'], f['Rn'], f['Rm'], f['Ra'], f['N'], f['M']),
        pcs('Rd', 'Rn', 'Rm', 'Ra'))
    arm('SmlawA1', '00010010 Rd:4 Ra:4 Rm:4 1 M 0 0 Rn:4', lambda c, f: op_smlaw(c, f['Rd'], f['Rn'], f['Rm'], f['Ra'], f['M']),
        pcs('Rd', 'Rn', 'Rm', 'Ra'))
    arm('SmulwA1', '00010010 Rd:4 (0000) Rm:4 1 M 1 0 Rn:4', lambda c, f: op_smulw(c, f['Rd'], f['Rn'], f['Rm'], f['M']), pcs('Rd', 'Rn', 'Rm'))
    arm('SmlalxyA1', '00010100 RdHi:4 RdLo:4 Rm:4 1 M N 0 Rn:4',
        lambda c, f: op_smlalxy(c, f['RdHi'], f['RdLo'], f['Rn'], f['Rm'], f['N'], f['M']), long_up7)
    arm('SmulA1', '00010110 Rd:4 (0000) Rm:4 1 M N 0 Rn:4', lambda c, f: op_smulxy(c, f['Rd'], f['Rn'], f['Rm'], f['N'], f['M']),
        pcs('Rd', 'Rn', 'Rm'))
    a_not15 = lambda f: f['Ra'] != 15
    arm('SmladA1', '01110000 Rd:4 Ra:4 Rm:4 00 M 1 Rn:4', lambda c, f: op_smlad(c, f['Rd'], f['Rn'], f['Rm'], f['Ra'], f['M']),
        pcs('Rd', 'Rn', 'Rm'), when=a_not15)
    arm('SmuadA1', '01110000 Rd:4 1111 Rm:4 00 M 1 Rn:4', lambda c, f: op_smuad(c, f['Rd'], f['Rn'], f['Rm'], f['M']), pcs('Rd', 'Rn', 'Rm'))
    arm('SmlsdA1', '01110000 Rd:4 Ra:4 Rm:4 01 M 1 Rn:4', lambda c, f: op_smlad(c, f['Rd'], f['Rn'], f['Rm'], f['Ra'], f['M'], sub=True),
        pcs('Rd', 'Rn', 'Rm'), when=a_not15)
    arm('SmusdA1', '01110000 Rd:4 1111 Rm:4 01 M 1 Rn:4', lambda c, f: op_smusd(c, f['Rd'], f['Rn'], f['Rm'], f['M']), pcs('Rd', 'Rn', 'Rm'))
    arm('SmlaldA1', '01110100 RdHi:4 RdLo:4 Rm:4 00 M 1 Rn:4', lambda c, f: op_smlald(c, f['RdHi'], f['RdLo'], f['Rn'], f['Rm'], f['M']), long_up7)
    arm('SmlsldA1', '01110100 RdHi:4 RdLo:4 Rm:4 01 M 1 Rn:4',
        lambda c, f: op_smlald(c, f['RdHi'], f['RdLo'], f['Rn'], f['Rm'], f['M'], sub=True), long_up7)
    arm('SmmlaA1', '01110101 Rd:4 Ra:4 Rm:4 00 R 1 Rn:4', lambda c, f: op_smmul(c, f['Rd'], f['Rn'], f['Rm'], f['R'], a=f['Ra']),
        pcs('Rd', 'Rn', 'Rm'), when=a_not15)
    arm('SmmulA1', '01110101 Rd:4 1111 Rm:4 00 R 1 Rn:4', lambda c, f: op_smmul(c, f['Rd'], f['Rn'], f['Rm'], f['R']), pcs('Rd', 'Rn', 'Rm'))
    arm('SmmlsA1', '01110101 Rd:4 Ra:4 Rm:4 11 R 1 Rn:4', lambda c, f: op_smmul(c, f['Rd'], f['Rn'], f['Rm'], f['R'], a=f['Ra'], sub=True),
        pcs('Rd', 'Rn', 'Rm', 'Ra'))
    arm('SdivA1', '01110001 Rd:4 (1111) Rm:4 0001 Rn:4', lambda c, f: op_div(c, f['Rd'], f['Rn'], f['Rm'], True), pcs('Rd', 'Rn', 'Rm'))
    arm('UdivA1', '01110011 Rd:4 (1111) Rm:4 0001 Rn:4', lambda c, f: op_div(c, f['Rd'], f['Rn'], f['Rm'], False), pcs('Rd', 'Rn', 'Rm'))
    arm('Usad8A1', '01111000 Rd:4 1111 Rm:4 0001 Rn:4', lambda c, f: op_usad8(c, f['Rd'], f['Rn'], f['Rm']), pcs('Rd', 'Rn', 'Rm'))
    arm('Usada8A1', '01111000 Rd:4 Ra:4 Rm:4 0001 Rn:4', lambda c, f: op_usad8(c, f['Rd'], f['Rn'], f['Rm'], f['Ra']), pcs('Rd', 'Rn', 'Rm'), when=a_not15)

    t16('MulT1', '010000 1101 Rn:3 Rdm:3', lambda c, f: op_mul(c, f['Rdm'], f['Rn'], f['Rdm'], lnot(c.in_it_block())),
        lambda f, c: land(c.arch() < 6, f['Rdm'] == f['Rn']))
    t32('MulT2', '11111 0110 000 Rn:4 1111 Rd:4 0000 Rm:4', lambda c, f: op_mul(c, f['Rd'], f['Rn'], f['Rm'], False), bads('Rd', 'Rn', 'Rm'))
    t32('MlaT1', '11111 0110 000 Rn:4 Ra:4 Rd:4 0000 Rm:4', lambda c, f: op_mla(c, f['Rd'], f['Rn'], f['Rm'], f['Ra'], False),
        lambda f, c: lor(anybad(f, 'Rd', 'Rn', 'Rm'), f['Ra'] == 13), when=a_not15)
    t32('MlsT1', '11111 0110 000 Rn:4 Ra:4 Rd:4 0001 Rm:4', lambda c, f: op_mls(c, f['Rd'], f['Rn'], f['Rm'], f['Ra']), bads('Rd', 'Rn', 'Rm', 'Ra'))
    tl_up = lambda f, c: lor(anybad(f, 'RdHi', 'RdLo', 'Rn', 'Rm'), f['RdHi'] == f['RdLo'])
    TL = lambda fn: (lambda c, f: fn(c, f['RdHi'], f['RdLo'], f['Rn'], f['Rm'], False))
    t32('SmullT1', '11111 0111 000 Rn:4 RdLo:4 RdHi:4 0000 Rm:4', TL(op_smull), tl_up)
    t32('UmullT1', '11111 0111 010 Rn:4 RdLo:4 RdHi:4 0000 Rm:4', TL(op_umull), tl_up)
    t32('SmlalT1', '11111 0111 100 Rn:4 RdLo:4 RdHi:4 0000 Rm:4', TL(op_smlal), tl_up)
    t32('UmlalT1', '11111 0111 110 Rn:4 RdLo:4 RdHi:4 0000 Rm:4', TL(op_umlal), tl_up)
    t32('UmaalT1', '11111 0111 110 Rn:4 RdLo:4 RdHi:4 0110 Rm:4', lambda c, f: op_umaal(c, f['RdHi'], f['RdLo'], f['Rn'], f['Rm']), tl_up)
    t32('SmlalxyT1', '11111 0111 100 Rn:4 RdLo:4 RdHi:4 10 N M Rm:4',
        lambda c, f: op_smlalxy(c, f['RdHi'], f['RdLo'], f['Rn'], f['Rm'], f['N'], f['M']), tl_up)
    t32('SmlaldT1', '11111 0111 100 Rn:4 RdLo:4 RdHi:4 110 M Rm:4', lambda c, f: op_smlald(c, f['RdHi'], f['RdLo'], f['Rn'], f['Rm'], f['M']), tl_up)
    t32('SmlsldT1', '11111 0111 101 Rn:4 RdLo:4 RdHi:4 110 M Rm:4',
        lambda c, f: op_smlald(c, f['RdHi'], f['RdLo'], f['Rn'], f['Rm'], f['M'], sub=True), tl_up)
    t32('SdivT1', '11111 0111 001 Rn:4 (1111) Rd:4 1111 Rm:4', lambda c, f: op_div(c, f['Rd'], f['Rn'], f['Rm'], True), bads('Rd', 'Rn', 'Rm'))
    t32('UdivT1', '11111 0111 011 Rn:4 (1111) Rd:4 1111 Rm:4', lambda c, f: op_div(c, f['Rd'], f['Rn'], f['Rm'], False), bads('Rd', 'Rn', 'Rm'))
    t_up3a = lambda f, c: lor(anybad(f, 'Rd', 'Rn', 'Rm'), f['Ra'] == 13)
    t32('SmlaT1', '11111 0110 001 Rn:4 Ra:4 Rd:4 00 N M Rm:4', lambda c, f: op_smlaxy(c, f['Rd'], f['Rn'], f['Rm'], f['Ra'], f['N'], f['M']),
        t_up3a, when=a_not15)
    t32('SmulT1', '11111 0110 001 Rn:4 1111 Rd:4 00 N M Rm:4', lambda c, f: op_smulxy(c, f['Rd'], f['Rn'], f['Rm'], f['N'], f['M']), bads('Rd', 'Rn', 'Rm'))
    t32('SmladT1', '11111 0110 010 Rn:4 Ra:4 Rd:4 000 M Rm:4', lambda c, f: op_smlad(c, f['Rd'], f['Rn'], f['Rm'], f['Ra'], f['M']), t_up3a, when=a_not15)
    t32('SmuadT1', '11111 0110 010 Rn:4 1111 Rd:4 000 M Rm:4', lambda c, f: op_smuad(c, f['Rd'], f['Rn'], f['Rm'], f['M']), bads('Rd', 'Rn', 'Rm'))
    t32('SmlawT1', '11111 0110 011 Rn:4 Ra:4 Rd:4 000 M Rm:4', lambda c, f: op_smlaw(c, f['Rd'], f['Rn'], f['Rm'], f['Ra'], f['M']), t_up3a, when=a_not15)
    t32('SmulwT1', '11111 0110 011 Rn:4 1111 Rd:4 000 M Rm:4', lambda c, f: op_smulw(c, f['Rd'], f['Rn'], f['Rm'], f['M']), bads('Rd', 'Rn', 'Rm'))
    t32('SmlsdT1', '11111 0110 100 Rn:4 Ra:4 Rd:4 000 M Rm:4', lambda c, f: op_smlad(c, f['Rd'], f['Rn'], f['Rm'], f['Ra'], f['M'], sub=True),
        t_up3a, when=a_not15)
    t32('SmusdT1', '11111 0110 100 Rn:4 1111 Rd:4 000 M Rm:4', lambda c, f: op_smusd(c, f['Rd'], f['Rn'], f['Rm'], f['M']), bads('Rd', 'Rn', 'Rm'))
    t32('SmmlaT1', '11111 0110 101 Rn:4 Ra:4 Rd:4 000 R Rm:4', lambda c, f: op_smmul(c, f['Rd'], f['Rn'], f['Rm'], f['R'], a=f['Ra']), t_up3a, when=a_not15)
    t32('SmmulT1', '11111 0110 101 Rn:4 1111 Rd:4 000 R Rm:4', lambda c, f: op_smmul(c, f['Rd'], f['Rn'], f['Rm'], f['R']), bads('Rd', 'Rn', 'Rm'))
    t32('SmmlsT1', '11111 0110 110 Rn:4 Ra:4 Rd:4 000 R Rm:4', lambda c, f: op_smmul(c, f['Rd'], f['Rn'], f['Rm'], f['R'], a=f['Ra'], sub=True),
        bads('Rd', 'Rn', 'Rm', 'Ra'))
    t32('Usad8T1', '11111 0110 111 Rn:4 1111 Rd:4 0000 Rm:4', lambda c, f: op_usad8(c, f['Rd'], f['Rn'], f['Rm']), bads('Rd', 'Rn', 'Rm'))
    t32('Usada8T1', '11111 0110 111 Rn:4 Ra:4 Rd:4 0000 Rm:4', lambda c, f: op_usad8(c, f['Rd'], f['Rn'], f['Rm'], f['Ra']), t_up3a, when=a_not15)

    # ---- saturating (A5.2.6 / A5.4.3; Thumb A6.3.13, A6.3.3)
    for nm, code, sub, dbl in (('Qadd', '00', False, False), ('Qsub', '01', True, False), ('Qdadd', '10', False, True), ('Qdsub', '11', True, True)):
        arm(nm + 'A1', '00010 %s 0 Rn:4 Rd:4 (0000) 0101 Rm:4' % code,
            (lambda sub, dbl: lambda c, f: op_qaddsub(c, f['Rd'], f['Rn'], f['Rm'], sub, dbl))(sub, dbl), pcs('Rd', 'Rn', 'Rm'))
    for nm, code, sub, dbl in (('Qadd', '00', False, False), ('Qdadd', '01', False, True), ('Qsub', '10', True, False), ('Qdsub', '11', True, True)):
        t32(nm + 'T1', '11111 010 1000 Rn:4 1111 Rd:4 10 %s Rm:4' % code,
            (lambda sub, dbl: lambda c, f: op_qaddsub(c, f['Rd'], f['Rn'], f['Rm'], sub, dbl))(sub, dbl), bads('Rd', 'Rn', 'Rm'))
    arm('SsatA1', '0110101 sat:5 Rd:4 imm5:5 sh 01 Rn:4', lambda c, f: op_ssat(c, f['Rd'], f['Rn'], f['sat'] + 1, f['sh'], f['imm5']), pcs('Rd', 'Rn'))
    arm('UsatA1', '0110111 sat:5 Rd:4 imm5:5 sh 01 Rn:4', lambda c, f: op_usat(c, f['Rd'], f['Rn'], f['sat'], f['sh'], f['imm5']), pcs('Rd', 'Rn'))
    arm('Ssat16A1', '01101010 sat:4 Rd:4 (1111) 0011 Rn:4', lambda c, f: op_sat16(c, f['Rd'], f['Rn'], f['sat'] + 1, True), pcs('Rd', 'Rn'))
    arm('Usat16A1', '01101110 sat:4 Rd:4 (1111) 0011 Rn:4', lambda c, f: op_sat16(c, f['Rd'], f['Rn'], f['sat'], False), pcs('Rd', 'Rn'))
    imm32_ = lambda f: (f['imm3'] << 2) | f['imm2']
    not16 = lambda f: lnot(land(f['sh'] == 1, imm32_(f) == 0))
    t32('SsatT1', '11110 (0) 11 00 sh 0 Rn:4 0 imm3:3 Rd:4 imm2:2 (0) sat:5',
        lambda c, f: op_ssat(c, f['Rd'], f['Rn'], f['sat'] + 1, f['sh'], imm32_(f)), bads('Rd', 'Rn'), when=not16)
    t32('UsatT1', '11110 (0) 11 10 sh 0 Rn:4 0 imm3:3 Rd:4 imm2:2 (0) sat:5',
        lambda c, f: op_usat(c, f['Rd'], f['Rn'], f['sat'], f['sh'], imm32_(f)), bads('Rd', 'Rn'), when=not16)
    t32('Ssat16T1', '11110 (0) 11 0010 Rn:4 0000 Rd:4 00 (00) sat:4', lambda c, f: op_sat16(c, f['Rd'], f['Rn'], f['sat'] + 1, True), bads('Rd', 'Rn'))
    t32('Usat16T1', '11110 (0) 11 1010 Rn:4 0000 Rd:4 00 (00) sat:4', lambda c, f: op_sat16(c, f['Rd'], f['Rn'], f['sat'], False), bads('Rd', 'Rn'))

    # ---- parallel addition and subtraction (A5.4.1, A5.4.2 / A6.3.14, A6.3.15)
    A_PREFIX = {'S': '001', 'Q': '010', 'SH': '011', 'U': '101', 'UQ': '110', 'UH': '111'}
    A_KIND = {'ADD16': '000', 'ASX': '001', 'SAX': '010', 'SUB16': '011', 'ADD8': '100', 'SUB8': '111'}
    T_KIND = {'ADD16': '001', 'ASX': '010', 'SAX': '110', 'SUB16': '101', 'ADD8': '000', 'SUB8': '100'}
    T_PREFIX = {'S': '000', 'Q': '001', 'SH': '010', 'U': '100', 'UQ': '101', 'UH': '110'}
    NAME = {'ADD16': 'add16', 'ASX': 'asx', 'SAX': 'sax', 'SUB16': 'sub16', 'ADD8': 'add8', 'SUB8': 'sub8'}
    for pfx in A_PREFIX:
        for kind in A_KIND:
            cls = (pfx.lower() + NAME[kind]).capitalize()
            mk = (lambda pfx, kind: lambda c, f: op_parallel(c, f['Rd'], f['Rn'], f['Rm'], pfx, kind))(pfx, kind)
            arm(cls + 'A1', '01100 %s Rn:4 Rd:4 (1111) %s 1 Rm:4' % (A_PREFIX[pfx], A_KIND[kind]), mk, pcs('Rd', 'Rn', 'Rm'))
            t32(cls + 'T1', '11111 010 1 %s Rn:4 1111 Rd:4 0 %s Rm:4' % (T_KIND[kind], T_PREFIX[pfx]), mk, bads('Rd', 'Rn', 'Rm'))
    arm('SelA1', '01101000 Rn:4 Rd:4 (1111) 1011 Rm:4', lambda c, f: op_sel(c, f['Rd'], f['Rn'], f['Rm']), pcs('Rd', 'Rn', 'Rm'))
    t32('SelT1', '11111 010 1010 Rn:4 1111 Rd:4 1000 Rm:4', lambda c, f: op_sel(c, f['Rd'], f['Rn'], f['Rm']), bads('Rd', 'Rn', 'Rm'))

    # ---- extend, extend-and-add (A5.4.3 / A6.3.12, 16-bit A6.2.5)
    A_EXT = {('B16', True): '000', ('B', True): '010', ('H', True): '011', ('B16', False): '100', ('B', False): '110', ('H', False): '111'}
    T_EXT = {('H', True): '000', ('H', False): '001', ('B16', True): '010', ('B16', False): '011', ('B', True): '100', ('B', False): '101'}
    for (kind, signed), code in A_EXT.items():
        base = ('S' if signed else 'U') + 'xt'
        suffix = {'B': 'b', 'H': 'h', 'B16': 'b16'}[kind]
        acc_cls, plain_cls = (base + 'a' + suffix).capitalize(), (base + suffix).capitalize()
        mk_acc = (lambda kind, signed: lambda c, f: op_extend(c, f['Rd'], f['Rn'], f['Rm'], f['rotate'], kind, signed))(kind, signed)
        mk_pl = (lambda kind, signed: lambda c, f: op_extend(c, f['Rd'], None, f['Rm'], f['rotate'], kind, signed))(kind, signed)
        arm(acc_cls + 'A1', '01101 %s Rn:4 Rd:4 rotate:2 (00) 0111 Rm:4' % code, mk_acc, pcs('Rd', 'Rm'), when=lambda f: f['Rn'] != 15)
        arm(plain_cls + 'A1', '01101 %s 1111 Rd:4 rotate:2 (00) 0111 Rm:4' % code, mk_pl, pcs('Rd', 'Rm'))
        tcode = T_EXT[(kind, signed)]
        t32(acc_cls + 'T1', '11111 010 0 %s Rn:4 1111 Rd:4 1 (0) rotate:2 Rm:4' % tcode, mk_acc, bads('Rd', 'Rn', 'Rm'), when=lambda f: f['Rn'] != 15)
        plain_t = plain_cls + ('T2' if kind in ('B', 'H') else 'T1')
        t32(plain_t, '11111 010 0 %s 1111 1111 Rd:4 1 (0) rotate:2 Rm:4' % tcode, mk_pl, bads('Rd', 'Rm'))
    for nm, code, kind, signed in (('SxthT1', '00', 'H', True), ('SxtbT1', '01', 'B', True), ('UxthT1', '10', 'H', False), ('UxtbT1', '11', 'B', False)):
        t16(nm, '1011 0010 %s Rm:3 Rd:3' % code, (lambda kind, signed: lambda c, f: op_extend(c, f['Rd'], None, f['Rm'], 0, kind, signed))(kind, signed))

    # ---- pack, reverse, count, bit-field
    arm('PkhA1', '01101000 Rn:4 Rd:4 imm5:5 tb 01 Rm:4', lambda c, f: op_pkh(c, f['Rd'], f['Rn'], f['Rm'], f['tb'], f['imm5']), pcs('Rd', 'Rn', 'Rm'))
    t32('PkhT1', '11101 01 0110 0 Rn:4 (0) imm3:3 Rd:4 imm2:2 tb 0 Rm:4',
        lambda c, f: op_pkh(c, f['Rd'], f['Rn'], f['Rm'], f['tb'], imm32_(f)), bads('Rd', 'Rn', 'Rm'))
    for nm, hi, lo, kind in (('Rev', '01101011', '0011', 'REV'), ('Rev16', '01101011', '1011', 'REV16'), ('Rbit', '01101111', '0011', 'RBIT'),
                             ('Revsh', '01101111', '1011', 'REVSH')):
        arm(nm + 'A1', '%s (1111) Rd:4 (1111) %s Rm:4' % (hi, lo), (lambda kind: lambda c, f: op_rev(c, f['Rd'], f['Rm'], kind))(kind), pcs('Rd', 'Rm'))
    same_m = lambda f, c: lor(anybad(f, 'Rd', 'Rm'), f['Rm'] != f['Rm2'])
    for nm, code, kind in (('RevT2', '00', 'REV'), ('Rev16T2', '01', 'REV16'), ('RbitT1', '10', 'RBIT'), ('RevshT2', '11', 'REVSH')):
        t32(nm, '11111 010 1001 Rm2:4 1111 Rd:4 10 %s Rm:4' % code, (lambda kind: lambda c, f: op_rev(c, f['Rd'], f['Rm'], kind))(kind), same_m)
    for nm, code, kind in (('RevT1', '00', 'REV'), ('Rev16T1', '01', 'REV16'), ('RevshT1', '11', 'REVSH')):
        t16(nm, '1011 1010 %s Rm:3 Rd:3' % code, (lambda kind: lambda c, f: op_rev(c, f['Rd'], f['Rm'], kind))(kind))
    arm('ClzA1', '00010110 (1111) Rd:4 (1111) 0001 Rm:4', lambda c, f: op_clz(c, f['Rd'], f['Rm']), pcs('Rd', 'Rm'))
    t32('ClzT1', '11111 010 1011 Rm2:4 1111 Rd:4 1000 Rm:4', lambda c, f: op_clz(c, f['Rd'], f['Rm']), same_m)
    arm('BfcA1', '0111110 msb:5 Rd:4 lsb:5 001 1111', lambda c, f: op_bfc(c, f['Rd'], f['msb'], f['lsb']), pcs('Rd'))
    arm('BfiA1', '0111110 msb:5 Rd:4 lsb:5 001 Rn:4', lambda c, f: op_bfi(c, f['Rd'], f['Rn'], f['msb'], f['lsb']), pcs('Rd'), when=lambda f: f['Rn'] != 15)
    arm('SbfxA1', '0111101 widthm1:5 Rd:4 lsb:5 101 Rn:4', lambda c, f: op_bfx(c, f['Rd'], f['Rn'], f['lsb'], f['widthm1'], True), pcs('Rd', 'Rn'))
    arm('UbfxA1', '0111111 widthm1:5 Rd:4 lsb:5 101 Rn:4', lambda c, f: op_bfx(c, f['Rd'], f['Rn'], f['lsb'], f['widthm1'], False), pcs('Rd', 'Rn'))
    t32('BfcT1', '11110 (0) 11 0110 1111 0 imm3:3 Rd:4 imm2:2 (0) msb:5', lambda c, f: op_bfc(c, f['Rd'], f['msb'], imm32_(f)), bads('Rd'))
    t32('BfiT1', '11110 (0) 11 0110 Rn:4 0 imm3:3 Rd:4 imm2:2 (0) msb:5', lambda c, f: op_bfi(c, f['Rd'], f['Rn'], f['msb'], imm32_(f)),
        lambda f, c: lor(badreg(f['Rd']), f['Rn'] == 13), when=lambda f: f['Rn'] != 15)
    t32('SbfxT1', '11110 (0) 11 0100 Rn:4 0 imm3:3 Rd:4 imm2:2 (0) widthm1:5',
        lambda c, f: op_bfx(c, f['Rd'], f['Rn'], imm32_(f), f['widthm1'], True), bads('Rd', 'Rn'))
    t32('UbfxT1', '11110 (0) 11 1100 Rn:4 0 imm3:3 Rd:4 imm2:2 (0) widthm1:5',
        lambda c, f: op_bfx(c, f['Rd'], f['Rn'], imm32_(f), f['widthm1'], False), bads('Rd', 'Rn'))
