"""Single-register load/store operation specs (ARM ARM A8.8.62-A8.8.90, A8.8.203-A8.8.220) and encoding rows
(A5.3, A5.2.8, A6.2.4, A6.3.7-A6.3.10).  Memory goes through the same abstract MemU/MemA functions as the
L5 contracts (contracts/absmem.py); fault paths are specified separately (step level, abort clause)."""
from .rt import ite, land, lor, lnot, bits, bit, b2i, M32
from . import prims as P
from . import state as ST


AM_OVERRIDE = [None]       # spec-level lemmas interpret the abstract memory (e.g. as a flat word array)


def _am():
    if AM_OVERRIDE[0] is not None:
        return AM_OVERRIDE[0]
    from contracts import absmem
    return absmem


def priv_cur(cpu):
    return cpu.mode() != ST.USR


def mem_read(cpu, kind, addr, size, unpriv=False):
    am = _am()
    priv = False if unpriv else priv_cur(cpu)
    k = am.KIND_A if kind == 'A' else am.KIND_U
    if cpu.native_mem is not None:
        return cpu.native_mem.read(k, priv, addr, size)
    return am.mem_read(cpu.st['mem'], k, priv, addr, size)


def mem_write(cpu, kind, addr, size, value, unpriv=False):
    am = _am()
    priv = False if unpriv else priv_cur(cpu)
    k = am.KIND_A if kind == 'A' else am.KIND_U
    if cpu.native_mem is not None:
        cpu.native_mem.write(k, priv, addr, size, value)
        return
    cpu.st['mem'] = am.mem_write(cpu.st['mem'], k, priv, addr, size, value)


def unaligned_support(cpu):
    return bit(cpu.st['sctlr'], 22) == 1


def sign_ext(v, n):
    return (v - (bit(v, n - 1) << n)) & M32


def load_store(cpu, load, size, signed, t, n, offset, add, index, wback, literal=False, unpriv=False, post_unpriv=None):
    """common single-register transfer. t, n register numbers (symbolic allowed); offset value; add/index/wback truth values"""
    if literal:
        base = cpu.pc() & 0xFFFFFFFC
    else:
        base = cpu.R(n)
    offset_addr = ite(add, (base + offset) & M32, (base - offset) & M32)
    address = ite(index, offset_addr, base)
    us = unaligned_support(cpu)
    if load:
        data = mem_read(cpu, 'U', address, size, unpriv)
        if not literal:
            cpu.when(wback, lambda k: k.setR(n, offset_addr))
        if size == 4:
            aligned = bits(address, 1, 0) == 0

            def to_pc(k):
                k.UNPREDICTABLE(lnot(aligned))
                k.load_write_pc(data)

            def to_reg(k):
                if cpu.iset == 'arm':
                    k.setR(t, ite(lor(us, aligned), data, P.ROR_C(data, 32, ite(aligned, 8, 8 * bits(address, 1, 0)))[0]))
                else:
                    # R[t] = bits(32) UNKNOWN: only the loaded register is unspecified - the access itself (address,
                    # privilege, abort) and the write-back are as for an aligned access
                    k.setR(t, data)
                    k.unknown_bits_R(t, ite(lor(us, aligned), 0, M32))
            cpu.cases([(t == 15, to_pc), (True, to_reg)])
        elif size == 2:
            cpu.setR(t, sign_ext(data, 16) if signed else data)
            cpu.unknown_bits_R(t, ite(lor(us, bit(address, 0) == 0), 0, M32))
        else:
            cpu.setR(t, sign_ext(data, 8) if signed else data)
    else:
        if size == 4:
            data = ite(t == 15, cpu.pc(), cpu.R(ite(t == 15, 0, t)))
            if cpu.iset != 'arm':
                # MemU[address,4] = bits(32) UNKNOWN: the stored *value* is unspecified (taken from the implementation:
                # oracle.unknown_store is what it wrote), the access - address, size, privilege, abort - is not
                data = ite(lor(us, bits(address, 1, 0) == 0), data, cpu.st.get('oracle.unknown_store', 0) & M32)
            mem_write(cpu, 'U', address, 4, data, unpriv)
        elif size == 2:
            data = ite(lor(us, bit(address, 0) == 0), cpu.R(t) & 0xFFFF, cpu.st.get('oracle.unknown_store', 0) & 0xFFFF)
            mem_write(cpu, 'U', address, 2, data, unpriv)
        else:
            mem_write(cpu, 'U', address, 1, cpu.R(t) & 0xFF, unpriv)
        if not literal:
            cpu.when(wback, lambda k: k.setR(n, offset_addr))


def dual(cpu, load, t, t2, n, offset, add, index, wback, literal=False):
    base = (cpu.pc() & 0xFFFFFFFC) if literal else cpu.R(n)
    offset_addr = ite(add, (base + offset) & M32, (base - offset) & M32)
    address = ite(index, offset_addr, base)
    lpae64 = land(cpu.cfg('have_lpae'), bits(address, 2, 0) == 0)
    be = bit(cpu.cpsr, 9) == 1
    if load:
        def one(k):
            d = mem_read(k, 'A', address, 8)
            k.setR(t, ite(be, bits(d, 63, 32), bits(d, 31, 0)))
            k.setR(t2, ite(be, bits(d, 31, 0), bits(d, 63, 32)))

        def two(k):
            k.setR(t, mem_read(k, 'A', address, 4))
            k.setR(t2, mem_read(k, 'A', (address + 4) & M32, 4))
        cpu.cases([(lpae64, one), (True, two)])
    else:
        def one(k):
            lo, hi = k.R(t), k.R(t2)
            mem_write(k, 'A', address, 8, ite(be, (lo << 32) | hi, (hi << 32) | lo))

        def two(k):
            mem_write(k, 'A', address, 4, k.R(t))
            mem_write(k, 'A', (address + 4) & M32, 4, k.R(t2))
        cpu.cases([(lpae64, one), (True, two)])
    if not literal:
        cpu.when(wback, lambda k: k.setR(n, offset_addr))


def any15(f, *names):
    return lor(*[f[x] == 15 for x in names])


def badreg(x):
    return lor(x == 13, x == 15)


# ------------------------------------------------------------------------------------------------ ARM rows

def build_arm(T):
    C = 'cond:4'
    nu = lambda f: f['cond'] != 15
    add = lambda cls, pat, op, **kw: T.add(cls, 'arm', pat, op, family='C02', **kw)

    def puw(f):
        index = f['P'] == 1
        wback = lor(f['P'] == 0, f['W'] == 1)
        return index, wback

    def imm_op(load, size):
        def op(cpu, f):
            index, wback = puw(f)
            load_store(cpu, load, size, False, f['Rt'], f['Rn'], f['imm12'], f['U'] == 1, index, wback)
        return op

    def reg_op(load, size):
        def op(cpu, f):
            index, wback = puw(f)
            st, sn = P.DecodeImmShift(f['type'], f['imm5'])
            off = P.Shift(cpu.R(f['Rm']), 32, st, sn, cpu.C)
            load_store(cpu, load, size, False, f['Rt'], f['Rn'], off, f['U'] == 1, index, wback)
        return op

    def lit_op(size, signed=False):
        def op(cpu, f):
            imm = f['imm12'] if 'imm12' in f else ((f['imm4H'] << 4) | f['imm4L'])
            load_store(cpu, True, size, signed, f['Rt'], 15, imm, f['U'] == 1, True, False, literal=True)
        return op
    not_t = lambda f: lnot(land(f['P'] == 0, f['W'] == 1))          # P=0,W=1 is the unprivileged (T) form
    wb = lambda f: lor(f['P'] == 0, f['W'] == 1)
    # word / unsigned byte, immediate
    add('StrImmediateArmA1', '%s 010 P U 0 W 0 Rn:4 Rt:4 imm12:12' % C, imm_op(False, 4),
        when=lambda f: land(nu(f), not_t(f), lnot(land(f['Rn'] == 13, f['P'] == 1, f['U'] == 0, f['W'] == 1, f['imm12'] == 4))),
        unpred=lambda f, c: land(wb(f), lor(f['Rn'] == 15, f['Rn'] == f['Rt'])))
    add('LdrImmediateArmA1', '%s 010 P U 0 W 1 Rn:4 Rt:4 imm12:12' % C, imm_op(True, 4),
        when=lambda f: land(nu(f), not_t(f), f['Rn'] != 15, lnot(land(f['Rn'] == 13, f['P'] == 0, f['U'] == 1, f['W'] == 0, f['imm12'] == 4))),
        unpred=lambda f, c: land(wb(f), f['Rn'] == f['Rt']))
    add('LdrLiteralA1', '%s 010 P U 0 W 1 1111 Rt:4 imm12:12' % C, lit_op(4), when=lambda f: land(nu(f), not_t(f)),
        unpred=lambda f, c: lor(f['P'] == 0, f['W'] == 1))
    add('StrbImmediateArmA1', '%s 010 P U 1 W 0 Rn:4 Rt:4 imm12:12' % C, imm_op(False, 1), when=lambda f: land(nu(f), not_t(f)),
        unpred=lambda f, c: lor(f['Rt'] == 15, land(wb(f), lor(f['Rn'] == 15, f['Rn'] == f['Rt']))))
    add('LdrbImmediateArmA1', '%s 010 P U 1 W 1 Rn:4 Rt:4 imm12:12' % C, imm_op(True, 1), when=lambda f: land(nu(f), not_t(f), f['Rn'] != 15),
        unpred=lambda f, c: lor(f['Rt'] == 15, land(wb(f), f['Rn'] == f['Rt'])))
    add('LdrbLiteralA1', '%s 010 P U 1 W 1 1111 Rt:4 imm12:12' % C, lit_op(1), when=lambda f: land(nu(f), not_t(f)),
        unpred=lambda f, c: lor(f['Rt'] == 15, f['P'] == 0, f['W'] == 1))
    # register offset
    reg_up = lambda f, c: lor(f['Rm'] == 15, land(wb(f), lor(f['Rn'] == 15, f['Rn'] == f['Rt'])),
                              land(c.arch() < 6, wb(f), f['Rm'] == f['Rn']))
    add('StrRegisterA1', '%s 011 P U 0 W 0 Rn:4 Rt:4 imm5:5 type:2 0 Rm:4' % C, reg_op(False, 4), when=lambda f: land(nu(f), not_t(f)), unpred=reg_up)
    add('LdrRegisterArmA1', '%s 011 P U 0 W 1 Rn:4 Rt:4 imm5:5 type:2 0 Rm:4' % C, reg_op(True, 4), when=lambda f: land(nu(f), not_t(f)), unpred=reg_up)
    add('StrbRegisterA1', '%s 011 P U 1 W 0 Rn:4 Rt:4 imm5:5 type:2 0 Rm:4' % C, reg_op(False, 1), when=lambda f: land(nu(f), not_t(f)),
        unpred=lambda f, c: lor(f['Rt'] == 15, reg_up(f, c)))
    add('LdrbRegisterA1', '%s 011 P U 1 W 1 Rn:4 Rt:4 imm5:5 type:2 0 Rm:4' % C, reg_op(True, 1), when=lambda f: land(nu(f), not_t(f)),
        unpred=lambda f, c: lor(f['Rt'] == 15, reg_up(f, c)))
    # extra load/store: halfword, signed byte/halfword
    XI = '%s 000 P U 1 W %s Rn:4 Rt:4 imm4H:4 1 %s 1 imm4L:4'
    XR = '%s 000 P U 0 W %s Rn:4 Rt:4 (0000) 1 %s 1 Rm:4'

    def ximm(load, size, signed):
        def op(cpu, f):
            index, wback = puw(f)
            load_store(cpu, load, size, signed, f['Rt'], f['Rn'], (f['imm4H'] << 4) | f['imm4L'], f['U'] == 1, index, wback)
        return op

    def xreg(load, size, signed):
        def op(cpu, f):
            index, wback = puw(f)
            load_store(cpu, load, size, signed, f['Rt'], f['Rn'], cpu.R(f['Rm']), f['U'] == 1, index, wback)
        return op
    x_up_l = lambda f, c: lor(f['Rt'] == 15, land(wb(f), lor(f['Rn'] == 15, f['Rn'] == f['Rt'])))
    x_up_r = lambda f, c: lor(f['Rt'] == 15, f['Rm'] == 15, land(wb(f), lor(f['Rn'] == 15, f['Rn'] == f['Rt'])),
                              land(c.arch() < 6, wb(f), f['Rm'] == f['Rn']))
    for nm, load, size, signed, lbit, op2 in (('Strh', False, 2, False, '0', '01'), ('Ldrh', True, 2, False, '1', '01'),
                                              ('Ldrsb', True, 1, True, '1', '10'), ('Ldrsh', True, 2, True, '1', '11')):
        icls = {'Strh': 'StrhImmediateArmA1', 'Ldrh': 'LdrhImmediateArmA1', 'Ldrsb': 'LdrsbImmediateA1', 'Ldrsh': 'LdrshImmediateA1'}[nm]
        w = (lambda f: land(nu(f), not_t(f), f['Rn'] != 15)) if load else (lambda f: land(nu(f), not_t(f)))
        add(icls, XI % (C, lbit, op2), ximm(load, size, signed), when=w, unpred=x_up_l)
        add(nm + 'RegisterA1', XR % (C, lbit, op2), xreg(load, size, signed), when=lambda f: land(nu(f), not_t(f)), unpred=x_up_r)
        if load:
            add(nm + 'LiteralA1', '%s 000 P U 1 W 1 1111 Rt:4 imm4H:4 1 %s 1 imm4L:4' % (C, op2), lit_op(size, signed), when=lambda f: land(nu(f), not_t(f)),
                unpred=lambda f, c: lor(f['Rt'] == 15, f['P'] == 0, f['W'] == 1))
    # dual
    def dimm(load):
        def op(cpu, f):
            index, wback = puw(f)
            dual(cpu, load, f['Rt'], f['Rt'] + 1, f['Rn'], (f['imm4H'] << 4) | f['imm4L'], f['U'] == 1, index, wback)
        return op

    def dreg(load):
        def op(cpu, f):
            index, wback = puw(f)
            dual(cpu, load, f['Rt'], f['Rt'] + 1, f['Rn'], cpu.R(f['Rm']), f['U'] == 1, index, wback)
        return op
    d_up = lambda f: lor(bit(f['Rt'], 0) == 1, land(f['P'] == 0, f['W'] == 1), f['Rt'] == 14)
    add('LdrdImmediateA1', '%s 000 P U 1 W 0 Rn:4 Rt:4 imm4H:4 1101 imm4L:4' % C, dimm(True), when=lambda f: land(nu(f), f['Rn'] != 15),
        unpred=lambda f, c: lor(d_up(f), land(wb(f), lor(f['Rn'] == f['Rt'], f['Rn'] == f['Rt'] + 1))))
    add('LdrdLiteralA1', '%s 000 (1) U 1 (0) 0 1111 Rt:4 imm4H:4 1101 imm4L:4' % C,
        lambda cpu, f: dual(cpu, True, f['Rt'], f['Rt'] + 1, 15, (f['imm4H'] << 4) | f['imm4L'], f['U'] == 1, True, False, literal=True),
        when=nu, unpred=lambda f, c: lor(bit(f['Rt'], 0) == 1, f['Rt'] == 14))
    add('LdrdRegisterA1', '%s 000 P U 0 W 0 Rn:4 Rt:4 (0000) 1101 Rm:4' % C, dreg(True), when=nu,
        unpred=lambda f, c: lor(d_up(f), f['Rm'] == 15, f['Rm'] == f['Rt'], f['Rm'] == f['Rt'] + 1,
                                land(wb(f), lor(f['Rn'] == 15, f['Rn'] == f['Rt'], f['Rn'] == f['Rt'] + 1)), land(c.arch() < 6, wb(f), f['Rm'] == f['Rn'])))
    add('StrdImmediateA1', '%s 000 P U 1 W 0 Rn:4 Rt:4 imm4H:4 1111 imm4L:4' % C, dimm(False), when=nu,
        unpred=lambda f, c: lor(d_up(f), land(wb(f), lor(f['Rn'] == 15, f['Rn'] == f['Rt'], f['Rn'] == f['Rt'] + 1))))
    add('StrdRegisterA1', '%s 000 P U 0 W 0 Rn:4 Rt:4 (0000) 1111 Rm:4' % C, dreg(False), when=nu,
        unpred=lambda f, c: lor(d_up(f), f['Rm'] == 15, land(wb(f), lor(f['Rn'] == 15, f['Rn'] == f['Rt'], f['Rn'] == f['Rt'] + 1)),
                                land(c.arch() < 6, wb(f), f['Rm'] == f['Rn'])))
    # unprivileged (post-indexed) word / byte
    def t_imm(load, size, signed=False, split=False):
        def op(cpu, f):
            cpu.UNPREDICTABLE(cpu.mode() == ST.HYP)
            imm = ((f['imm4H'] << 4) | f['imm4L']) if split else f['imm12']
            load_store(cpu, load, size, signed, f['Rt'], f['Rn'], imm, f['U'] == 1, False, True, unpriv=True)
        return op

    def t_reg(load, size, signed=False, plain=False):
        def op(cpu, f):
            cpu.UNPREDICTABLE(cpu.mode() == ST.HYP)
            if plain:
                off = cpu.R(f['Rm'])
            else:
                st, sn = P.DecodeImmShift(f['type'], f['imm5'])
                off = P.Shift(cpu.R(f['Rm']), 32, st, sn, cpu.C)
            load_store(cpu, load, size, signed, f['Rt'], f['Rn'], off, f['U'] == 1, False, True, unpriv=True)
        return op
    t_up = lambda f, c: lor(f['Rt'] == 15, f['Rn'] == 15, f['Rn'] == f['Rt'])
    t_up_r = lambda f, c: lor(t_up(f, c), f['Rm'] == 15, land(c.arch() < 6, f['Rm'] == f['Rn']))
    add('LdrtA1', '%s 0100 U 011 Rn:4 Rt:4 imm12:12' % C, t_imm(True, 4), when=nu, unpred=t_up)
    add('LdrtA2', '%s 0110 U 011 Rn:4 Rt:4 imm5:5 type:2 0 Rm:4' % C, t_reg(True, 4), when=nu, unpred=t_up_r)
    add('StrtA1', '%s 0100 U 010 Rn:4 Rt:4 imm12:12' % C, t_imm(False, 4), when=nu, unpred=lambda f, c: lor(f['Rn'] == 15, f['Rn'] == f['Rt']))
    add('StrtA2', '%s 0110 U 010 Rn:4 Rt:4 imm5:5 type:2 0 Rm:4' % C, t_reg(False, 4), when=nu,
        unpred=lambda f, c: lor(f['Rn'] == 15, f['Rn'] == f['Rt'], f['Rm'] == 15, land(c.arch() < 6, f['Rm'] == f['Rn'])))
    add('LdrbtA1', '%s 0100 U 111 Rn:4 Rt:4 imm12:12' % C, t_imm(True, 1), when=nu, unpred=t_up)
    add('LdrbtA2', '%s 0110 U 111 Rn:4 Rt:4 imm5:5 type:2 0 Rm:4' % C, t_reg(True, 1), when=nu, unpred=t_up_r)
    add('StrbtA1', '%s 0100 U 110 Rn:4 Rt:4 imm12:12' % C, t_imm(False, 1), when=nu, unpred=t_up)
    add('StrbtA2', '%s 0110 U 110 Rn:4 Rt:4 imm5:5 type:2 0 Rm:4' % C, t_reg(False, 1), when=nu, unpred=t_up_r)
    for nm, load, size, signed, lbit, op2 in (('Strht', False, 2, False, '0', '01'), ('Ldrht', True, 2, False, '1', '01'),
                                              ('Ldrsbt', True, 1, True, '1', '10'), ('Ldrsht', True, 2, True, '1', '11')):
        add(nm + 'A1', '%s 0000 U 1 1 %s Rn:4 Rt:4 imm4H:4 1 %s 1 imm4L:4' % (C, lbit, op2), t_imm(load, size, signed, split=True), when=nu, unpred=t_up)
        add(nm + 'A2', '%s 0000 U 0 1 %s Rn:4 Rt:4 (0000) 1 %s 1 Rm:4' % (C, lbit, op2), t_reg(load, size, signed, plain=True), when=nu,
            unpred=lambda f, c: lor(t_up(f, c), f['Rm'] == 15))


# ------------------------------------------------------------------------------------------------ Thumb rows

def build_thumb(T):
    t16 = lambda cls, pat, op, **kw: T.add(cls, 't16', pat, op, family='C02', **kw)
    t32 = lambda cls, pat, op, **kw: T.add(cls, 't32', pat, op, family='C02', **kw)

    def simple(load, size, signed, scale, rn_fixed=None):
        def op(cpu, f):
            imm = (f['imm5'] if 'imm5' in f else f['imm8']) << scale
            n = rn_fixed if rn_fixed is not None else f['Rn']
            load_store(cpu, load, size, signed, f['Rt'], n, imm, True, True, False)
        return op
    t16('StrImmediateThumbT1', '011 0 0 imm5:5 Rn:3 Rt:3', simple(False, 4, False, 2))
    t16('LdrImmediateThumbT1', '011 0 1 imm5:5 Rn:3 Rt:3', simple(True, 4, False, 2))
    t16('StrbImmediateThumbT1', '011 1 0 imm5:5 Rn:3 Rt:3', simple(False, 1, False, 0))
    t16('LdrbImmediateThumbT1', '011 1 1 imm5:5 Rn:3 Rt:3', simple(True, 1, False, 0))
    t16('StrhImmediateThumbT1', '1000 0 imm5:5 Rn:3 Rt:3', simple(False, 2, False, 1))
    t16('LdrhImmediateThumbT1', '1000 1 imm5:5 Rn:3 Rt:3', simple(True, 2, False, 1))
    t16('StrImmediateThumbT2', '1001 0 Rt:3 imm8:8', simple(False, 4, False, 2, rn_fixed=13))
    t16('LdrImmediateThumbT2', '1001 1 Rt:3 imm8:8', simple(True, 4, False, 2, rn_fixed=13))
    t16('LdrLiteralT1', '01001 Rt:3 imm8:8', lambda cpu, f: load_store(cpu, True, 4, False, f['Rt'], 15, f['imm8'] << 2, True, True, False, literal=True))

    def reg16(load, size, signed):
        def op(cpu, f):
            load_store(cpu, load, size, signed, f['Rt'], f['Rn'], cpu.R(f['Rm']), True, True, False)
        return op
    for code, (cls, load, size, signed) in enumerate((('StrRegisterT1', False, 4, False), ('StrhRegisterT1', False, 2, False),
                                                      ('StrbRegisterT1', False, 1, False), ('LdrsbRegisterT1', True, 1, True),
                                                      ('LdrRegisterThumbT1', True, 4, False), ('LdrhRegisterT1', True, 2, False),
                                                      ('LdrbRegisterT1', True, 1, False), ('LdrshRegisterT1', True, 2, True))):
        t16(cls, '0101 %s Rm:3 Rn:3 Rt:3' % format(code, '03b'), reg16(load, size, signed))
    # 32-bit: imm12 forms
    def imm12(load, size, signed):
        def op(cpu, f):
            if load and size == 4:
                cpu.UNPREDICTABLE(land(f['Rt'] == 15, cpu.in_it_block(), lnot(cpu.last_in_it_block())))
            load_store(cpu, load, size, signed, f['Rt'], f['Rn'], f['imm12'], True, True, False)
        return op

    def imm8(load, size, signed):
        def op(cpu, f):
            if load and size == 4:
                cpu.UNPREDICTABLE(land(f['Rt'] == 15, cpu.in_it_block(), lnot(cpu.last_in_it_block())))
            load_store(cpu, load, size, signed, f['Rt'], f['Rn'], f['imm8'], f['U'] == 1, f['P'] == 1, f['W'] == 1)
        return op

    def lit32(size, signed):
        def op(cpu, f):
            if size == 4:
                cpu.UNPREDICTABLE(land(f['Rt'] == 15, cpu.in_it_block(), lnot(cpu.last_in_it_block())))
            load_store(cpu, True, size, signed, f['Rt'], 15, f['imm12'], f['U'] == 1, True, False, literal=True)
        return op

    def reg32(load, size, signed):
        def op(cpu, f):
            if load and size == 4:
                cpu.UNPREDICTABLE(land(f['Rt'] == 15, cpu.in_it_block(), lnot(cpu.last_in_it_block())))
            off = (cpu.R(f['Rm']) << f['imm2']) & M32
            load_store(cpu, load, size, signed, f['Rt'], f['Rn'], off, True, True, False)
        return op
    puw_undef = lambda f, c: land(f['P'] == 0, f['W'] == 0)
    not_t = lambda f: lnot(land(f['P'] == 1, f['U'] == 1, f['W'] == 0))
    wbt = lambda f: f['W'] == 1
    # word
    t32('StrImmediateThumbT3', '11111 000 1 10 0 Rn:4 Rt:4 imm12:12', imm12(False, 4, False), undef=lambda f, c: f['Rn'] == 15,
        unpred=lambda f, c: f['Rt'] == 15)
    t32('StrImmediateThumbT4', '11111 000 0 10 0 Rn:4 Rt:4 1 P U W imm8:8', imm8(False, 4, False),
        when=lambda f: land(not_t(f), lnot(land(f['Rn'] == 13, f['P'] == 1, f['U'] == 0, f['W'] == 1, f['imm8'] == 4))),
        undef=lambda f, c: lor(f['Rn'] == 15, puw_undef(f, c)), unpred=lambda f, c: lor(f['Rt'] == 15, land(wbt(f), f['Rn'] == f['Rt'])))
    t32('LdrImmediateThumbT3', '11111 000 1 10 1 Rn:4 Rt:4 imm12:12', imm12(True, 4, False), when=lambda f: f['Rn'] != 15)
    t32('LdrImmediateThumbT4', '11111 000 0 10 1 Rn:4 Rt:4 1 P U W imm8:8', imm8(True, 4, False),
        when=lambda f: land(f['Rn'] != 15, not_t(f), lnot(land(f['Rn'] == 13, f['P'] == 0, f['U'] == 1, f['W'] == 1, f['imm8'] == 4))),
        undef=puw_undef, unpred=lambda f, c: land(wbt(f), f['Rn'] == f['Rt']))
    t32('LdrLiteralT2', '11111 000 U 10 1 1111 Rt:4 imm12:12', lit32(4, False))
    t32('StrRegisterT2', '11111 000 0 10 0 Rn:4 Rt:4 000000 imm2:2 Rm:4', reg32(False, 4, False), undef=lambda f, c: f['Rn'] == 15,
        unpred=lambda f, c: lor(f['Rt'] == 15, badreg(f['Rm'])))
    t32('LdrRegisterThumbT2', '11111 000 0 10 1 Rn:4 Rt:4 000000 imm2:2 Rm:4', reg32(True, 4, False), when=lambda f: f['Rn'] != 15,
        unpred=lambda f, c: badreg(f['Rm']))
    # byte / halfword (unsigned and signed)
    for nm, size, signed, sbit, szbits in (('b', 1, False, '0', '00'), ('h', 2, False, '0', '01'), ('sb', 1, True, '1', '00'), ('sh', 2, True, '1', '01')):
        cap = {'b': 'Ldrb', 'h': 'Ldrh', 'sb': 'Ldrsb', 'sh': 'Ldrsh'}[nm]
        # loads: Rt == 1111 are memory hints (PLD/PLI) / unallocated
        i12cls = {'b': 'LdrbImmediateThumbT2', 'h': 'LdrhImmediateThumbT2', 'sb': 'LdrsbImmediateT1', 'sh': 'LdrshImmediateT1'}[nm]
        i8cls = {'b': 'LdrbImmediateThumbT3', 'h': 'LdrhImmediateThumbT3', 'sb': 'LdrsbImmediateT2', 'sh': 'LdrshImmediateT2'}[nm]
        t32(i12cls, '11111 00 %s 1 %s 1 Rn:4 Rt:4 imm12:12' % (sbit, szbits), imm12(True, size, signed),
            when=lambda f: land(f['Rn'] != 15, f['Rt'] != 15), unpred=lambda f, c: f['Rt'] == 13)
        t32(i8cls, '11111 00 %s 0 %s 1 Rn:4 Rt:4 1 P U W imm8:8' % (sbit, szbits), imm8(True, size, signed),
            when=lambda f: land(f['Rn'] != 15, not_t(f), lnot(land(f['Rt'] == 15, f['P'] == 1, f['U'] == 0, f['W'] == 0))),
            undef=puw_undef, unpred=lambda f, c: lor(f['Rt'] == 13, land(f['Rt'] == 15, f['W'] == 1), land(wbt(f), f['Rn'] == f['Rt'])))
        t32(cap + 'LiteralT1', '11111 00 %s U %s 1 1111 Rt:4 imm12:12' % (sbit, szbits), lit32(size, signed), when=lambda f: f['Rt'] != 15,
            unpred=lambda f, c: f['Rt'] == 13)
        t32(cap + 'RegisterT2', '11111 00 %s 0 %s 1 Rn:4 Rt:4 000000 imm2:2 Rm:4' % (sbit, szbits), reg32(True, size, signed),
            when=lambda f: land(f['Rn'] != 15, f['Rt'] != 15), unpred=lambda f, c: lor(f['Rt'] == 13, badreg(f['Rm'])))
        if not signed:
            s12 = {'b': 'StrbImmediateThumbT2', 'h': 'StrhImmediateThumbT2'}[nm]
            s8 = {'b': 'StrbImmediateThumbT3', 'h': 'StrhImmediateThumbT3'}[nm]
            scap = {'b': 'Strb', 'h': 'Strh'}[nm]
            t32(s12, '11111 000 1 %s 0 Rn:4 Rt:4 imm12:12' % szbits, imm12(False, size, False), undef=lambda f, c: f['Rn'] == 15,
                unpred=lambda f, c: badreg(f['Rt']))
            t32(s8, '11111 000 0 %s 0 Rn:4 Rt:4 1 P U W imm8:8' % szbits, imm8(False, size, False), when=not_t,
                undef=lambda f, c: lor(f['Rn'] == 15, puw_undef(f, c)), unpred=lambda f, c: lor(badreg(f['Rt']), land(wbt(f), f['Rn'] == f['Rt'])))
            t32(scap + 'RegisterT2', '11111 000 0 %s 0 Rn:4 Rt:4 000000 imm2:2 Rm:4' % szbits, reg32(False, size, False),
                undef=lambda f, c: f['Rn'] == 15, unpred=lambda f, c: lor(badreg(f['Rt']), badreg(f['Rm'])))
