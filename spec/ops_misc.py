"""Remaining encodings: Thumb LDRD/STRD (immediate, literal), Thumb unprivileged loads/stores, TBB/TBH (functional rows),
and decode-only rows (op = None: class selection and decode totality are checked, the operation is covered by the
spec-free obligations only): SVC, SMC, UDF, BKPT, IT, CLREX, DSB/ISB, PLD, YIELD, SEV, exclusives, coprocessor."""
from .rt import ite, land, lor, lnot, bits, bit, b2i, M32
from . import state as ST
from .ops_ls import load_store, dual, mem_read


def badreg(x):
    return lor(x == 13, x == 15)


def op_tbb(cpu, n, m, is_tbh):
    cpu.UNPREDICTABLE(land(cpu.in_it_block(), lnot(cpu.last_in_it_block())))
    rn, rm = cpu.R(n), cpu.R(m)

    def tbh(k):
        hw = mem_read(k, 'U', (rn + ((rm << 1) & M32)) & M32, 2)
        k.branch_write_pc((k.pc() + 2 * hw) & M32)

    def tbb(k):
        b = mem_read(k, 'U', (rn + rm) & M32, 1)
        k.branch_write_pc((k.pc() + 2 * b) & M32)
    cpu.cases([(is_tbh, tbh), (True, tbb)])


def excl_value(cpu, t, t2, size):
    if size == 8:
        lo, hi = cpu.R(t), cpu.R(t2)
        be = bit(cpu.cpsr, 9) == 1
        return ite(be, (lo << 32) | hi, (hi << 32) | lo)
    return cpu.R(t) & ((1 << (8 * size)) - 1)


def op_ldrex(cpu, t, n, imm, size, t2=None):
    """LDREX{B,H,D}: SetExclusiveMonitors(address, size) (translation only; the monitors are outside the machine state);
    R[t] = MemA[address, size]"""
    address = (cpu.R(n) + imm) & M32
    if size == 8:
        cpu.UNDEFINED(bits(address, 2, 0) != 0)          # alignment fault instead of normal execution
        d = mem_read(cpu, 'A', address, 8)
        be = bit(cpu.cpsr, 9) == 1
        cpu.setR(t, ite(be, bits(d, 63, 32), bits(d, 31, 0)))
        cpu.setR(t2, ite(be, bits(d, 31, 0), bits(d, 63, 32)))
    else:
        cpu.setR(t, mem_read(cpu, 'A', address, size))


def op_strex(cpu, d, t, n, imm, size, t2=None):
    """STREX{B,H,D}: if ExclusiveMonitorsPass(address, size) then MemA[address, size] = R[t]; R[d] = 0 else R[d] = 1.
    The outcome of the monitors is an oracle of the unit (cpu.st['oracle.excl_pass'])."""
    address = (cpu.R(n) + imm) & M32
    cpu.UNDEFINED((address & (size - 1)) != 0)           # ExclusiveMonitorsPass: alignment fault
    value = excl_value(cpu, t, t2, size)
    ok = cpu.st['oracle.excl_pass']

    def passed(k):
        from .ops_ls import mem_write
        mem_write(k, 'A', address, size, value)
        k.setR(d, 0)
    cpu.cases([(ok, passed), (True, lambda k: k.setR(d, 1))])


def build(T):
    C = 'cond:4'
    nu = lambda f: f['cond'] != 15
    # ---- Thumb LDRD / STRD (A8.8.72-73, A8.8.210)
    puw = lambda f: (f['P'] == 1, land(f['W'] == 1))
    not_related = lambda f: lnot(land(f['P'] == 0, f['W'] == 0))          # P=0,W=0: exclusives / table branch space

    def t_dual(load):
        def op(cpu, f):
            dual(cpu, load, f['Rt'], f['Rt2'], f['Rn'], f['imm8'] << 2, f['U'] == 1, f['P'] == 1, f['W'] == 1)
        return op
    wbk = lambda f: f['W'] == 1
    T.add('LdrdImmediateT1', 't32', '11101 00 P U 1 W 1 Rn:4 Rt:4 Rt2:4 imm8:8', t_dual(True), family='C02',
          when=lambda f: land(not_related(f), f['Rn'] != 15),
          unpred=lambda f, c: lor(land(wbk(f), lor(f['Rn'] == f['Rt'], f['Rn'] == f['Rt2'])), badreg(f['Rt']), badreg(f['Rt2']), f['Rt'] == f['Rt2']))
    T.add('LdrdLiteralT1', 't32', '11101 00 P U 1 W 1 1111 Rt:4 Rt2:4 imm8:8',
          lambda cpu, f: dual(cpu, True, f['Rt'], f['Rt2'], 15, f['imm8'] << 2, f['U'] == 1, True, False, literal=True), family='C02',
          when=not_related, unpred=lambda f, c: lor(badreg(f['Rt']), badreg(f['Rt2']), f['Rt'] == f['Rt2'], f['W'] == 1))
    T.add('StrdImmediateT1', 't32', '11101 00 P U 1 W 0 Rn:4 Rt:4 Rt2:4 imm8:8', t_dual(False), family='C02', when=not_related,
          unpred=lambda f, c: lor(land(wbk(f), lor(f['Rn'] == f['Rt'], f['Rn'] == f['Rt2'])), f['Rn'] == 15, badreg(f['Rt']), badreg(f['Rt2'])))
    # ---- Thumb unprivileged (A8.8.92 LDRT T1 ...): offset addressing with imm8, no write-back
    def t_unpriv(load, size, signed=False):
        def op(cpu, f):
            cpu.UNPREDICTABLE(cpu.mode() == ST.HYP)
            load_store(cpu, load, size, signed, f['Rt'], f['Rn'], f['imm8'], True, True, False, unpriv=True)
        return op
    rn_ok = lambda f: f['Rn'] != 15
    for cls, op1, load, size, signed in (('StrbtT1', '000 0000', False, 1, False), ('StrhtT1', '000 0010', False, 2, False),
                                         ('StrtT1', '000 0100', False, 4, False), ('LdrbtT1', '000 0001', True, 1, False),
                                         ('LdrhtT1', '000 0011', True, 2, False), ('LdrtT1', '000 0101', True, 4, False),
                                         ('LdrsbtT1', '001 0001', True, 1, True), ('LdrshtT1', '001 0011', True, 2, True)):
        T.add(cls, 't32', '11111 %s Rn:4 Rt:4 1110 imm8:8' % op1, t_unpriv(load, size, signed), family='C02', when=rn_ok,
              unpred=lambda f, c: badreg(f['Rt']))
    # ---- table branch
    T.add('TbbTbhT1', 't32', '11101 000 1101 Rn:4 (1111) (0000) 000 H Rm:4', lambda cpu, f: op_tbb(cpu, f['Rn'], f['Rm'], f['H'] == 1),
          family='C04', unpred=lambda f, c: lor(f['Rn'] == 13, badreg(f['Rm'])))
    # ---- exclusives (A8.8.75-78, A8.8.212-215)
    ex_up = lambda *names: (lambda f, c: lor(*[f[n] == 15 for n in names]))
    E = lambda cls, iset, pat, op, **kw: T.add(cls, iset, pat, op, family='C02', **kw)
    E('LdrexA1', 'arm', '%s 0001 1001 Rn:4 Rt:4 (1111) 1001 (1111)' % C, lambda c, f: op_ldrex(c, f['Rt'], f['Rn'], 0, 4), when=nu, unpred=ex_up('Rt', 'Rn'))
    E('LdrexbA1', 'arm', '%s 0001 1101 Rn:4 Rt:4 (1111) 1001 (1111)' % C, lambda c, f: op_ldrex(c, f['Rt'], f['Rn'], 0, 1), when=nu, unpred=ex_up('Rt', 'Rn'))
    E('LdrexhA1', 'arm', '%s 0001 1111 Rn:4 Rt:4 (1111) 1001 (1111)' % C, lambda c, f: op_ldrex(c, f['Rt'], f['Rn'], 0, 2), when=nu, unpred=ex_up('Rt', 'Rn'))
    E('LdrexdA1', 'arm', '%s 0001 1011 Rn:4 Rt:4 (1111) 1001 (1111)' % C, lambda c, f: op_ldrex(c, f['Rt'], f['Rn'], 0, 8, f['Rt'] + 1), when=nu,
      unpred=lambda f, c: lor(bit(f['Rt'], 0) == 1, f['Rt'] == 14, f['Rn'] == 15))
    st_up = lambda f, c: lor(f['Rd'] == 15, f['Rt'] == 15, f['Rn'] == 15, f['Rd'] == f['Rn'], f['Rd'] == f['Rt'])
    E('StrexA1', 'arm', '%s 0001 1000 Rn:4 Rd:4 (1111) 1001 Rt:4' % C, lambda c, f: op_strex(c, f['Rd'], f['Rt'], f['Rn'], 0, 4), when=nu, unpred=st_up)
    E('StrexbA1', 'arm', '%s 0001 1100 Rn:4 Rd:4 (1111) 1001 Rt:4' % C, lambda c, f: op_strex(c, f['Rd'], f['Rt'], f['Rn'], 0, 1), when=nu, unpred=st_up)
    E('StrexhA1', 'arm', '%s 0001 1110 Rn:4 Rd:4 (1111) 1001 Rt:4' % C, lambda c, f: op_strex(c, f['Rd'], f['Rt'], f['Rn'], 0, 2), when=nu, unpred=st_up)
    E('StrexdA1', 'arm', '%s 0001 1010 Rn:4 Rd:4 (1111) 1001 Rt:4' % C, lambda c, f: op_strex(c, f['Rd'], f['Rt'], f['Rn'], 0, 8, f['Rt'] + 1), when=nu,
      unpred=lambda f, c: lor(f['Rd'] == 15, bit(f['Rt'], 0) == 1, f['Rt'] == 14, f['Rn'] == 15, f['Rd'] == f['Rn'], f['Rd'] == f['Rt'],
                              f['Rd'] == f['Rt'] + 1))
    E('LdrexT1', 't32', '11101 000 0101 Rn:4 Rt:4 (1111) imm8:8', lambda c, f: op_ldrex(c, f['Rt'], f['Rn'], f['imm8'] << 2, 4),
      unpred=lambda f, c: lor(badreg(f['Rt']), f['Rn'] == 15))
    E('StrexT1', 't32', '11101 000 0100 Rn:4 Rt:4 Rd:4 imm8:8', lambda c, f: op_strex(c, f['Rd'], f['Rt'], f['Rn'], f['imm8'] << 2, 4),
      unpred=lambda f, c: lor(badreg(f['Rd']), badreg(f['Rt']), f['Rn'] == 15, f['Rd'] == f['Rn'], f['Rd'] == f['Rt']))
    E('LdrexbT1', 't32', '11101 000 1101 Rn:4 Rt:4 (1111) 0100 (1111)', lambda c, f: op_ldrex(c, f['Rt'], f['Rn'], 0, 1),
      unpred=lambda f, c: lor(badreg(f['Rt']), f['Rn'] == 15))
    E('LdrexhT1', 't32', '11101 000 1101 Rn:4 Rt:4 (1111) 0101 (1111)', lambda c, f: op_ldrex(c, f['Rt'], f['Rn'], 0, 2),
      unpred=lambda f, c: lor(badreg(f['Rt']), f['Rn'] == 15))
    E('LdrexdT1', 't32', '11101 000 1101 Rn:4 Rt:4 Rt2:4 0111 (1111)', lambda c, f: op_ldrex(c, f['Rt'], f['Rn'], 0, 8, f['Rt2']),
      unpred=lambda f, c: lor(badreg(f['Rt']), badreg(f['Rt2']), f['Rt'] == f['Rt2'], f['Rn'] == 15))
    sx_up = lambda f, c: lor(badreg(f['Rd']), badreg(f['Rt']), f['Rn'] == 15, f['Rd'] == f['Rn'], f['Rd'] == f['Rt'])
    E('StrexbT1', 't32', '11101 000 1100 Rn:4 Rt:4 (1111) 0100 Rd:4', lambda c, f: op_strex(c, f['Rd'], f['Rt'], f['Rn'], 0, 1), unpred=sx_up)
    E('StrexhT1', 't32', '11101 000 1100 Rn:4 Rt:4 (1111) 0101 Rd:4', lambda c, f: op_strex(c, f['Rd'], f['Rt'], f['Rn'], 0, 2), unpred=sx_up)
    E('StrexdT1', 't32', '11101 000 1100 Rn:4 Rt:4 Rt2:4 0111 Rd:4', lambda c, f: op_strex(c, f['Rd'], f['Rt'], f['Rn'], 0, 8, f['Rt2']),
      unpred=lambda f, c: lor(badreg(f['Rd']), badreg(f['Rt']), badreg(f['Rt2']), f['Rn'] == 15, f['Rd'] == f['Rn'], f['Rd'] == f['Rt'],
                              f['Rd'] == f['Rt2']))
    # ---- decode-only rows ------------------------------------------------------------------------------------
    def arm(cls, pat, **kw):
        return T.add(cls, 'arm', pat, None, **kw)

    def t16(cls, pat, **kw):
        return T.add(cls, 't16', pat, None, **kw)

    def t32(cls, pat, **kw):
        return T.add(cls, 't32', pat, None, **kw)
    # SVC / SMC: which exception the instruction generates (B9.3.14, A8.8.228); the entries themselves are spec/exceptions.py
    svc_exc = lambda c, f: [(True, 'svc')]

    def smc_exc(c, f):
        st = c.st
        sec_ext, virt = st['cfg.have_security_ext'], st['cfg.have_virt_ext']
        m_ = c.mode()
        secure = ST.is_secure(st)
        return [(lnot(land(sec_ext, m_ != ST.USR)), 'undef'),
                (land(virt, lnot(secure), m_ != ST.HYP, bit(st['hcr'], 19) == 1), 'hyptrap'),
                (land(bit(st['scr'], 7) == 1, secure), 'unpred'),
                (bit(st['scr'], 7) == 1, 'undef'),
                (True, 'smc')]
    arm('SvcA1', '%s 1111 imm24:24' % C, when=nu, family='C12').exc = svc_exc
    arm('UdfA1', '1110 0111 1111 imm12:12 1111 imm4:4', family='C12')
    arm('BkptA1', '%s 0001 0010 imm12:12 0111 imm4:4' % C, when=nu, unpred=lambda f, c: f['cond'] != 14, family='C12')
    arm('SmcA1', '%s 0001 0110 (0000) (0000) (0000) 0111 imm4:4' % C, when=nu, family='C12').exc = smc_exc
    arm('YieldA1', '%s 00110 0 10 0000 (1111) (0000) 00000001' % C, when=nu, family='C12')
    arm('SevA1', '%s 00110 0 10 0000 (1111) (0000) 00000100' % C, when=nu, family='C12')
    arm('ClrexA1', '1111 0101 0111 (1111) (1111) (0000) 0001 (1111)', family='C02')
    arm('DsbA1', '1111 0101 0111 (1111) (1111) (0000) 0100 option:4', family='C12')
    arm('IsbA1', '1111 0101 0111 (1111) (1111) (0000) 0110 option:4', family='C12')
    arm('PldImmediateA1', '1111 0101 U R 01 Rn:4 (1111) imm12:12', when=lambda f: f['Rn'] != 15, family='C02')
    arm('PldLiteralA1', '1111 0101 U (1) 01 1111 (1111) imm12:12', family='C02')
    arm('PldRegisterA1', '1111 0111 U R 01 Rn:4 (1111) imm5:5 type:2 0 Rm:4', family='C02',
        unpred=lambda f, c: lor(f['Rm'] == 15, land(f['Rn'] == 15, f['R'] == 0)))
    t16('SvcT1', '1101 1111 imm8:8', family='C12').exc = svc_exc
    t16('UdfT1', '1101 1110 imm8:8', family='C12')
    t16('BkptT1', '1011 1110 imm8:8', family='C12')
    t16('ItT1', '1011 1111 firstcond:4 mask:4', when=lambda f: f['mask'] != 0, family='C08',
        unpred=lambda f, c: lor(f['firstcond'] == 15, land(f['firstcond'] == 14, (f['mask'] & (f['mask'] - 1)) != 0), c.in_it_block()))
    t16('YieldT1', '1011 1111 0001 0000', family='C12')
    t16('SevT1', '1011 1111 0100 0000', family='C12')
    t32('UdfT2', '11110 111 1111 imm4:4 1 010 imm12:12', family='C12')
    t32('SmcT1', '11110 111 1111 imm4:4 1000 (0000) (0000) (0000)', family='C12',
        unpred=lambda f, c: land(c.in_it_block(), lnot(c.last_in_it_block()))).exc = smc_exc
    t32('YieldT2', '11110 0 1110 1 0 (1111) 10 (0) 0 (0) 000 00000001', family='C12')
    t32('SevT2', '11110 0 1110 1 0 (1111) 10 (0) 0 (0) 000 00000100', family='C12')
    t32('ClrexT1', '11110 0 111 01 1 (1111) 10 (0) 0 (1111) 0010 (1111)', family='C02')
    t32('DsbT1', '11110 0 111 01 1 (1111) 10 (0) 0 (1111) 0100 option:4', family='C12')
    t32('IsbT1', '11110 0 111 01 1 (1111) 10 (0) 0 (1111) 0110 option:4', family='C12')
    # ---- coprocessor instructions (generic coprocessors; coproc 101x is the Floating-point / Advanced SIMD space): decode-only
    not_fp = lambda f: bits(f['coproc'], 3, 1) != 0b101
    COP = [('StcStc2', '110 P U D W 0 Rn:4 CRd:4 coproc:4 imm8:8', lambda f: lnot(land(f['P'] == 0, f['U'] == 0, f['W'] == 0)), 'stc'),
           ('LdcLdc2Immediate', '110 P U D W 1 Rn:4 CRd:4 coproc:4 imm8:8',
            lambda f: land(lnot(land(f['P'] == 0, f['U'] == 0, f['W'] == 0)), f['Rn'] != 15), 'ldc'),
           ('LdcLdc2Literal', '110 P U D W 1 1111 CRd:4 coproc:4 imm8:8', lambda f: lnot(land(f['P'] == 0, f['U'] == 0, f['W'] == 0)), 'ldcl'),
           ('McrrMcrr2', '1100 0100 Rt2:4 Rt:4 coproc:4 opc1:4 CRm:4', lambda f: True, 'mcrr'),
           ('MrrcMrrc2', '1100 0101 Rt2:4 Rt:4 coproc:4 opc1:4 CRm:4', lambda f: True, 'mrrc'),
           ('CdpCdp2', '1110 opc1:4 CRn:4 CRd:4 coproc:4 opc2:3 0 CRm:4', lambda f: True, 'cdp'),
           ('McrMcr2', '1110 opc1:3 0 CRn:4 Rt:4 coproc:4 opc2:3 1 CRm:4', lambda f: True, 'mcr'),
           ('MrcMrc2', '1110 opc1:3 1 CRn:4 Rt:4 coproc:4 opc2:3 1 CRm:4', lambda f: True, 'mrc')]

    def cop_unpred(kind, thumb):
        def up(f, c):
            if kind in ('mcrr', 'mrrc'):
                bad = lor(badreg(f['Rt']), badreg(f['Rt2'])) if thumb else lor(f['Rt'] == 15, f['Rt2'] == 15)
                return lor(bad, f['Rt'] == f['Rt2']) if kind == 'mrrc' else bad
            if kind == 'mcr':
                return lor(f['Rt'] == 15, land(f['Rt'] == 13, thumb))
            if kind == 'mrc':
                return land(f['Rt'] == 13, thumb)
            if kind == 'stc':
                return lor(land(f['Rn'] == 15, lor(f['W'] == 1, thumb)), False)
            if kind == 'ldc':
                return False
            if kind == 'ldcl':
                return lor(f['W'] == 1, land(f['P'] == 0, thumb))       # unindexed literal form only in ARM state
            return False
        return up
    for base, pat, extra, kind in COP:
        w = (lambda extra: lambda f: land(not_fp(f), extra(f)))(extra)
        T.add(base + 'A1', 'arm', '%s %s' % (C, pat), None, family='C12', when=(lambda w: lambda f: land(nu(f), w(f)))(w), unpred=cop_unpred(kind, False))
        T.add(base + 'A2', 'arm', '1111 %s' % pat, None, family='C12', when=w, unpred=cop_unpred(kind, False))
        T.add(base + 'T1', 't32', '1110 %s' % pat, None, family='C12', when=w, unpred=cop_unpred(kind, True))
        T.add(base + 'T2', 't32', '1111 %s' % pat, None, family='C12', when=w, unpred=cop_unpred(kind, True))
    # ---- Thumb preload hints, ENTERX/LEAVEX: decode-only
    t32('PldImmediateT1', '11111 000 10 W 1 Rn:4 1111 imm12:12', when=lambda f: f['Rn'] != 15, family='C02')
    t32('PldImmediateT2', '11111 000 00 W 1 Rn:4 1111 1100 imm8:8', when=lambda f: f['Rn'] != 15, family='C02')
    t32('PldLiteralT1', '11111 000 U 0 (0) 1 1111 1111 imm12:12', family='C02')
    t32('PldRegisterT1', '11111 000 00 W 1 Rn:4 1111 000000 imm2:2 Rm:4', when=lambda f: f['Rn'] != 15, family='C02', unpred=lambda f, c: badreg(f['Rm']))
    t32('EnterxLeavexT1', '11110 0 111 01 1 (1111) 10 (0) 0 (1111) 000 J (1111)', family='C12')
    # ---- operations of the hint, barrier, IT, UDF and ENTERX/LEAVEX rows
    # hints and barriers have no architectural effect of their own: the implementation hands them to a mock hook
    # (NotImplementedError) when the condition passes - nothing may have changed by then (Row.mock) - or, CLREX, to an empty hook
    nop = lambda c, f: None
    for cls_ in ('YieldA1', 'YieldT1', 'YieldT2', 'SevA1', 'SevT1', 'SevT2', 'DsbA1', 'DsbT1', 'IsbA1', 'IsbT1', 'PldImmediateA1', 'PldLiteralA1',
                 'PldRegisterA1', 'PldImmediateT1', 'PldImmediateT2', 'PldLiteralT1', 'PldRegisterT1', 'BkptA1', 'BkptT1'):
        for r_ in T.by_cls.get(cls_, []):
            r_.op = nop
            r_.mock = True
    for cls_ in ('ClrexA1', 'ClrexT1'):
        for r_ in T.by_cls.get(cls_, []):
            r_.op = nop
    for cls_ in ('BkptT1',):
        for r_ in T.by_cls.get(cls_, []):
            r_.unconditional = True             # BKPT executes whatever the IT condition says
    # UDF: if ConditionPassed() then UNDEFINED
    for cls_ in ('UdfA1', 'UdfT1', 'UdfT2'):
        for r_ in T.by_cls.get(cls_, []):
            r_.op = lambda c, f: c.UNDEFINED()

    # IT: ITSTATE.IT<7:0> = firstcond:mask (not conditional; inside an IT block it is UNPREDICTABLE - the row says so)
    def op_it(c, f):
        c.cpsr = ST.cpsr_with(c.cpsr, it=((f['firstcond'] << 4) | f['mask']) & 0xFF)
    for r_ in T.by_cls.get('ItT1', []):
        r_.op = op_it
        r_.unconditional = True

    # ENTERX (J=1): UNDEFINED in Hyp mode, else ThumbEE state; LEAVEX: Thumb state.  Not conditional.
    def op_enterx(c, f):
        def enter(k):
            k.UNDEFINED(k.mode() == ST.HYP)
            k.cpsr = ST.cpsr_with(k.cpsr, j=1, t=1)
        c.cases([(f['J'] == 1, enter), (True, lambda k: setattr(k, 'cpsr', ST.cpsr_with(k.cpsr, j=0, t=1)))])
    for r_ in T.by_cls.get('EnterxLeavexT1', []):
        r_.op = op_enterx
        r_.unconditional = True
