"""PMSA address translation and protection (ARM ARM B5.3 / pseudocode TranslateAddressP, CheckPermission,
DefaultMemoryAttributes, DefaultTEXDecode, ConvertAttrsHints, DataAbort for PMSA) as executable specs."""
from .rt import ite, land, lor, lnot, bits, bit, b2i, M32

NORMAL, DEVICE, STRONGLY_ORDERED = 0, 1, 2
MEMTYPE_NAMES = {0: 'NORMAL', 1: 'DEVICE', 2: 'STRONGLY_ORDERED'}

# DAbort kinds (names as in the enumeration of the pseudocode)
FS_PMSA = {'ALIGNMENT': 0b00001, 'BACKGROUND': 0b00000, 'PERMISSION': 0b01101}


def convert_attrs_hints(rgn):
    """-> hints:attributes (4 bits)"""
    attributes = ite(rgn == 0, 0, ite(bit(rgn, 0) == 1, 3, 2))
    hints = ite(rgn == 0, 0, ite(bit(rgn, 0) == 1, 2 | (1 - bit(rgn, 1)), 2))
    return (hints << 2) | attributes


def default_tex_decode(texcb, s):
    """-> dict(type, innerattrs, innerhints, outerattrs, outerhints, shareable), implementation_defined, unpredictable
    attribute fields that the architecture leaves UNKNOWN are None"""
    sbit = s == 1
    ha_in = convert_attrs_hints(bits(texcb, 1, 0))
    ha_out = convert_attrs_hints(bits(texcb, 3, 2))
    is1x = bit(texcb, 4) == 1
    t = ite(texcb == 0, STRONGLY_ORDERED, ite(lor(texcb == 1, texcb == 8), DEVICE, NORMAL))
    known = lor(texcb == 2, texcb == 3, texcb == 4, texcb == 7, is1x)
    ia = ite(texcb == 2, 2, ite(texcb == 3, 3, ite(texcb == 4, 0, ite(texcb == 7, 3, bits(ha_in, 1, 0)))))
    ih = ite(texcb == 2, 2, ite(texcb == 3, 2, ite(texcb == 4, 0, ite(texcb == 7, 3, bits(ha_in, 3, 2)))))
    oa = ite(texcb == 2, 2, ite(texcb == 3, 3, ite(texcb == 4, 0, ite(texcb == 7, 3, bits(ha_out, 1, 0)))))
    oh = ite(texcb == 2, 2, ite(texcb == 3, 2, ite(texcb == 4, 0, ite(texcb == 7, 3, bits(ha_out, 3, 2)))))
    shareable = ite(lor(texcb == 0, texcb == 1), True, ite(texcb == 8, False, sbit))
    impdef = texcb == 6
    unpred = land(lnot(is1x), lnot(lor(texcb == 0, texcb == 1, texcb == 2, texcb == 3, texcb == 4, texcb == 6, texcb == 7, texcb == 8)))
    return dict(type=t, innerattrs=ia, innerhints=ih, outerattrs=oa, outerhints=oh, shareable=shareable, attrs_known=known), impdef, unpred


def default_memory_attributes(va, sctlr_c):
    top = bits(va, 31, 30)
    b29 = bit(va, 29) == 1
    c0 = sctlr_c == 0
    t = ite(top == 2, DEVICE, ite(top == 3, STRONGLY_ORDERED, NORMAL))
    ia = ite(top == 0, ite(c0, 0, 1), ite(top == 1, ite(lor(c0, b29), 0, 2), 0))
    sh = ite(top == 0, c0, ite(top == 1, lor(c0, b29), ite(top == 2, b29, True)))
    return dict(type=t, innerattrs=ia, outerattrs=ia, shareable=sh, outershareable=sh)


def check_permission_abort(ap, ispriv, iswrite, afe, vmsa):
    """-> (abort, unpredictable)"""
    ap = ite(afe, ap | 1, ap)
    abort = ite(ap == 0, True, ite(ap == 1, lnot(ispriv), ite(ap == 2, land(lnot(ispriv), iswrite), ite(ap == 3, False,
            ite(ap == 4, False, ite(ap == 5, lor(lnot(ispriv), iswrite), ite(ap == 6, iswrite, land(vmsa, iswrite))))))))
    unpred = lor(ap == 4, land(ap == 7, lnot(vmsa)))
    return abort, unpred


ACC0 = dict(found=False, texcb=0, s=0, ap=0, xn=0)


def region_step(acc, va, drsr, drbar, dracr, active=True):
    """one iteration of the region scan (region with registers drsr/drbar/dracr): -> (acc', unpredictable)"""
    en = bit(drsr, 0) == 1
    lsbit = bits(drsr, 5, 1) + 1
    considered = land(active, en)
    unpred = land(considered, lsbit < 2)
    low_bits = ((drbar >> 2) << 2) & ((1 << lsbit) - 1)
    unpred = lor(unpred, land(considered, lsbit > 2, low_bits != 0))
    match = lor(lsbit == 32, (va >> lsbit) == (drbar >> lsbit))
    sub = (va >> ite(lsbit >= 3, lsbit - 3, 0)) & 7
    sd = (bits(drsr, 15, 8) >> sub) & 1
    hit = land(considered, match, ite(lsbit >= 8, sd == 0, True))
    new = dict(found=lor(acc['found'], hit),
               texcb=ite(hit, (bits(dracr, 5, 3) << 2) | (bit(dracr, 1) << 1) | bit(dracr, 0), acc['texcb']),
               s=ite(hit, bit(dracr, 2), acc['s']), ap=ite(hit, bits(dracr, 10, 8), acc['ap']), xn=ite(hit, bit(dracr, 12), acc['xn']))
    return new, unpred


def region_scan(va, drsr, drbar, dracr, dregion):
    """last matching enabled region wins (a fold of region_step). -> (found, texcb, s, ap, xn, unpredictable)"""
    acc = dict(ACC0)
    unpred = False
    for r in range(len(drsr)):
        acc, u = region_step(acc, va, drsr[r], drbar[r], dracr[r], r < dregion)
        unpred = lor(unpred, u)
    return acc['found'], acc['texcb'], acc['s'], acc['ap'], acc['xn'], unpred


def pmsa_dfsr(old_dfsr, fs, iswrite):
    """DFSR after a synchronous PMSA data abort with status fs (5 bits): bits 13:0 rewritten"""
    string = (b2i(iswrite) << 11) | (bit(fs, 4) << 10) | bits(fs, 3, 0)
    return ((old_dfsr >> 14) << 14) | string
