"""Architectural bit positions of the named register fields (ARM ARM DDI 0406C, B1.3.3, B4.1, B6.1, C11).

FIELDS[class name][property name] = (msb, lsb)            plain contiguous field
INDEXED[class name] = [(getter, setter, msb(n), lsb(n), n_lo, n_hi)]
SPLIT fields (non-contiguous) are given as a list of (msb, lsb) from most significant part down.
Transcribed from the architecture, not from the repository.
"""

def one(b):
    return (b, b)


FIELDS = {
    'CPSR': {'n': one(31), 'z': one(30), 'c': one(29), 'v': one(28), 'q': one(27), 'j': one(24), 'ge': (19, 16),
             'e': one(9), 'a': one(8), 'i': one(7), 'f': one(6), 't': one(5), 'm': (4, 0),
             'it': [(15, 10), (26, 25)],            # IT<7:2> : IT<1:0>
             'isetstate': [(24, 24), (5, 5)]},      # J : T
    'SCTLR': {'ie': one(31), 'te': one(30), 'afe': one(29), 'tre': one(28), 'nmfi': one(27), 'ee': one(25), 've': one(24),
              'u': one(22), 'fi': one(21), 'uwxn': one(20), 'wxn': one(19), 'dz': one(19), 'ha': one(17), 'br': one(17),
              'rr': one(14), 'v': one(13), 'i': one(12), 'z': one(11), 'sw': one(10), 'b': one(7), 'cp15ben': one(5),
              'c': one(2), 'a': one(1), 'm': one(0)},
    'HSCTLR': {'te': one(30), 'ee': one(25), 'fi': one(21), 'wxn': one(19), 'i': one(12), 'cp15ben': one(5), 'c': one(2),
               'a': one(1), 'm': one(0)},
    'SCR': {'ns': one(0), 'irq': one(1), 'fiq': one(2), 'ea': one(3), 'fw': one(4), 'aw': one(5), 'net': one(6),
            'scd': one(7), 'hce': one(8), 'sif': one(9)},
    'NSACR': {'nsd32dis': one(14), 'nsasedis': one(15), 'rfr': one(19), 'nstrcdis': one(20)},
    'CPACR': {'trcdis': one(28), 'd32dis': one(30), 'asedis': one(31)},
    'HCR': {'tge': one(27), 'tvm': one(26), 'ttlb': one(25), 'tpu': one(24), 'tpc': one(23), 'tsw': one(22), 'tac': one(21),
            'tidcp': one(20), 'tsc': one(19), 'twe': one(14), 'twi': one(13), 'dc': one(12), 'bsu': (11, 10), 'fb': one(9),
            'va': one(8), 'vi': one(7), 'vf': one(6), 'amo': one(5), 'imo': one(4), 'fmo': one(3), 'ptw': one(2),
            'swio': one(1), 'vm': one(0)},
    'HSR': {'ec': (31, 26), 'il': one(25), 'iss': (24, 0)},
    'HSTR': {'tjdbx': one(17), 'ttee': one(16)},
    'HCPTR': {'tcpac': one(31), 'tta': one(20), 'tase': one(15)},
    'HDCR': {'tdra': one(11), 'tdosa': one(10), 'tda': one(9), 'tde': one(8), 'hpme': one(7), 'tpm': one(6), 'tpmcr': one(5),
             'hpmn': (4, 0)},
    'HPFAR': {'fipa': (31, 4)},
    'HTCR': {'sh0': (13, 12), 'orgn0': (11, 10), 'irgn0': (9, 8), 't0sz': (2, 0)},
    'VTCR': {'sh0': (13, 12), 'orgn0': (11, 10), 'irgn0': (9, 8), 'sl0': (7, 6), 's': one(4), 't0sz': (3, 0)},
    'TTBCR': {'eae': one(31), 'sh1': (29, 28), 'orgn1': (27, 26), 'irgn1': (25, 24), 'epd1': one(23), 'a1': one(22),
              't1sz': (18, 16), 'sh0': (13, 12), 'orgn0': (11, 10), 'irgn0': (9, 8), 'epd0': one(7), 'pd1': one(5),
              'pd0': one(4), 't0sz': (2, 0), 'n': (2, 0)},
    'DFSR': {'cm': one(13), 'ext': one(12), 'wnr': one(11), 'lpae': one(9), 'domain': (7, 4), 'status': (5, 0),
             'fs': [(10, 10), (3, 0)]},
    'FCSEIDR': {'pid': (31, 25)},
    'FPEXC': {'ex': one(31), 'en': one(30)},
    'JMCR': {'je': one(0)},
    'MIDR': {'implementer': (31, 24), 'variant': (23, 20), 'architecture': (19, 16), 'primary_part_number': (15, 4),
             'revision': (3, 0)},
    'MPUIR': {'nu': one(0), 'iregion': (23, 16), 'dregion': (15, 8)},
    'PMCR': {'e': one(0), 'p': one(1), 'c': one(2), 'd': one(3), 'x': one(4), 'dp': one(5), 'n': (15, 11),
             'idcode': (23, 16), 'imp': (31, 24)},
    'PRRR': {'ns1': one(19), 'ns0': one(18), 'ds1': one(17), 'ds0': one(16)},
    'RACR': {'xn': one(12), 'ap': (10, 8), 'tex': (5, 3), 's': one(2), 'c': one(1), 'b': one(0)},
    'RSR': {'rsize': (5, 1), 'en': one(0)},
    'DBGDIDR': {'wrps': (31, 28), 'brps': (27, 24), 'ctx_cmps': (23, 20), 'version': (19, 16), 'devid_imp': one(15),
                'nsuhd_imp': one(14), 'pcsr_imp': one(13), 'se_imp': one(12), 'variant': (7, 4), 'revision': (3, 0)},
    'IdPfr1': {'gt': (19, 16), 've': (15, 12), 'm_profile': (11, 8), 'se': (7, 4), 'pm': (3, 0)},
    'SDER': {'suniden': one(1), 'suiden': one(0)},
    'SUNAVCR': {'v': one(0)},
    'TEECR': {'xed': one(0)},
}

# read-only derived views: property -> mask
MASKS = {'CPSR': {'apsr': 0xF80F0000}}

INDEXED = {
    'CPACR': [('get_cp_n', 'set_cp_n', lambda n: 2 * n + 1, lambda n: 2 * n, 0, 13)],
    'DACR': [('get_d_n', 'set_d_n', lambda n: 2 * n + 1, lambda n: 2 * n, 0, 15)],
    'HCPTR': [('get_tcp_n', 'set_tcp_n', lambda n: n, lambda n: n, 0, 13)],
    'HCR': [('get_tid_n', 'set_tid_n', lambda n: 15 + n, lambda n: 15 + n, 0, 3)],
    'HSTR': [('get_t_n', 'set_t_n', lambda n: n, lambda n: n, 0, 15)],
    'NMRR': [('get_ir_n', 'set_ir_n', lambda n: 2 * n + 1, lambda n: 2 * n, 0, 7),
             ('get_or_n', 'set_or_n', lambda n: 2 * n + 17, lambda n: 2 * n + 16, 0, 7)],
    'NSACR': [('get_cp_n', 'set_cp_n', lambda n: n, lambda n: n, 0, 13)],
    'PRRR': [('get_tr_n', 'set_tr_n', lambda n: 2 * n + 1, lambda n: 2 * n, 0, 7),
             ('get_nos_n', 'set_nos_n', lambda n: 24 + n, lambda n: 24 + n, 0, 7)],
    'RSR': [('get_sd_n', 'set_sd_n', lambda n: 8 + n, lambda n: 8 + n, 0, 7)],
    'VBAR': [('get_base_address', 'set_base_address', lambda n: 31, lambda n: 5, 0, 0)],
}
