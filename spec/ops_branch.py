"""Branch operation specs (A8.8.18 B, A8.8.25 BL/BLX immediate, A8.8.26 BLX register, A8.8.27 BX, A8.8.28 BXJ,
A8.8.29 CBZ/CBNZ) and their encoding rows."""
from .rt import ite, land, lor, lnot, bits, bit, b2i, M32
from . import prims as P
from . import state as ST


def sx(v, n):
    """SignExtend(v, 32) of an n-bit value"""
    return (v - (bit(v, n - 1) << n)) & M32


def it_rule_last(cpu):
    return land(cpu.in_it_block(), lnot(cpu.last_in_it_block()))


def branch_in(cpu, thumb, addr):
    """BranchWritePC in the instruction set `thumb` (after SelectInstrSet)"""
    if thumb:
        cpu.branch_to(addr & 0xFFFFFFFE)
    else:
        cpu.UNPREDICTABLE(land(cpu.arch() < 6, bits(addr, 1, 0) != 0))
        cpu.branch_to(addr & 0xFFFFFFFC)


def op_b(imm_of, it_unpred):
    def op(cpu, f):
        if it_unpred == 'any':
            cpu.UNPREDICTABLE(cpu.in_it_block())
        elif it_unpred == 'notlast':
            cpu.UNPREDICTABLE(it_rule_last(cpu))
        cpu.branch_write_pc((cpu.pc() + imm_of(f)) & M32)
    return op


def op_bl(imm_of, to_arm, it_unpred=False):
    def op(cpu, f):
        if it_unpred:
            cpu.UNPREDICTABLE(it_rule_last(cpu))
        pc = cpu.pc()
        if cpu.iset == 'arm':
            cpu.setR(14, (pc - 4) & M32)
        else:
            cpu.setR(14, pc | 1)
        imm32 = imm_of(f)
        if to_arm:
            target = ((pc & 0xFFFFFFFC) + imm32) & M32
        else:
            target = (pc + imm32) & M32
        cpu.select_iset(not to_arm)
        branch_in(cpu, not to_arm, target)
    return op


def op_blx_reg(cpu, f):
    m = f['Rm']
    target = cpu.R(m)
    pc = cpu.pc()
    if cpu.iset == 'arm':
        cpu.setR(14, (pc - 4) & M32)
    else:
        cpu.UNPREDICTABLE(it_rule_last(cpu))
        cpu.setR(14, ((pc - 2) & M32) | 1)
    cpu.bx_write_pc(target)


def op_bx(cpu, f):
    if cpu.iset != 'arm':
        cpu.UNPREDICTABLE(it_rule_last(cpu))
    cpu.bx_write_pc(cpu.R(f['Rm']))


def op_bxj(cpu, f):
    # Jazelle entry is outside the specification (implementation defined / mock)
    if cpu.iset != 'arm':
        cpu.UNPREDICTABLE(it_rule_last(cpu))
    # HSTR.TJDBX: a Non-secure BXJ outside Hyp mode is trapped to Hyp mode - "an exception is taken instead" (as for WFE/WFI)
    trap = land(cpu.cfg('have_virt_ext'), lnot(ST.is_secure(cpu.st)), cpu.mode() != ST.HYP, bit(cpu.st['hstr'], 17) == 1)
    cpu.UNDEFINED(trap)
    cpu.UNPREDICTABLE(land(lnot(trap), bit(cpu.st['jmcr'], 0) == 1))
    cpu.bx_write_pc(cpu.R(f['Rm']))


def op_cbz(cpu, f):
    cpu.UNPREDICTABLE(cpu.in_it_block())
    imm32 = ((f['i'] << 5) | f['imm5']) << 1
    taken = (f['op'] == 1) != (cpu.R(f['Rn']) == 0) if isinstance(f['op'], int) and False else None
    rz = cpu.R(f['Rn']) == 0
    nonzero = f['op'] == 1
    take = lor(land(nonzero, lnot(rz)), land(lnot(nonzero), rz))
    cpu.when(take, lambda k: k.branch_write_pc((k.pc() + imm32) & M32))


def t4_imm(f, low_bits, low_n):
    s = f['S']
    i1 = 1 - (f['J1'] ^ s)
    i2 = 1 - (f['J2'] ^ s)
    v = (s << (22 + low_n)) | (i1 << (21 + low_n)) | (i2 << (20 + low_n)) | (f['imm10'] << (10 + low_n)) | low_bits
    return sx(v, 23 + low_n)


def build(T):
    C = 'cond:4'
    nu = lambda f: f['cond'] != 15
    arm = lambda cls, pat, op, **kw: T.add(cls, 'arm', pat, op, family='C04', **kw)
    t16 = lambda cls, pat, op, **kw: T.add(cls, 't16', pat, op, family='C04', **kw)
    t32 = lambda cls, pat, op, **kw: T.add(cls, 't32', pat, op, family='C04', **kw)
    arm('BA1', '%s 1010 imm24:24' % C, op_b(lambda f: sx(f['imm24'] << 2, 26), None), when=nu)
    arm('BlBlxImmediateA1', '%s 1011 imm24:24' % C, op_bl(lambda f: sx(f['imm24'] << 2, 26), True), when=nu)
    r = arm('BlBlxImmediateA2', '1111 101 H imm24:24', op_bl(lambda f: sx((f['imm24'] << 2) | (f['H'] << 1), 26), False))
    r.unconditional = True
    sbo = '(1111) (1111) (1111)'
    arm('BxA1', '%s 0001 0010 %s 0001 Rm:4' % (C, sbo), op_bx, when=nu)
    arm('BxjA1', '%s 0001 0010 %s 0010 Rm:4' % (C, sbo), op_bxj, when=nu, unpred=lambda f, c: f['Rm'] == 15)
    arm('BlxRegisterA1', '%s 0001 0010 %s 0011 Rm:4' % (C, sbo), op_blx_reg, when=nu, unpred=lambda f, c: f['Rm'] == 15)
    t16('BT1', '1101 cond:4 imm8:8', op_b(lambda f: sx(f['imm8'] << 1, 9), 'any'), when=lambda f: bits(f['cond'], 3, 1) != 7)
    t16('BT2', '11100 imm11:11', op_b(lambda f: sx(f['imm11'] << 1, 12), 'notlast'))
    t32('BT3', '11110 S cond:4 imm6:6 10 J1 0 J2 imm11:11',
        op_b(lambda f: sx((f['S'] << 20) | (f['J2'] << 19) | (f['J1'] << 18) | (f['imm6'] << 12) | (f['imm11'] << 1), 21), 'any'),
        when=lambda f: bits(f['cond'], 3, 1) != 7)
    t32('BT4', '11110 S imm10:10 10 J1 1 J2 imm11:11', op_b(lambda f: t4_imm(f, f['imm11'] << 1, 2), 'notlast'))
    t32('BlBlxImmediateT1', '11110 S imm10:10 11 J1 1 J2 imm11:11', op_bl(lambda f: t4_imm(f, f['imm11'] << 1, 2), False, True))
    t32('BlBlxImmediateT2', '11110 S imm10:10 11 J1 0 J2 imm10L:10 H', op_bl(lambda f: t4_imm(f, f['imm10L'] << 2, 2), True, True),
        undef=lambda f, c: f['H'] == 1)
    t16('BxT1', '010001 11 0 Rm:4 (000)', op_bx)
    t16('BlxRegisterT1', '010001 11 1 Rm:4 (000)', op_blx_reg, unpred=lambda f, c: f['Rm'] == 15)
    t32('BxjT1', '11110 0 1111 00 Rm:4 10 (0) 0 (1111) (00000000)', op_bxj, unpred=lambda f, c: lor(f['Rm'] == 13, f['Rm'] == 15))
    r = t16('CbzT1', '1011 op 0 i 1 imm5:5 Rn:3', op_cbz)
    r.unconditional = True
