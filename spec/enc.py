"""Encoding rows in ARM-ARM diagram notation.

    Row('AdcRegisterA1', 'arm', 'cond:4 0000 101 S Rn:4 Rd:4 imm5:5 type:2 0 Rm:4', op, when=..., unpred=...)

Tokens: strings of 0/1 are fixed bits; 'name:n' an n-bit field; a bare name a 1-bit field; '(0)' / '(1)'
should-be-zero/one bits (violations are UNPREDICTABLE); 'x' don't-care bits.  Fields with the same name are
concatenated (most significant first).  `when(f)` restricts the row (the 'SEE ...' redirections and cond != 1111),
`unpred(f, cpu)` gives the architecturally UNPREDICTABLE condition, `undef(f, cpu)` the UNDEFINED condition.
"""
from .rt import land, lor, lnot, bits, bit

WIDTH = {'arm': 32, 't16': 16, 't32': 32}


def also_families(cls, family):
    """'+'-joined properties a row's functional obligations belong to.  Single-register loads and stores are C02; their byte
    footprint, endianness and alignment handling is what C13 states at instruction level; the unprivileged forms (LDRT, STRT,
    LDRBT, ...) carry the last clause of C19; the ARM forms of SUBS PC, LR are the data-processing encodings with S = 1 and
    Rd = PC ("the special rules when the destination is the PC" of C01); rows naming a mode or bank explicitly carry C10
    through post.banks anyway."""
    import re
    if not family:
        return family
    fs = family.split('+')
    if 'C02' in fs:
        if 'C13' not in fs:
            fs.append('C13')
        if re.match(r'(Ldr|Str)(b|h|sb|sh)?t[A-Z]', cls) and 'C19' not in fs:
            fs.append('C19')
    if cls.startswith('SubsPcLrArm') and 'C01' not in fs:
        fs.append('C01')
    return '+'.join(fs)


class Row:
    def __init__(self, cls, iset, pattern, op, when=None, unpred=None, undef=None, family=None, note='', opfields=None, exec_class=None):
        self.cls = cls
        self.iset = iset
        self.pattern = pattern
        self.op = op
        self.when = when
        self.unpred = unpred
        self.undef = undef
        self.family = also_families(cls, family)
        self.note = note
        # rows whose operation is verified at function level (loop cut): the step units check only that decode hands
        # execute() of `exec_class` the architectural fields `opfields(f)`
        self.opfields = opfields
        self.exec_class = exec_class
        # exception-generating instructions (SVC, SMC): exc(cpu, f) -> [(condition, kind)], the first true condition names what
        # the instruction does when its condition passes: kind in 'svc' | 'smc' | 'hyptrap' | 'undef' | 'unpred'
        self.exc = None
        # hint rows: when the condition passes the implementation ends in a mock hook (NotImplementedError) - with the state untouched
        self.mock = False
        self.width = WIDTH[iset]
        self.mask = 0
        self.value = 0
        self.fields = {}          # name -> list of (hi, lo), most significant segment first
        self.sbz = []             # (hi, lo, expected)
        pos = self.width
        for tok in pattern.split():
            if set(tok) <= {'0', '1'}:
                n = len(tok)
                pos -= n
                self.mask |= ((1 << n) - 1) << pos
                self.value |= int(tok, 2) << pos
            elif tok.startswith('(') and tok.endswith(')'):
                inner = tok[1:-1]
                n = len(inner)
                pos -= n
                self.sbz.append((pos + n - 1, pos, int(inner, 2)))
            elif set(tok) <= {'x'}:
                pos -= len(tok)
            else:
                if ':' in tok:
                    name, n = tok.split(':')
                    n = int(n)
                else:
                    name, n = tok, 1
                pos -= n
                self.fields.setdefault(name, []).append((pos + n - 1, pos))
        if pos != 0:
            raise ValueError('pattern of %s has %d bits, expected %d: %r' % (cls, self.width - pos, self.width, pattern))

    def extract(self, instr):
        f = {}
        for name, segs in self.fields.items():
            v = 0
            for hi, lo in segs:
                v = (v << (hi - lo + 1)) | bits(instr, hi, lo)
            f[name] = v
        return f

    def sbz_violated(self, instr):
        c = False
        for hi, lo, exp in self.sbz:
            c = lor(c, bits(instr, hi, lo) != exp)
        return c

    def match(self, instr):
        c = (instr & self.mask) == self.value
        if self.when is not None:
            c = land(c, self.when(self.extract(instr)))
        return c

    def example(self):
        """a concrete word matching mask/value with all fields zero (not necessarily satisfying `when`)"""
        v = self.value
        for hi, lo, exp in self.sbz:
            v |= exp << lo
        return v


class Table:
    def __init__(self):
        self.rows = []
        self.by_cls = {}

    def add(self, *a, **k):
        r = Row(*a, **k)
        self.rows.append(r)
        self.by_cls.setdefault(r.cls, []).append(r)
        return r
