"""Architectural state model used by the specifications (ARM ARM B1.3).

A state is a plain dict of named leaves (ints / bools, possibly symbolic):
  'R.<phys>'   34 physical core registers, names below        'cpsr', 'spsr_<mode>', 'elr_hyp'
  '<sysreg>'   32/64-bit images of system registers             'mem' abstract memory token
  'cfg.<key>'  configuration                                     'cpu.*', 'event_register' …
Banking is given as one table; register numbers and modes may be symbolic.
"""
from .rt import ite, land, lor, lnot, bits, bit, b2i

USR, FIQ, IRQ, SVC, MON, ABT, HYP, UND, SYS = 0x10, 0x11, 0x12, 0x13, 0x16, 0x17, 0x1A, 0x1B, 0x1F
MODES = [USR, FIQ, IRQ, SVC, MON, ABT, HYP, UND, SYS]
MODE_NAMES = {USR: 'usr', FIQ: 'fiq', IRQ: 'irq', SVC: 'svc', MON: 'mon', ABT: 'abt', HYP: 'hyp', UND: 'und', SYS: 'usr'}

PHYS = (['R%dusr' % i for i in range(8)] +
        ['R8usr', 'R8fiq', 'R9usr', 'R9fiq', 'R10usr', 'R10fiq', 'R11usr', 'R11fiq', 'R12usr', 'R12fiq',
         'SPusr', 'SPfiq', 'SPirq', 'SPsvc', 'SPabt', 'SPund', 'SPmon', 'SPhyp',
         'LRusr', 'LRfiq', 'LRirq', 'LRsvc', 'LRabt', 'LRund', 'LRmon', 'PC'])

SPSRS = ['fiq', 'irq', 'svc', 'mon', 'abt', 'hyp', 'und']
SPSR_MODE = {'fiq': FIQ, 'irq': IRQ, 'svc': SVC, 'mon': MON, 'abt': ABT, 'hyp': HYP, 'und': UND}

# instruction set states (J:T)
ISET_ARM, ISET_THUMB, ISET_JAZELLE, ISET_THUMBEE = 0, 1, 2, 3


def bad_mode(mode, have_sec, have_virt):
    """BadMode(): true for encodings that are not a mode of this implementation"""
    return lnot(lor(mode == USR, mode == FIQ, mode == IRQ, mode == SVC, land(mode == MON, have_sec), mode == ABT,
                    land(mode == HYP, have_virt), mode == UND, mode == SYS))


_bank_memo = {}


def bank_of(n, mode):
    """memoised front end of _bank_of (keyed by the identity of symbolic terms)"""
    kn = n if isinstance(n, int) else ('s', n.t.get_id()) if hasattr(n, 't') else None
    km = mode if isinstance(mode, int) else ('s', mode.t.get_id()) if hasattr(mode, 't') else None
    if kn is None or km is None:
        return _bank_of(n, mode)
    key = (kn, km)
    hit = _bank_memo.get(key)
    if hit is None:
        hit = (_bank_of(n, mode), n, mode)
        if len(_bank_memo) > 20000:
            _bank_memo.clear()
        _bank_memo[key] = hit
    return hit[0]


def _bank_of(n, mode):
    """list of (condition, physical name) selecting the physical register for R[n] in `mode` (mode assumed valid;
    an invalid mode selects the User bank, which is what the UNPREDICTABLE fallback of the implementation does)."""
    out = []
    for i in range(8):
        out.append((n == i, 'R%dusr' % i))
    isfiq = mode == FIQ
    for i in range(8, 13):
        out.append((land(n == i, isfiq), 'R%dfiq' % i))
        out.append((land(n == i, lnot(isfiq)), 'R%dusr' % i))
    sp = {FIQ: 'SPfiq', IRQ: 'SPirq', SVC: 'SPsvc', MON: 'SPmon', ABT: 'SPabt', HYP: 'SPhyp', UND: 'SPund'}
    lr = {FIQ: 'LRfiq', IRQ: 'LRirq', SVC: 'LRsvc', MON: 'LRmon', ABT: 'LRabt', UND: 'LRund'}   # Hyp uses LR_usr
    other_sp = True
    for m, nm in sp.items():
        out.append((land(n == 13, mode == m), nm))
        other_sp = land(other_sp, mode != m)
    out.append((land(n == 13, other_sp), 'SPusr'))
    other_lr = True
    for m, nm in lr.items():
        out.append((land(n == 14, mode == m), nm))
        other_lr = land(other_lr, mode != m)
    out.append((land(n == 14, other_lr), 'LRusr'))
    return out


def rget(R, n, mode):
    """R: dict phys name -> value. Value of R[n] (0<=n<=14) as seen from `mode`."""
    sel = bank_of(n, mode)
    out = R[sel[-1][1]]
    for c, nm in reversed(sel[:-1]):
        out = ite(c, R[nm], out)
    return out


def rset(R, n, mode, v):
    """functional update of the bank: returns a new dict"""
    new = dict(R)
    conds = {}
    for c, nm in bank_of(n, mode):
        conds[nm] = lor(conds[nm], c) if nm in conds else c
    for nm, c in conds.items():
        new[nm] = ite(c, v, R[nm])
    return new


def spsr_get(st, mode):
    out = 0
    for nm in SPSRS:
        out = ite(mode == SPSR_MODE[nm], st['spsr_' + nm], out)
    return out


def spsr_set(st, mode, v):
    for nm in SPSRS:
        st['spsr_' + nm] = ite(mode == SPSR_MODE[nm], v, st['spsr_' + nm])


# ---- CPSR fields (B1.3.3)
def cpsr_field(c, name):
    return {'n': bit(c, 31), 'z': bit(c, 30), 'c': bit(c, 29), 'v': bit(c, 28), 'q': bit(c, 27), 'j': bit(c, 24),
            'ge': bits(c, 19, 16), 'e': bit(c, 9), 'a': bit(c, 8), 'i': bit(c, 7), 'f': bit(c, 6), 't': bit(c, 5),
            'm': bits(c, 4, 0), 'it': (bits(c, 15, 10) << 2) | bits(c, 26, 25)}[name]


_POS = {'n': (31, 31), 'z': (30, 30), 'c': (29, 29), 'v': (28, 28), 'q': (27, 27), 'j': (24, 24), 'ge': (19, 16),
        'e': (9, 9), 'a': (8, 8), 'i': (7, 7), 'f': (6, 6), 't': (5, 5), 'm': (4, 0)}


def setbits(x, hi, lo, v):
    w = hi - lo + 1
    return x - (bits(x, hi, lo) << lo) + (v << lo)


def cpsr_with(cpsr_value, **kw):
    c = cpsr_value
    for k, v in kw.items():
        if k == 'it':
            c = setbits(c, 15, 10, bits(v, 7, 2))
            c = setbits(c, 26, 25, bits(v, 1, 0))
        else:
            hi, lo = _POS[k]
            c = setbits(c, hi, lo, v)
    return c


def iset(c):
    return (bit(c, 24) << 1) | bit(c, 5)


def is_secure(st):
    return lor(lnot(st['cfg.have_security_ext']), bit(st['scr'], 0) == 0, bits(st['cpsr'], 4, 0) == MON)


def pc_read(st):
    """value read from R15: current instruction + 8 (ARM) / + 4 (Thumb)"""
    return (st['R.PC'] + ite(iset(st['cpsr']) == ISET_ARM, 8, 4)) & 0xFFFFFFFF
