"""Architectural single-step function for one encoding row: Decode, ConditionPassed, Operation, PC/ITSTATE advance."""
from .rt import ite, land, lor, lnot, bits, bit, M32
from . import state as ST
from . import psr as PSR
from .cpu import Cpu, _ite_any

SKIP = {'cpu.opcode', 'cpu.opcode_len'} | {'chg[%d]' % i for i in range(16)}


def spec_step(row, st0, instr, iset, oplen, mem=None, fix=None):
    """-> (final leaves dict, unpredictable, undefined)   iset: 'arm' | 'thumb'
    fix(name, width, value) may replace a decoded field by an equal simpler value (e.g. a constant known from
    the path condition); it must preserve the value."""
    f = row.extract(instr)
    if fix is not None:
        for name, segs in row.fields.items():
            w = sum(hi - lo + 1 for hi, lo in segs)
            f[name] = fix(name, w, f[name])
    base = Cpu(dict(st0), iset, instr, oplen, mem)
    unpred = row.sbz_violated(instr)
    if row.unpred is not None:
        unpred = lor(unpred, row.unpred(f, base))
    undef = row.undef(f, base) if row.undef is not None else False
    if getattr(row, 'unconditional', False):
        # no condition field and not permitted in an IT block (the row's operation flags that UNPREDICTABLE)
        passed, cu = True, False
    else:
        passed, cu = PSR.condition_passed(iset, instr, oplen, st0['cpsr'])
    exe = base.copy()
    row.op(exe, f)
    unpred = lor(unpred, cu, land(passed, exe.unpred), land(passed, exe.unknown))
    undef = lor(undef, land(passed, exe.undef))
    final = {}
    for k, v0 in st0.items():
        v1 = exe.st.get(k, v0)
        final[k] = v1 if v1 is v0 else _ite_any(passed, v1, v0)
    branched = land(passed, exe.branched)
    final['R.PC'] = ite(branched, exe.st['R.PC'], (st0['R.PC'] + oplen // 8) & M32)
    it0 = ST.cpsr_field(st0['cpsr'], 'it')
    c1 = final['cpsr']
    # ITSTATE advances after an instruction of an IT block - except where the instruction was an exception return: the IT bits
    # it loaded are those of the interrupted code and stand for the next instruction as they are
    final['cpsr'] = ite(land(bits(it0, 3, 0) != 0, lnot(land(passed, exe.eret))), ST.cpsr_with(c1, it=PSR.it_advance(ST.cpsr_field(c1, 'it'))), c1)
    if exe.unkmask:
        final['__unkmask__'] = {k: ite(passed, m, 0) for k, m in exe.unkmask.items()}
    return final, unpred, undef
