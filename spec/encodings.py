"""The encoding table: every row of every family, assembled once."""
from .enc import Table
from . import ops_dp
from . import ops_branch

TABLE = Table()
ops_dp.build_arm(TABLE)
ops_dp.build_thumb(TABLE)
ops_branch.build(TABLE)


def rows_for(cls_name):
    return TABLE.by_cls.get(cls_name, [])
