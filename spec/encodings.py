"""The encoding table: every row of every family, assembled once."""
from .enc import Table
from . import ops_dp
from . import ops_branch
from . import ops_ls
from . import ops_block
from . import ops_c09
from . import ops_sys
from . import ops_misc

TABLE = Table()
ops_dp.build_arm(TABLE)
ops_dp.build_thumb(TABLE)
ops_branch.build(TABLE)
ops_ls.build_arm(TABLE)
ops_ls.build_thumb(TABLE)
ops_block.build(TABLE)
ops_c09.build(TABLE)
ops_sys.build(TABLE)
ops_misc.build(TABLE)


def rows_for(cls_name):
    return TABLE.by_cls.get(cls_name, [])
