"""The encoding table: every row of every family, assembled once."""
from .enc import Table
from . import ops_dp

TABLE = Table()
ops_dp.build_arm(TABLE)
ops_dp.build_thumb(TABLE)


def rows_for(cls_name):
    return TABLE.by_cls.get(cls_name, [])
